"""C13 — Project enumeration finds every covered file once, correctly paired."""
import hashlib
import itertools

from lib import common as C
from lib import pool
from lib.runner import Outcome
from impl import projfiles as PFI
from impl import tomlcfg as TCF
from impl import inicfg as INI

ID = "C13"
LEAN_TARGETS = ["CLModel.Props.C13"]
M = "CLModel.Props.C13"
THEOREMS = [
    (M, "C13.iter_nodup_sorted", "list(ProjectFiles) yields strictly increasing paths: each at most once, sorted (locale and validation mode, no hypotheses)"),
    (M, "C13.iter_sound", "every yielded item is claimed by a path rule of a config of a project with the locale enabled (all three locale gates), found as an existing non-excluded file on the l10n or reference side, itself not excluded, paired with that rule's reference/merge/tests"),
    (M, "C13.iter_excluded_sound", "no yielded l10n path is matched by the exclude configs (full statement, no hypotheses; true since the F15 fix)"),
    (M, "C13.matchers_closed_form", "self.matchers = closed form of the duplicate scan over the reversed gated rules; without duplicate keys exactly the reversed rule list"),
    (M, "C13.last_rule_wins_partial", "an existing non-excluded localized file is paired with reference/merge of the LAST gated rule covering it, tests = that rule's plus its earlier duplicates'"),
    (M, "C13.iter_eq_match", "existing localized file p (excluded or not): list(pf) yields an item for p  <->  pf.match(p) returns that item"),
    (M, "C13.iter_eq_match_ref_partial", "reference-only file q with non-overlapping coverage: pf.match(q) and the enumeration give the same tuple"),
    (M, "C13.iter_complete_partial", "every existing non-excluded file covered by a gated rule's l10n matcher is enumerated (duplicates are duplicates; Matcher contracts)"),
    (M, "C13.iter_complete_ref_partial", "every existing non-excluded reference file covered by a gated rule makes its non-excluded l10n partner enumerated (same restrictions)"),
    (M, "C13.validation_sound", "ProjectFiles(None, ...): every item is an existing reference file covered by a reference matcher, paired with itself, no merge path"),
    (M, "C13.validation_complete", "ProjectFiles(None, ...): every existing reference file covered by a matcher of the object is yielded (Matcher contracts only)"),
    (M, "C13.new_never_depth", "the model's recursion bound for nested exclude objects is never hit: every model error is a Python exception"),
    (M, "C13.prefixOK_of_wildcard", "PrefixOK holds for every rooted matcher with a wildcard whose matches start with its prefix, also when the prefix ends inside a name (former F7) or names an existing file (former F16)"),
    (M, "C13.prefixOK_of_literal", "PrefixOK holds for every rooted matcher that matches its prefix only (wildcard-free pattern)"),
    (M, "C13.env_override", "ProjectConfig.environ after processEnv: parser env (-D) wins over the file's [env], file-only variables survive"),
    (M, "C13.literal_contract_witness", "witness for the Matcher contract in PrefixOK: a matcher flagged wildcard-free that matches more than its prefix is cut short by the isfile(prefix) shortcut"),
    (M, "C13.dup_env_witness", "F14 witness: same pattern text, different [env] value: the earlier rule is dropped as duplicate and its file is not enumerated"),
    # ---- C13M: the Matcher contracts discharged on the Matcher MODEL (ProjectFilesM = ProjectFiles on pattern texts)
    (M, "C13M.prefix_contract", "ProjectFilesM: for a matcher table built from pattern texts, every path a matcher matches starts with its prefix (PrefixOK part (a), discharged by C12 match_has_prefix)"),
    (M, "C13M.literal_contract", "ProjectFilesM: a wildcard-free, fully bound pattern matches nothing but its own expansion, which is its prefix (PrefixOK part (c): what the isfile(prefix) shortcut of _files relies on)"),
    (M, "C13M.literal_matches_expansion_partial", "… and it does match that expansion (no variable occurs twice, restriction of C12 matches_own_expansion_partial)"),
    (M, "C13M.literal_unbound_witness", "witness: the 'fully bound' hypothesis of the literal contract is forced: Matcher('/l/{v}') is wildcard-free, has prefix '/l/' and matches '/l/x'"),
    (M, "C13M.sub_contract_partial", "ProjectFilesM: for a reference/l10n pattern pair in the class of C11 sub_roundtrip_star_partial, on a filled path: the reference matcher matches it, sub gives the l10n path, the l10n matcher matches that (SubMatches), and sub maps it back"),
    (M, "C13M.prefixOK_M", "ProjectFilesM: PrefixOK holds for the computed relation as soon as the prefix contains '/' and a wildcard-free pattern is fully bound"),
    (M, "C13M.newM_spec", "ProjectFilesM.newM = PF.new on the relation computed from the texts; iterM/matchM = the model's enumeration/lookup unless a sub call raised"),
    (M, "C13M.iter_complete_M_partial", "ProjectFilesM: iter_complete_partial with PrefixOK discharged: left are rooted prefixes, 'wildcard-free => fully bound' and duplicates-are-duplicates (F14)"),
    (M, "C13M.last_rule_wins_M_partial", "ProjectFilesM: last_rule_wins_partial with PrefixOK discharged and SubMatches replaced by the pattern class on the reference files of the tree; F14 hypothesis kept"),
    (M, "C13M.iter_eq_match_M_partial", "ProjectFilesM: enumeration = lookup for an existing localized file, PrefixOK discharged, SubMatches replaced by the pattern class"),
    (M, "C13M.validation_complete_M", "ProjectFilesM: validation mode yields every existing reference file a reference matcher matches (PrefixOK discharged)"),
    (M, "C13M.sub_class_witness", "witness: outside the sub class (reference '/r/**', l10n '/l/*') the enumeration yields '/l/a/b.ftl' while match('/l/a/b.ftl') is None"),
    # ---- C13T: the TOML route (TOMLParser as a function of the toml.load dictionaries and the command-line env), composed with the enumeration
    (M, "C13T.parse_raises_only", "TOMLParser.parse raises nothing but: ConfigNotFound(q) where q really is not a loadable file (with ignore_missing_includes only the top file itself), KeyError for a missing l10n/path/action key, ExcludeError, an exception of Matcher()/expand(), RecursionError for an include cycle"),
    (M, "C13T.parse_total_welltyped", "parsing is total on well-typed dictionaries: if every file reads against the schema, parse returns a configuration or one of those Python exceptions"),
    (M, "C13T.missing_child", "_processChild, exactly: a child whose parse raises ConfigNotFound is re-raised unless ignore_missing_includes, else skipped and the remaining entries are processed as if it were not there"),
    (M, "C13T.child_error_propagates", "every other exception of a child's parse (KeyError, ExcludeError, ...) is never swallowed by ignore_missing_includes"),
    (M, "C13T.parsed_node_from_file", "every ProjectConfig of the parsed graph (top, includes, excludes, any depth) is what ONE file says: path loadable, root = basepath against its directory, environ = its [env] overridden by the command line, paths = its [[paths]] one by one, rules = its compiled [[filters]], locales = its locales"),
    (M, "C13T.paths_one_rule_each", "every [[paths]] table yields exactly one path rule, in order, with its own reference, test and locales (module None)"),
    (M, "C13T.cmdline_env_wins", "env_override lifted through the whole parse: in every config of the graph a variable has the command-line value if given, else that config's own [env] value; a child inherits the command-line env only, nothing of the parent's [env]"),
    (M, "C13T.all_locales_union", "ProjectConfig.all_locales = own locales + per-rule locales + all_locales of the INCLUDED configs; excludes never contribute"),
    (M, "C13T.all_locales_gate", "the project gate `locale in project.all_locales` of ProjectFiles.__init__ on the tree built from a parsed config is membership in that config's all_locales"),
    (M, "C13T.parse_fuel_irrelevant", "the model's bound on the nesting of includes plays no role once it suffices"),
    (M, "C13T.enumerate_nodup_sorted", "parse + ProjectFiles as ONE function of (dictionaries, env, tree): each path at most once, sorted"),
    (M, "C13T.enumerate_not_excluded", "... no enumerated path is matched by the ProjectFiles object built from the [[excludes]] configurations"),
    (M, "C13T.enumerate_sound", "... every enumerated item is claimed by a [[paths]] table of a config that is the project's top file or reached through [[includes]] only, that config is what its file says, locale in the project's all_locales and enabled by the file's and the table's locales, the table's tests among the item's"),
    (M, "C13T.enumerate_sound_matchers", "... and the table handed to ProjectFiles holds, under the rule's ids, exactly Matcher(d.l10n, env=c.environ, root=c.root).with_env({'locale': locale}) and Matcher(d.reference, env=c.environ, root=c.root) of that [[paths]] table d of that config c; the item's path is an existing non-excluded file the former matches, or the sub image of an existing non-excluded reference file the latter matches"),
    (M, "C13T.projectFiles_ids_ok", "the matcher ids TC.toPFM writes into the path rules are ids of its own table: the composition cannot fail for bookkeeping reasons (newM never answers badId)"),
    (M, "C13T.illtyped_witness", "witness: `locales = \"de\"` (a string) is reported as ill-typed: the hypothesis of parse_total_welltyped is needed"),
    # ---- C13I: the legacy l10n.ini route (paths/ini.py)
    (M, "C13I.ini_config_shape", "EnumerateApp(inipath, l10nbase).asConfig(): one ProjectConfig without path/root/children/excludes/rules, environ = {l10n_base: abspath(l10nbase)}, locales from the all-locales file, path rules = one per (base, dir) of directories(), in order"),
    (M, "C13I.dirs_entry_two_rules", "every `dirs` word m of every loaded l10n.ini n (top or included, any depth) yields the rule l10n = {l10n_base}/{locale}/m/**, reference = n.base/m/locales/en-US/**, module = m (android-dtd test exactly for mobile/android/base), and every path rule is of that form"),
    (M, "C13I.top_dirs_loaded", "the top l10n.ini is a node of the include tree with base = dirname(inipath)/depth and dirs = the white-space separated words of [compare] dirs"),
    # ---- C13S: parser sessions — ONE TOMLParser / EnumerateApp object used for a sequence of calls (Paths/TomlSession.lean)
    (M, "C13S.parser_session_pointwise", "a TOMLParser object has no memory: in a sequence of parse calls on ONE object the n-th result is TOMLParser().parse of the n-th arguments on the files as they are at the n-th call (whatever was parsed before, with whatever variables, whatever was rewritten in between)"),
    (M, "C13S.parser_object_unchanged", "the TOMLParser object after a parse call is the object before it: nothing is stored on self"),
    (M, "C13S.session_parse_pointwise", "... also inside a history mixing parse, set_locales(deep=True) on earlier results and ProjectFiles enumerations: call n, if a parse, returns TC.parse of ITS arguments and ITS world"),
    (M, "C13S.session_files_pointwise", "ProjectFiles built again and again from the configurations the caller holds: call n returns the stateless enumeration + lookups of the graphs held at that moment, independent of the locales, merge bases and order of the earlier constructions"),
    (M, "C13S.session_reads_leave_state", "building and enumerating a ProjectFiles object changes nothing the caller holds"),
    (M, "C13S.live_config_stable", "no aliasing between results: a configuration the caller holds is changed by nothing but set_locales on that very object — not by later parses, not by set_locales(deep=True) on another result that includes the same file, not by ProjectFiles objects"),
    (M, "C13S.parsed_config_kept", "a successful parse hands the caller exactly TC.parse(...) and the object stays that through any later history that does not call set_locales on it"),
    (M, "C13S.files_of_fresh_parse", "ProjectFiles on the graphs parse returned = TC.projectFiles (parse + construct in one go): the C13T.enumerate_* theorems apply to the enumerations of a session"),
    (M, "C13S.eapp_session_pointwise", "an EnumerateApp object has no memory: the n-th asConfig() is asConfig of the configuration its constructor loaded on filter.py / all-locales as they are at the n-th call"),
    (M, "C13S.eapp_reuse_eq_fresh", "a re-used EnumerateApp returns what a fresh EnumerateApp(inipath, l10nbase).asConfig() returns at that moment, as long as the l10n.ini files load to the same configuration"),
    (M, "C13S.memo_session_pointwise", "which caches on a parser object are safe: calls through a memo table whose key determines the result return, call by call, what the uncached function returns"),
    (M, "C13S.memo_key_must_determine", "... and only those: two calls with equal keys and different results make the second call return the first call's result"),
    (M, "C13S.names_key_witness", "the regression in miniature, evaluated through the parser model: an include parsed for l10n_base=/l and then for /other through a cache keyed by (path, NAMES of the command-line variables) comes back with /l the second time"),
    (M, "C13T.include_cycle_witness", "witness: a file that includes itself gives the model's RecursionError (the real parser raises RecursionError on the same file)"),
]
PARTIAL = [
    "iter_complete_partial / last_rule_wins_partial need 'duplicates are duplicates' (matchers identified by the duplicate scan cover the same paths); false when two configs use the same pattern text with different [env] values after the first wildcard (known finding F14, witness dup_env_witness)",
    "completeness, last_rule_wins_partial and iter_eq_match assume PrefixOK, three contracts of Matcher (C12), none about the tree: matched paths start with the prefix string, the prefix is rooted, a wildcard-free pattern matches its prefix only (witness literal_contract_witness shows what the shortcut does otherwise); the harness tabulates the real Matcher and asserts nothing beyond it",
    "iter_eq_match_ref_partial covers reference-only files (the l10n partner does not exist); lookups by reference path whose l10n partner exists need the exact sub round trip of Matcher (C12) and are covered by the correspondence + oracle only",
    "iter_eq_match and last_rule_wins_partial assume the Matcher.sub round trip (SubMatches: the l10n path computed from a reference match is matched by the l10n matcher) — a Matcher property (C12), checked on every generated project by the harness-side tables",
    "C13M (ProjectFilesM: the abstract matcher instantiated with the Matcher MODEL of C11/C12, matchers given as pattern texts): PrefixOK (a) and (c) are PROVED (prefix_contract, literal_contract); what is left as hypotheses of the restated theorems is: the prefix contains a '/' (decidable per matcher), a wildcard-free pattern has all its variables bound (forced: literal_unbound_witness), the F14 hypothesis hdup (unchanged), and — instead of SubMatches — SubClassOn: every reference FILE of the tree that a rule's reference matcher matches is a well-separated filling for which reference and l10n pattern are in the class of C11 sub_roundtrip_star_partial (top-level literals, *, **/, final **, first occurrences of fully bound variables, no {android_locale}); outside that class the round trip is false in general (sub_class_witness, C11 roundtrip_separator_witness) and is covered by correspondence + oracle only",
    "C13M supported class of the composed model: every matcher has a prefix, a compiling regex and no {android_locale} group (then match cannot raise, usable_match_ok); other tables are reported as unsupported by newM and skipped (counted) by the correspondence stream; a sub call that raises inside the class surfaces as MErr.sub",
    "C13T (TOML route): TOML SYNTAX stays toml's (the model starts at the dictionaries toml.load returns, sent to the driver as such); values of another type than the code expects (locales = \"de\", paths = 3, ...) are outside the model (Err.illTyped; counted as toml.skipped.ill-typed); re.compile of a filter key stays external (the model carries the source text of the compiled key, compared with rule['key'].pattern); the model's RecursionError for an include cycle is tied to Python's by the correspondence only (no pigeonhole proof that running out of files.length+1 levels implies a repeated file); symbolic links and non-normalised top-level paths through missing directories are outside the model",
    "C13T.enumerate_sound / enumerate_sound_matchers pull the origin of an item (project, config reached through includes only, [[paths]] table, locale gates, tests, the two Matcher texts with the config's environ and root) back to the dictionaries; completeness, last-rule-wins and enumeration = lookup are NOT restated over the dictionaries: they apply to TC.projectFiles through C13M.newM_spec (the object is a ProjectFilesM object) with their hypotheses (F14, Rooted, LiteralBound, SubClassOn) stated on the matcher table",
]
TRUSTED = [
    "C13S: hand-written state machines CLModel/Paths/TomlSession.lean (TParser = a TOMLParser instance, which has no instance attribute; State.live = the ProjectConfig graphs the caller holds, value semantics = no sharing between results; EApp = an EnumerateApp after __init__: loaded config + abspath(l10nbase)) tied to the real objects by c13.session (a recorded history of parse / set_locales(deep=True) / ProjectFiles+list+match calls on ONE real TOMLParser with the configuration files rewritten between the calls, every result and the graphs held at the end compared) and c13.ini.session (one real EnumerateApp, asConfig() per world)",
    "hand-written model CLModel/Paths/ProjectFiles.lean of ProjectFiles.__init__/__iter__/iter_locale/iter_reference/_files/match, ProjectConfig.configs/all_locales, ConfigList.maybe_extend, mozpath.dirname, TOMLParser.processEnv (tied by the `pf.run`/`pf.env` correspondence on real temp directories)",
    "Matcher is abstract: prefix, realpath(prefix), pattern equality class, match relation and sub images are tabulated by the harness from the REAL Matcher objects for every path of the finite universe (files of the tree in os.walk order + ~12 absent paths + the l10n partners of reference paths); matchers are bound to the locale by the harness the way __init__ does (with_env)",
    "os.walk(base)+mozpath.join modelled as: the files whose path starts with base read as a directory (prefixes contain no '//', '.', '..' segments: asserted on every project), nothing for base ''; os.path.isfile = membership in the file list; dict = insertion-ordered association list; sorted = insertion sort on the unique keys",
    "the fused call: Matcher.sub(other, p) re-runs the pure Matcher.match(p) that _files/match just evaluated; the model reuses that result",
    "C13T: hand-written model CLModel/Paths/TomlConfig.lean of TOMLParser (parse, load, processBasePath/Env/Paths/Filters/Includes/Excludes/Locales, _processChild), ProjectConfig.set_root/add_environment/add_paths/add_rules/_compile_rule/add_child/exclude/set_locales(deep)/configs/all_locales/same, posixpath.join/normpath/dirname/abspath, and of the harness step that binds matchers to the locale (TC.toPFM), tied to the real code by three streams: c13.toml.parse (real TOMLParser on real temp files vs the model on toml.load of the same files, canonical text of the whole graph incl. every stored Matcher's root/pattern/env, compiled filter keys, all_locales; or the exception), c13.toml.same, c13.toml.run (real ProjectFiles enumeration + lookups vs TC.projectFiles on dictionaries, env and tree); key names of the TOML schema are written in the model (they are the specification of the input), REFERENCE_LOCALE, the re: prefix and the re.escape table are generated",
    "C13I: hand-written model CLModel/Paths/IniConfig.lean of paths/ini.py (L10nConfigParser.loadConfigs/addChild/directories/getFilters/allLocales, SourceTreeConfigParser.addChild, EnumerateApp/EnumerateSourceTreeApp.asConfig/_config_for_ini) from the PARSED ini sections — configparser (interpolation, case folding, DEFAULT section), exec of filter.py and util.parseLocales stay external: the harness reads the generated files with the real ConfigParser / parseLocales and sends the answers — tied by c13.ini.config (canonical ProjectConfig + which filter.py, or the exception) and c13.ini.run (real ProjectFiles enumeration of that config vs the model); str.split() is modelled for ASCII white space; the literal pieces of the two patterns and the Android module/test are generated from _config_for_ini",
    "C13M: hand-written composition CLModel/Paths/ProjectFilesM.lean (MEnv computed from PM.Matcher: match relation, sub via an injective code of (matcher, path) — decode_encode proved —, prefix, literal, Pattern equality classes, realpath(prefix) = trailing slashes stripped) tied to the real ProjectFiles by the `pfm.run` correspondence: the matcher table is sent as TEXTS (pattern, env, root, with_env binding; the temp root cut off like in the results; re-parsing the texts with the real Matcher must give the same Pattern/env back) and the result string is compared with the real enumeration + lookups",
]
ASSUMPTIONS = [
    "path rules are rooted (config root or absolute {l10n_base}); no symlinks in the tree; file names without newline",
    "projects whose duplicate rules disagree on the reference (RuntimeError / AttributeError raised by __init__, or silently merged) are run through the correspondence but not judged by the oracle: the property makes no claim about them",
]
LEVEL_TEXT = ("Lean 4 theorems over an executable transliteration of ProjectFiles (constructor incl. locale gating, reversal and the duplicate scan "
              "in closed form; iter_locale, iter_reference, _files with the real os.walk semantics incl. dirname(prefix) for prefixes ending inside a "
              "name and the isfile shortcut for wildcard-free patterns only; match) for ALL matcher relations, file lists and config graphs: strictly increasing output, soundness w.r.t. enabled rules, "
              "nothing of an excluded config (unconditional), last rule wins, enumeration = lookup for existing localized files, completeness under "
              "explicit hypotheses with negation witnesses; parser env overrides file env. TOMLParser itself is modelled as a function of the "
              "toml.load dictionaries and the command-line env (basepath, env, paths, filters, includes/excludes with ConfigNotFound handling, "
              "locales) and composed with the enumeration into one function of (dictionaries, env, tree): what parse can raise, every config "
              "of the graph is what its file says, command line overrides [env] in every config, all_locales = union over includes, and "
              "sortedness / exclusion / origin of every item restated over the dictionaries. The long-lived OBJECTS are state machines "
              "(TParser, the ProjectConfig graphs a caller holds, EApp): the n-th result of a session is the stateless function of the n-th "
              "arguments and the n-th world, results are never aliased, and a memo table is invisible iff its key determines the result "
              "(with the names-only key of the round-3 regression as a kernel-checked counterexample). The model is tied to the Python by differential runs of "
              "generated TOML projects in real temp directories (all locales + reference validation mode, every file and ~12 absent paths looked up), "
              "and an oracle that knows the covered set by construction judges the implementation independently of the model")
LEVEL_NOTE = ("trusted: Lean kernel; hand-written model validated by correspondence; Matcher abstract (tables from the real Matcher; Matcher itself is C11/C12) in the C13.* "
              "theorems and COMPUTED from the Matcher model in the C13M.* theorems (ProjectFilesM, second correspondence stream on pattern texts), where the Matcher contracts "
              "PrefixOK (a)/(c) are proved and only 'prefix contains /', 'wildcard-free => fully bound', the sub pattern class of C11 and F14 remain; "
              "TOML syntax is toml's. Findings F7, F15 and F16 of the earlier rounds are fixed in /repo and their hypotheses are gone. Completeness / "
              "last-rule-wins still need 'duplicates are duplicates' (known finding F14, re-discovered by the oracle in every run with a concrete "
              "project and mirrored by a Lean negation witness); the other hypotheses are contracts of Matcher (C12)")
LOCALES = ["de", "de-AT", "fr"]
LDIRS = ["", "browser/", "browser/sub/", "toolkit/"]
NAMES = ["a.ftl", "bar.ftl", "baz.ftl", "ba.ftl", "ba", "b.properties", "file.ftl", "x.ftl", "x/one.ftl", "x/two.ftl", "deep/er/x.ftl"]
TAIL_W = [("ss", 4), ("star_ftl", 3), ("star", 1), ("lit", 2), ("ba", 1), ("ba_any", 1), ("ss_x", 1), ("star_v", 2)]

# (projects, {config: (includes, excludes)}) — one to three configurations
SHAPES = [
    (["M"], {"M": ([], [])}),
    (["M"], {"M": (["A"], []), "A": ([], [])}),
    (["M"], {"M": ([], ["A"]), "A": ([], [])}),
    (["M"], {"M": (["A"], ["B"]), "A": ([], []), "B": ([], [])}),
    (["M"], {"M": (["A", "B"], []), "A": ([], []), "B": ([], [])}),
    (["M"], {"M": (["A"], []), "A": (["B"], []), "B": ([], [])}),
    (["M", "A"], {"M": ([], []), "A": ([], [])}),
    (["M", "B"], {"M": ([], ["A"]), "B": (["A"], []), "A": ([], [])}),
    (["M", "B"], {"M": (["A"], []), "B": (["A"], []), "A": ([], [])}),
    (["M"], {"M": ([], ["A"]), "A": (["B"], []), "B": ([], [])}),
    (["M"], {"M": ([], ["A", "B"]), "A": ([], []), "B": ([], [])}),
]
FILES = {"M": ["cfg/main.toml", "l10n.toml"], "A": ["cfg/a.toml", "cfg/sub/a.toml"], "B": ["b.toml", "cfg/b.toml"]}


def wchoice(rng, pairs):
    tot = sum(w for _, w in pairs)
    x = rng.random() * tot
    for v, w in pairs:
        x -= w
        if x < 0:
            return v
    return pairs[-1][0]


def subset(rng, xs, lo=1):
    k = rng.randint(lo, len(xs))
    return sorted(rng.sample(xs, k))


def gen_rule(rng, in_exclude=False):
    ldir = rng.choice(LDIRS)
    r = {"lroot": rng.choice(["l", "inline"]), "ldir": ldir, "tail": wchoice(rng, TAIL_W),
         "ref": rng.random() < (0.5 if in_exclude else 0.85), "rdir": (lambda x: ldir if x < 0.7 else (ldir + "en-US/" if x < 0.9 else rng.choice(LDIRS)))(rng.random()),
         "test": None, "locales": None}
    if rng.random() < 0.4:
        r["test"] = subset(rng, PFI.TESTS, lo=0)[:2]
    if rng.random() < 0.25:
        r["locales"] = subset(rng, LOCALES)
    return r


def basepath_of(file):
    depth = file.count("/")
    return "." if depth == 0 else "/".join([".."] * depth)


BASE_SPELL = {0: [".", "./", "", "@R@", "zz/.."], 1: ["..", "../", "../.", "@R@", "../cfg/..", "./.."], 2: ["../..", "@R@/", "../../.", "../../cfg/.."]}
FILTER_KEYS = [None, None, "key-1", "re:^ab+c$", "a.b c", ["k1", "re:x|y"], ["only"], []]


def decorate(spec, graph, rng):
    """the TOML route beyond paths: filters, other spellings of basepath and of include paths, configuration files that are
    missing or not TOML (with and without ignore_missing_includes), `set_locales(deep=True)`"""
    configs = spec["configs"]
    spec["ignore"] = rng.random() < 0.35
    for c, cf in configs.items():
        if c not in spec["projects"] and rng.random() < (0.25 if spec["ignore"] else 0.04):
            cf["missing"] = rng.choice(["absent", "garbled"])
        if rng.random() < 0.35:
            cf["basepath"] = rng.choice(BASE_SPELL[cf["file"].count("/")])
        if rng.random() < 0.3:
            fl = []
            for _ in range(rng.randint(1, 3)):
                pats = [PFI.LROOT[r["lroot"]] + r["ldir"] + rng.choice(["a.ftl", "**", "*.ftl"]) for r in cf["rules"]] + ["ref/x/*.ftl"]
                path = rng.choice(pats) if rng.random() < 0.5 else [rng.choice(pats) for _ in range(rng.randint(0, 3))]
                fl.append({"path": path, "key": rng.choice(FILTER_KEYS), "action": rng.choice(["error", "warning", "ignore"])})
            cf["filters"] = fl
        sp = {}
        for x in list(cf["includes"]) + list(cf["excludes"]):
            if rng.random() < 0.4:
                sp[x] = rng.choice(["dot", "updown", "absolute", "var", "slashes"])
        if sp:
            cf["inc_spell"] = sp
            if "var" in sp.values():
                if rng.random() < 0.5:
                    spec["parser_env"]["cfgroot"] = "@R@"
                else:
                    cf["env"]["cfgroot"] = "@R@"
                    if rng.random() < 0.3:
                        spec["parser_env"]["cfgroot"] = "@R@/."
    if rng.random() < 0.1:
        spec["deep"] = subset(rng, LOCALES + ["ja"])
    return spec


def finish(spec, rng):
    """derived parts: env, files are given; mismatch flag; lookups"""
    allr = [(c, r) for c, cf in spec["configs"].items() for r in cf["rules"]]
    seen = {}
    mismatch = False
    for c, r in allr:
        k = (r["lroot"], r["ldir"], r["tail"])
        sig = (r["ref"], r["rdir"] if r["ref"] else None)
        if k in seen and seen[k] != sig:
            mismatch = True
        seen.setdefault(k, sig)
    spec["mismatch"] = mismatch
    return spec


def gen_project(rng, shapes=None, maxfiles=16):
    projects, graph = rng.choice(shapes or SHAPES)
    excluded = set()
    for c, (_, ex) in graph.items():
        for e in ex:
            excluded.add(e)
            todo = [e]
            while todo:
                x = todo.pop()
                for y in graph[x][0]:
                    excluded.add(y)
                    todo.append(y)
    configs = {}
    pool_rules = []
    for c in graph:
        file = rng.choice(FILES[c])
        rules = []
        for _ in range(rng.randint(1, 4)):
            if pool_rules and rng.random() < 0.25:
                r = dict(rng.choice(pool_rules))       # the same rule again (duplicate), other annotations
                if rng.random() < 0.5:
                    r["test"] = subset(rng, PFI.TESTS, lo=0)[:2]
                if rng.random() < 0.3:
                    r["locales"] = subset(rng, LOCALES) if rng.random() < 0.5 else None
            else:
                r = gen_rule(rng, c in excluded)
            rules.append(r)
            pool_rules.append(r)
        env = {}
        if any(r["lroot"] == "l" for r in rules) or rng.random() < 0.2:
            env["l"] = "{l10n_base}/{locale}/"
        if any(r["tail"] == "star_v" for r in rules) or rng.random() < 0.15:
            env["v"] = rng.choice(["one", "two"])
        if rng.random() < 0.3:
            env["l10n_base"] = "@R@/wrong"
        if c in projects:
            locales = subset(rng, LOCALES) if rng.random() < 0.9 else None
        else:
            locales = subset(rng, LOCALES) if rng.random() < 0.5 else None
        configs[c] = {"file": file, "basepath": basepath_of(file), "locales": locales, "env": env, "rules": rules,
                      "includes": list(graph[c][0]), "excludes": list(graph[c][1])}
    penv = {"l10n_base": "@R@/l10n"}
    if rng.random() < 0.3:
        penv["v"] = rng.choice(["one", "two"])
    # the tree: logical files in the directories the rules talk about, present on some sides
    files = set()
    dirs = sorted({r["ldir"] for cf in configs.values() for r in cf["rules"]} | {rng.choice(LDIRS)})
    rdirs = sorted({r["rdir"] for cf in configs.values() for r in cf["rules"] if r["ref"]} | set(dirs))
    n = rng.randint(2, 6)
    for _ in range(n):
        d = rng.choice(dirs)
        name = rng.choice(NAMES)
        for loc in LOCALES:
            if rng.random() < 0.45:
                files.add("/l10n/%s/%s%s" % (loc, d, name))
        if rng.random() < 0.65:
            files.add("/ref/%s%s" % (rng.choice([d] + [x for x in rdirs if x.startswith(d)]), name))
        if rng.random() < 0.15:
            files.add("/wrong/%s/%s%s" % (rng.choice(LOCALES), d, name))
    if rng.random() < 0.5:
        files.add("/l10n/%s/other/u.ftl" % rng.choice(LOCALES))
    if rng.random() < 0.3:
        files.add("/ref/other/u.ftl")
    if rng.random() < 0.2:
        files.add("/l10n/README")
    files = sorted(files)[:maxfiles]
    lookups = ["/l10n/zz/browser/a.ftl", "/elsewhere/a.ftl"]
    for loc in LOCALES:
        for _ in range(2):
            lookups.append("/l10n/%s/%s%s" % (loc, rng.choice(dirs), rng.choice(NAMES)))
    lookups.append("/ref/%s%s" % (rng.choice(rdirs), rng.choice(NAMES)))
    # l10n side of the reference pseudo-locale: only validation-mode lookups can tell
    for _ in range(2):
        lookups.append("/l10n/%s/%s%s" % (PFI.REFLOC, rng.choice(dirs), rng.choice(NAMES)))
    spec = {"projects": list(projects), "configs": configs, "parser_env": penv, "mergebase": rng.random() < 0.4,
            "files": files, "locales": list(LOCALES) + (["ja"] if rng.random() < 0.1 else []),
            "lookups": sorted(set(lookups) - set(files)), "vmerge": rng.random() < 0.1}
    if rng.random() < 0.6:
        decorate(spec, graph, rng)
    return finish(spec, rng)


# ---------------------------------------------------------------- parser sessions: a HISTORY is the unit of generation
FILES["C"] = ["cfg/c.toml", "c.toml"]
# diamond includes (C reached twice in ONE parse), also with one arm excluded, and two top files sharing a nested include
SESSION_SHAPES = SHAPES + [
    (["M"], {"M": (["A", "B"], []), "A": (["C"], []), "B": (["C"], []), "C": ([], [])}),
    (["M"], {"M": (["A"], ["B"]), "A": (["C"], []), "B": (["C"], []), "C": ([], [])}),
    (["M", "B"], {"M": (["A"], []), "A": (["C"], []), "B": (["C"], []), "C": ([], [])}),
    (["M", "A"], {"M": (["A", "B"], []), "A": (["C"], []), "B": (["C"], []), "C": ([], [])}),
]
EDITS = [("env-base", 5), ("env-v", 4), ("rewrite", 5), ("missing", 3), ("reshape", 4), ("same", 2), ("tree", 2), ("locales", 2)]


def edit_step(spec, rng):
    """the next step of a session: the previous one after one or two edits of the kind a user makes between two runs —
    another checkout (l10n_base), another -D value, an included file rewritten / deleted / restored, an include turned into an
    exclude or another top file, files added to or removed from the tree"""
    import copy
    spec = copy.deepcopy(spec)
    spec.pop("deep_after", None)
    cfgs = spec["configs"]
    done = []
    for _ in range(rng.choice([1, 1, 2])):
        e = wchoice(rng, EDITS)
        done.append(e)
        inner = [c for c in cfgs if c not in spec["projects"]]
        if e == "env-base" and not spec.get("env_none"):
            spec["parser_env"]["l10n_base"] = "@R@/l10nB" if spec["parser_env"]["l10n_base"] == "@R@/l10n" else "@R@/l10n"
        elif e == "env-v" and not spec.get("env_none"):
            if "v" in spec["parser_env"] and rng.random() < 0.5:
                del spec["parser_env"]["v"]
            else:
                spec["parser_env"]["v"] = "two" if spec["parser_env"].get("v") == "one" else "one"
        elif e == "rewrite":
            c = rng.choice(inner or list(cfgs))
            cf = cfgs[c]
            cf["rules"] = [gen_rule(rng) for _ in range(rng.randint(1, 3))]
            if any(r["lroot"] == "l" for r in cf["rules"]):
                cf["env"]["l"] = "{l10n_base}/{locale}/"
            if any(r["tail"] == "star_v" for r in cf["rules"]) or rng.random() < 0.3:
                cf["env"]["v"] = "two" if cf["env"].get("v") == "one" else "one"
            if rng.random() < 0.4:
                cf["locales"] = subset(rng, LOCALES) if rng.random() < 0.7 else None
            cf.pop("filters", None)
        elif e == "missing" and inner:
            c = rng.choice(inner)
            if cfgs[c].get("missing"):
                del cfgs[c]["missing"]
            else:
                cfgs[c]["missing"] = rng.choice(["absent", "absent", "garbled"])
            spec["ignore"] = rng.random() < 0.7
        elif e == "reshape":
            same = [sh for sh in SESSION_SHAPES if set(sh[1]) == set(cfgs)]
            projects, graph = rng.choice(same)
            spec["projects"] = list(projects)
            for c in cfgs:
                cfgs[c]["includes"], cfgs[c]["excludes"] = list(graph[c][0]), list(graph[c][1])
        elif e == "tree":
            fs = list(spec["files"])
            for _ in range(rng.randint(1, 3)):
                if fs and rng.random() < 0.5:
                    fs.remove(rng.choice(fs))
                else:
                    f = rng.choice(spec["files"] or ["/l10n/de/a.ftl"])
                    parts = f.split("/")
                    parts[-1] = rng.choice(NAMES).split("/")[-1]
                    fs.append("/".join(parts))
            spec["files"] = sorted(set(fs))
        elif e == "locales":
            c = rng.choice(list(cfgs))
            cfgs[c]["locales"] = subset(rng, LOCALES) if (c in spec["projects"] or rng.random() < 0.6) else None
    for c in spec["projects"]:
        cfgs[c].pop("missing", None)        # a top file that cannot be loaded is the directed family's business
    spec["edits"] = done
    spec["lookups"] = sorted(set(spec["lookups"]) - set(spec["files"]))
    return spec


def gen_session(rng):
    """one TOMLParser object, 2-4 parses: the first project, then edited versions of it (files rewritten in place)"""
    base = gen_project(rng, shapes=SESSION_SHAPES, maxfiles=14)
    base.pop("vmerge", None)
    # a second checkout next to the first: the same kind of files, other ones present
    other = set()
    for f in base["files"]:
        if f.startswith("/l10n/"):
            if rng.random() < 0.55:
                other.add("/l10nB/" + f[len("/l10n/"):])
            if rng.random() < 0.3:
                parts = f.split("/")
                parts[-1] = rng.choice(NAMES).split("/")[-1]
                other.add("/l10nB/" + "/".join(parts)[len("/l10n/"):])
    base["files"] = sorted(set(base["files"]) | set(sorted(other)[:8]))
    sess = {"share_env": rng.random() < 0.3}
    if rng.random() < 0.12:
        # every call without an `env` argument: the variables come from the files alone
        base["env_none"] = True
        base["parser_env"] = {}
        for cf in base["configs"].values():
            cf["env"]["l10n_base"] = "@R@/wrong"
            cf["env"].pop("cfgroot", None)
            cf["inc_spell"] = {k: ("plain" if v == "var" else v) for k, v in cf.get("inc_spell", {}).items()}
        base["files"] = sorted(set(base["files"]) | {"/wrong/" + f[len("/l10n/"):] for f in base["files"] if f.startswith("/l10n/") and rng.random() < 0.6})
    steps = [base]
    for _ in range(rng.choice([1, 1, 2, 2, 3])):
        steps.append(edit_step(steps[-1], rng))
    for st in steps:
        locs = list(st["locales"]) + [None]
        rng.shuffle(locs)
        locs = locs[:rng.choice([2, 3, 3, 4])]
        if rng.random() < 0.5:
            locs.append(rng.choice(locs))       # the same locale again, after others
        st["order"] = locs
        if rng.random() < 0.25:
            st["deep_after"] = subset(rng, LOCALES + ["ja"])
        st["lookups"] = st["lookups"][:8]
        finish(st, rng)
    sess["steps"] = steps
    return sess


EXH_TREE = ["/l10n/de/browser/a.ftl", "/l10n/de/browser/bar.ftl", "/l10n/de/browser/file.ftl", "/l10n/de/browser/x/one.ftl",
            "/l10n/de/browser/sub/bar.ftl", "/l10n/de/browser/sub/x.ftl", "/l10n/de/bar.ftl", "/l10n/fr/browser/a.ftl",
            "/ref/browser/a.ftl", "/ref/browser/bar.ftl", "/ref/browser/baz.ftl", "/ref/browser/x/two.ftl",
            "/ref/browser/sub/x.ftl", "/ref/browser/sub/file.ftl", "/ref/file.ftl"]


def exhaustive_specs(tier):
    """all ordered pairs of rule shapes (directory x tail) in one configuration over a fixed tree"""
    shapes = [(d, t) for d in LDIRS[:3] for t in PFI.TAILS]
    specs = []
    for (d1, t1), (d2, t2) in itertools.product(shapes, repeat=2):
        if tier == "quick" and (d1, d2) not in (("browser/", "browser/"), ("browser/", "browser/sub/"), ("", "browser/"), ("browser/sub/", "browser/")):
            continue
        rules = [{"lroot": "l", "ldir": d1, "tail": t1, "ref": True, "rdir": d1, "test": None, "locales": None},
                 {"lroot": "l", "ldir": d2, "tail": t2, "ref": True, "rdir": d2, "test": ["android-dtd"], "locales": None}]
        spec = {"projects": ["M"], "configs": {"M": {"file": "l10n.toml", "basepath": ".", "locales": ["de", "fr"],
                                                     "env": {"l": "{l10n_base}/{locale}/", "v": "one"}, "rules": rules,
                                                     "includes": [], "excludes": []}},
                "parser_env": {"l10n_base": "@R@/l10n"}, "mergebase": False, "files": list(EXH_TREE),
                "locales": ["de", "fr"], "lookups": ["/l10n/de/browser/zzz.ftl", "/l10n/de/browser/sub/file.ftl",
                                                    "/l10n/%s/browser/a.ftl" % PFI.REFLOC]}
        specs.append(finish(spec, None))
    return specs


def readable(canon):
    """canonical result string with the code point lists decoded (for the evidence samples only)"""
    def tok(t):
        if t.startswith("t:") and t != "t:" and all(x.isdigit() for x in t[2:].split(",")):
            cs = [int(x) for x in t[2:].split(",")]
            return "".join(map(chr, cs)) if max(cs) >= 32 else "tests" + str(cs)
        return {"t:": "[]"}.get(t, t)
    return "|".join(";".join(" ".join(tok(t) for t in item.split(" ")) for item in part.split(";")) for part in canon.split("|"))


EXC_TREE = ["/l10n/de/browser/a.ftl", "/l10n/de/browser/sub/bar.ftl", "/l10n/de/toolkit/a.ftl", "/l10n/de/toolkit/t.ftl",
            "/l10n/fr/browser/a.ftl", "/ref/browser/a.ftl", "/ref/browser/b.ftl", "/ref/browser/sub/bar.ftl",
            "/ref/browser/sub/c.ftl", "/ref/toolkit/t.ftl"]


def exclude_specs():
    """all (two main rules sharing the reference directory) x (one rule of an excluded config) over a fixed tree"""
    main = [(ld, t) for ld in ("browser/", "toolkit/") for t in ("ss", "star_ftl")]
    excl = [(ld, t, ref) for ld in ("browser/", "toolkit/", "browser/sub/") for t in ("ss", "star_ftl") for ref in (False, True)]
    specs = []
    for (l1, t1), (l2, t2) in itertools.product(main, repeat=2):
        for (le, te, re_) in excl:
            rules = [{"lroot": "l", "ldir": l1, "tail": t1, "ref": True, "rdir": "browser/", "test": None, "locales": None},
                     {"lroot": "l", "ldir": l2, "tail": t2, "ref": True, "rdir": "browser/", "test": ["t3"], "locales": None}]
            if (l1, t1) == (l2, t2):
                rules[1]["lroot"] = "inline"
            erule = {"lroot": "l", "ldir": le, "tail": te, "ref": re_, "rdir": le, "test": None, "locales": None}
            env = {"l": "{l10n_base}/{locale}/"}
            spec = {"projects": ["M"],
                    "configs": {"M": {"file": "l10n.toml", "basepath": ".", "locales": ["de", "fr"], "env": dict(env), "rules": rules,
                                      "includes": [], "excludes": ["A"]},
                                "A": {"file": "cfg/a.toml", "basepath": "..", "locales": ["de"], "env": dict(env), "rules": [erule],
                                      "includes": [], "excludes": []}},
                    "parser_env": {"l10n_base": "@R@/l10n"}, "mergebase": False, "files": list(EXC_TREE),
                    "locales": ["de", "fr"], "lookups": ["/l10n/de/toolkit/b.ftl", "/l10n/de/browser/b.ftl"]}
            specs.append(finish(spec, None))
    return specs


def raw_of(spec):
    """a generated project as a raw case of the TOML stream: {relative file: text}, top file, env, flags"""
    files = {}
    for c, cf in spec["configs"].items():
        if cf.get("missing") == "absent":
            continue
        files[cf["file"]] = "[[paths]\n" if cf.get("missing") else PFI.toml_of(spec, c)
    return {"files": files, "top": spec["configs"][spec["projects"][0]]["file"], "env": dict(spec["parser_env"]),
            "ignore": bool(spec.get("ignore")), "deep": spec.get("deep")}


FAULTS = ["drop-l10n", "drop-action", "drop-filter-path", "drop-child-path", "excludes-in-child", "self-include", "cycle",
          "include-missing", "exclude-missing", "garble", "unbound-first", "unbound-inside", "wildcard", "delete"]


def inject(case, fault, rng):
    files = case["files"]
    names = sorted(files)
    if not names:
        return False
    f = rng.choice(names)
    lines = files[f].split("\n")

    def drop(prefix, repl=None):
        idx = [i for i, l in enumerate(lines) if l.startswith(prefix)]
        if not idx:
            return False
        i = rng.choice(idx)
        if repl is None:
            del lines[i]
        else:
            lines[i] = repl + lines[i][len(prefix):]
        files[f] = "\n".join(lines)
        return True

    if fault == "drop-l10n":
        return drop("    l10n =")
    if fault == "drop-action":
        return drop("    action =")
    if fault == "drop-filter-path":
        idx = [i for i, l in enumerate(lines) if l == "[[filters]]"]
        if not idx:
            return False
        del lines[rng.choice(idx) + 1]
        files[f] = "\n".join(lines)
        return True
    if fault == "drop-child-path":
        idx = [i for i, l in enumerate(lines) if l in ("[[includes]]", "[[excludes]]")]
        if not idx:
            return False
        i = rng.choice(idx) + 1
        lines[i] = lines[i].replace("    path =", "    file =")
        files[f] = "\n".join(lines)
        return True
    other = rng.choice(names)
    add = {"excludes-in-child": ("excludes", "@R@/" + other), "self-include": ("includes", "@R@/" + f), "cycle": ("includes", "@R@/" + case["top"]),
           "include-missing": ("includes", "@R@/gone.toml"), "exclude-missing": ("excludes", "@R@/cfg/gone.toml"),
           "unbound-first": ("includes", "{nope}/" + other), "unbound-inside": ("includes", "@R@/cfg/{nope}/x.toml"),
           "wildcard": ("excludes", "@R@/*.toml")}
    if fault in add:
        field, path = add[fault]
        files[f] = files[f] + "[[%s]]\n    path = \"%s\"\n" % (field, path)
        return True
    if fault == "garble":
        files[f] = "= not toml\n"
        return True
    if fault == "delete":
        if f == case["top"] and rng.random() < 0.7:
            return False
        del files[f]
        return True
    return False


def fault_cases(rng, n):
    out = []
    while len(out) < n:
        spec = gen_project(rng)
        case = raw_of(spec)
        fs = [rng.choice(FAULTS) for _ in range(rng.choice([1, 1, 2]))]
        done = [x for x in fs if inject(case, x, rng)]
        if not done:
            continue
        case["name"] = "fault:" + "+".join(done)
        case["ignore"] = rng.random() < 0.5
        out.append(case)
    return out


def classify(v):
    return v.get("finding")


def run(ctx):
    out = Outcome()
    out.rule = ("bounded-exhaustive: every ordered pair of rule shapes (3 directories x 8 pattern tails; quick: 4 directory pairs) in one "
                "configuration over a fixed 15-file tree, and every (two main rules sharing a reference directory) x (one rule of an excluded "
                "config) combination (192) over a fixed 10-file tree; random: generated projects of 1-3 TOML configurations (11 include/exclude "
                "shapes incl. two projects, nested includes, excluded-and-included), 1-4 rules each (overlapping, duplicated, per-rule "
                "locales, test annotations), [env] + parser env overrides, trees of up to 16 files on both sides incl. uncovered, "
                "foreign-locale and decoy-base files; every project is run for each locale (3-4) and in reference validation mode "
                "(ProjectFiles(None, ...)), with match() looked up for every file and ~10 absent paths. "
                "PARSER SESSIONS (the unit of generation is a history): ONE TOMLParser object used for 2-4 parses of a project and "
                "edited versions of it written into the same directory (other l10n_base = another checkout, other/removed -D value, no env "
                "argument at all, the caller's env dict handed in again, an included file rewritten / deleted / restored with and "
                "without ignore_missing_includes, includes turned into excludes or another top file, diamond includes, locales edited, "
                "files added to / removed from the tree), per step ProjectFiles objects built in a shuffled order with repeats from the "
                "SAME configuration objects, kept, and listed again at the end, set_locales(deep=True) on the results followed by "
                "enumerations; every step judged by its own by-construction meaning + the same parse on a fresh TOMLParser + every "
                "configuration still held must read as when it was returned; ONE EnumerateApp object with asConfig() repeated after "
                "all-locales / filter.py / the tree changed, new application objects after l10n.ini edits. "
                "non-trivial = enumeration non-empty; distinct = distinct (locale mode, canonical result) among those")
    rng = ctx.rng("c13")
    specs = exhaustive_specs(ctx.tier)
    out.count("exhaustive.projects", len(specs))
    xs = exclude_specs()
    out.count("exhaustive.exclude-projects", len(xs))
    specs += xs
    nrand = ctx.n(1500, 30000)
    specs += [gen_project(rng) for _ in range(nrand)]
    out.count("random.projects", nrand)
    res = pool.pmap("impl.projfiles", "run_case", [[s] for s in specs], timeout=20.0, batch=8)
    tie(out, ctx, specs, res, [{"spec": s} for s in specs])
    # ---- parser sessions: ONE TOMLParser object, a sequence of parses with files rewritten / variables changed in between
    sessions = [gen_session(ctx.rng("c13.sessions", str(k))) for k in range(ctx.n(110, 2500))]
    out.count("sessions", len(sessions))
    sres = pool.pmap("impl.projfiles", "run_session", [[x] for x in sessions], timeout=60.0, batch=4)
    sspecs, sstep, sinputs = [], [], []
    slines, sowners = [], []
    for i, r in enumerate(sres):
        if "r" not in r:
            out.violations.append({"what": "harness adapter raised %s: %s %s" % (r.get("exc"), r.get("msg"), r.get("where")),
                                   "input": {"session": sessions[i]}, "finding": None})
            continue
        for k, st in enumerate(r["r"]["steps"]):
            sspecs.append(sessions[i]["steps"][k])
            sstep.append({"r": st})
            sinputs.append({"session": sessions[i], "step": k})
            out.count("sessions.steps")
            for e in sessions[i]["steps"][k].get("edits", []):
                out.count("sessions.edit." + e)
        slines.append(r["r"]["sline"])
        sowners.append(i)
    bad_before = len(out.violations)
    tie(out, ctx, sspecs, sstep, sinputs)
    sbad = set(id(v["input"].get("session")) for v in out.violations[bad_before:])
    smodel = C.run_driver_parallel(slines) if ctx.model_ok else [None] * len(slines)
    for i, mo in zip(sowners, smodel):
        if mo is None:
            continue
        rr = sres[i]["r"]
        canon = rr["simpl"].replace(rr["root"], "@R@")
        mo = mo.replace(rr["root"], "@R@")
        out.evaluations += 1
        out.nontrivial.add(hashlib.sha1(("S" + canon).encode()).hexdigest()[:16])
        if "unsupported:" in mo:
            out.count("sessions.skipped.unsupported")
            continue
        out.count("sessions.compared")
        if mo != canon and id(sessions[i]) not in sbad:
            a, b = canon.split(" ## "), mo.split(" ## ")
            j = next((k for k in range(min(len(a), len(b))) if a[k] != b[k]), min(len(a), len(b)))
            out.disagreements.append({"op": "c13.session", "session": sessions[i], "call": j,
                                      "impl": TCF.canon_readable(a[j] if j < len(a) else "<end>")[:1200],
                                      "model": TCF.canon_readable(b[j] if j < len(b) else "<end>")[:1200]})
    tail(out, ctx, rng)
    return out


def tie(out, ctx, specs, res, inputs):
    """correspondence + oracle results of generated projects (stand-alone ones and the steps of parser sessions)"""
    lines, owners = [], []
    mlines, mowners = [], []
    for i, r in enumerate(res):
        if "r" not in r:
            out.violations.append({"what": "harness adapter raised %s: %s %s" % (r.get("exc"), r.get("msg"), r.get("where")),
                                   "input": inputs[i], "finding": None})
            continue
        for j, l in enumerate(r["r"]["lines"]):
            lines.append(l)
            owners.append((i, j))
        for j, l in enumerate(r["r"]["mlines"]):
            if l is None:
                out.count("composed.skipped.unwritable-matcher")
            else:
                mlines.append(l)
                mowners.append((i, j))
    model = C.run_driver_parallel(lines) if ctx.model_ok else [None] * len(lines)
    # second stream: the composed model ProjectFilesM (matchers as pattern texts, relation computed by the Matcher model)
    mmodel = C.run_driver_parallel(mlines) if ctx.model_ok else [None] * len(mlines)
    mbad = {}
    for (i, j), mo in zip(mowners, mmodel):
        if mo is None:
            continue
        canon = res[i]["r"]["impl"][j]
        if mo.startswith("unsupported:"):
            out.count("composed.skipped." + mo.split(":", 1)[1].split("-")[0])
            continue
        out.evaluations += 1
        out.count("composed.compared")
        if mo != canon:
            mbad.setdefault(i, []).append({"locale": res[i]["r"]["locales"][j], "impl": canon[:1500], "model": mo[:1500]})
    per_case_bad = {}
    for (i, j), mo in zip(owners, model):
        r = res[i]["r"]
        canon = r["impl"][j]
        loc = r["locales"][j]
        out.evaluations += 1
        body = canon.split("|")
        if canon.startswith("ok|") and body[1]:
            out.nontrivial.add(hashlib.sha1((str(loc is None) + canon).encode()).hexdigest()[:16])
        out.count("mode.%s" % ("validation" if loc is None else "locale"))
        if canon.startswith("err:"):
            out.count(canon)
        if mo is not None and mo != canon:
            per_case_bad.setdefault(i, []).append({"locale": loc, "impl": canon[:1500], "model": mo[:1500]})
    for i, r in enumerate(res):
        if "r" not in r:
            continue
        rr = r["r"]
        for k, v in rr["stats"].items():
            out.count("sum." + k, v)
        if specs[i].get("mismatch"):
            out.count("projects.mismatching-duplicates(oracle skipped)")
        if rr["violations"]:
            # one violation entry per (project, finding)
            byf = {}
            for v in rr["violations"]:
                byf.setdefault(v["finding"], []).append(v)
            for fid, vs in byf.items():
                out.violations.append({"what": vs[0]["what"], "more": [v["what"] for v in vs[1:4]], "count": len(vs),
                                       "locale": vs[0].get("locale"), "finding": fid, "input": inputs[i]})
                out.count("oracle.%s" % (fid or "unclassified"))
        elif i in per_case_bad:
            out.disagreements.append({"op": "pf.run", "spec": specs[i], "diff": per_case_bad[i][:2]})
        elif i in mbad:
            out.disagreements.append({"op": "pfm.run", "spec": specs[i], "diff": mbad[i][:2]})
        if len(out.samples) < 6 and rr["stats"].get("items", 0) > 6 and not rr["violations"]:
            out.samples.append({"spec": {k: specs[i][k] for k in ("projects", "files", "parser_env", "mergebase")},
                                "configs": {c: PFI.toml_of(specs[i], c) for c in specs[i]["configs"]},
                                "result_first_locale": readable(rr["impl"][0])[:900]})
    # ---- third stream: TOMLParser on the toml.load dictionaries (`c13.toml.parse`), fourth: parsing composed with enumeration
    plines, powners = [], []
    rlines, rowners = [], []
    for i, r in enumerate(res):
        if "r" not in r:
            continue
        for j, l in enumerate(r["r"]["plines"]):
            plines.append(l)
            powners.append((i, j))
        for j, l in enumerate(r["r"]["rlines"]):
            rlines.append(l)
            rowners.append((i, j))
    pmodel = C.run_driver_parallel(plines) if ctx.model_ok else [None] * len(plines)
    seen_bad = set(i for i, r in enumerate(res) if "r" in r and r["r"]["violations"])
    for (i, j), mo in zip(powners, pmodel):
        rr = res[i]["r"]
        canon = rr["pimpl"][j].replace(rr["root"], "@R@")
        out.evaluations += 1
        out.count("toml.parse." + ("raised" if canon.startswith("err:") else "ok"))
        if canon.startswith("err:"):
            out.count("toml." + canon.split(" ")[0])
        out.nontrivial.add(hashlib.sha1(("P" + canon).encode()).hexdigest()[:16])
        if mo is None:
            continue
        mo = mo.replace(rr["root"], "@R@")
        if mo.startswith("unsupported:"):
            out.count("toml.skipped." + mo.split(":", 1)[1])
            continue
        if mo != canon and i not in seen_bad:
            seen_bad.add(i)
            out.disagreements.append({"op": "c13.toml.parse", "spec": specs[i], "impl": TCF.canon_readable(canon)[:1500],
                                      "model": TCF.canon_readable(mo)[:1500]})
    rmodel = C.run_driver_parallel(rlines) if ctx.model_ok else [None] * len(rlines)
    for (i, j), mo in zip(rowners, rmodel):
        if mo is None:
            continue
        canon = res[i]["r"]["impl"][j]
        if mo.startswith("unsupported:"):
            out.count("toml.run.skipped." + mo.split(":", 1)[1].split("-")[0])
            continue
        out.evaluations += 1
        out.count("toml.run.compared")
        if mo != canon and i not in seen_bad:
            seen_bad.add(i)
            out.disagreements.append({"op": "c13.toml.run", "spec": specs[i], "locale": res[i]["r"]["locales"][j],
                                      "impl": readable(canon)[:1500], "model": readable(mo)[:1500] if mo.startswith("ok|") else mo[:300]})


def tail(out, ctx, rng):
    """the streams that do not come from generated projects"""
    # ---- directed and fault-injected configuration texts: exceptions, path resolution, inheritance, filters, same()
    raws = TCF.directed_cases() + fault_cases(ctx.rng("c13.faults"), ctx.n(250, 4000))
    out.count("toml.directed", len(TCF.directed_cases()))
    out.count("toml.fault-injected", len(raws) - len(TCF.directed_cases()))
    rres = pool.pmap("impl.tomlcfg", "run_raw", [[c] for c in raws], timeout=30.0, batch=8)
    okr = [(c, r["r"]) for c, r in zip(raws, rres) if "r" in r]
    for c, r in zip(raws, rres):
        if "r" not in r:
            out.violations.append({"what": "harness adapter raised %s: %s %s" % (r.get("exc"), r.get("msg"), r.get("where")),
                                   "input": {"raw": c}, "finding": None})
    dmodel = C.run_driver_parallel([r["line"] for _, r in okr]) if ctx.model_ok else [None] * len(okr)
    same_cases = [(c, r) for c, r in okr if "same_line" in r]
    smodel = C.run_driver_parallel([r["same_line"] for _, r in same_cases]) if ctx.model_ok else [None] * len(same_cases)
    for (c, r), mo in zip(okr, dmodel):
        out.evaluations += 1
        canon = r["impl"]
        out.count("toml.raw." + (canon.split(" ")[0] if canon.startswith("err:") else "ok"))
        out.nontrivial.add(hashlib.sha1(("R" + canon).encode()).hexdigest()[:16])
        if r["violations"]:
            out.violations.append({"what": r["violations"][0], "more": r["violations"][1:4], "count": len(r["violations"]),
                                   "finding": None, "input": {"raw": c}})
            out.count("oracle.unclassified")
            continue
        if mo is None:
            continue
        mo = mo.replace(r["root"], "@R@")
        if mo.startswith("unsupported:"):
            out.count("toml.skipped." + mo.split(":", 1)[1])
            continue
        if mo != canon:
            out.disagreements.append({"op": "c13.toml.parse", "raw": c, "impl": TCF.canon_readable(canon)[:1500], "model": TCF.canon_readable(mo)[:1500]})
    for (c, r), mo in zip(same_cases, smodel):
        out.evaluations += 1
        out.count("toml.same." + r["same_impl"])
        if mo is not None and mo.replace(r["root"], "@R@") != r["same_impl"] and not r["violations"]:
            out.disagreements.append({"op": "c13.toml.same", "raw": c, "impl": r["same_impl"], "model": mo})
    # ---- the legacy l10n.ini route: EnumerateApp(...).asConfig() and the enumeration of that config
    icases = INI.directed_ini() + [INI.gen_ini(ctx.rng("c13.ini")) for _ in range(ctx.n(120, 2500))]
    out.count("ini.cases", len(icases))
    ires = pool.pmap("impl.inicfg", "run_ini", [[c] for c in icases], timeout=30.0, batch=8)
    iok = [(c, r["r"]) for c, r in zip(icases, ires) if "r" in r]
    for c, r in zip(icases, ires):
        if "r" not in r:
            out.violations.append({"what": "harness adapter raised %s: %s %s" % (r.get("exc"), r.get("msg"), r.get("where")),
                                   "input": {"ini": c}, "finding": None})
    imodel = C.run_driver_parallel([r["line"] for _, r in iok]) if ctx.model_ok else [None] * len(iok)
    irl = [(c, r, j) for c, r in iok for j in range(len(r["rlines"]))]
    irmodel = C.run_driver_parallel([r["rlines"][j] for _, r, j in irl]) if ctx.model_ok else [None] * len(irl)
    ibad = set()
    for k, ((c, r), mo) in enumerate(zip(iok, imodel)):
        out.evaluations += 1
        canon = r["impl"]
        out.count("ini.config." + (canon.split(" ")[0] if canon.startswith("err:") else "ok"))
        out.nontrivial.add(hashlib.sha1(("I" + canon).encode()).hexdigest()[:16])
        if r["violations"]:
            ibad.add(id(r))
            out.violations.append({"what": r["violations"][0], "more": r["violations"][1:4], "count": len(r["violations"]),
                                   "finding": None, "input": {"ini": c}})
            out.count("oracle.unclassified")
            continue
        if mo is not None and mo.replace(r["root"], "@R@") != canon:
            ibad.add(id(r))
            out.disagreements.append({"op": "c13.ini.config", "ini": c, "impl": TCF.canon_readable(canon)[:1500],
                                      "model": TCF.canon_readable(mo.replace(r["root"], "@R@"))[:1500]})
    for (c, r, j), mo in zip(irl, irmodel):
        out.evaluations += 1
        out.count("ini.run.compared")
        if mo is not None and mo != r["rimpl"][j] and id(r) not in ibad:
            ibad.add(id(r))
            out.disagreements.append({"op": "c13.ini.run", "ini": c, "locale": r["locales"][j], "impl": readable(r["rimpl"][j])[:1200],
                                      "model": readable(mo)[:1200] if mo.startswith("ok|") else mo[:300]})
    # ---- application sessions: one EnumerateApp object, asConfig() again after all-locales / filter.py / the tree changed;
    #      new application objects in the same process after the l10n.ini files were rewritten
    isess = [INI.gen_ini_session(ctx.rng("c13.ini.sessions", str(k))) for k in range(ctx.n(60, 1200))]
    out.count("ini.sessions", len(isess))
    isres = pool.pmap("impl.inicfg", "run_ini_session", [[x] for x in isess], timeout=60.0, batch=4)
    sl, so = [], []
    rl, ro = [], []
    for i, r in enumerate(isres):
        if "r" not in r:
            out.violations.append({"what": "harness adapter raised %s: %s %s" % (r.get("exc"), r.get("msg"), r.get("where")),
                                   "input": {"ini_session": isess[i]}, "finding": None})
            continue
        vs = [v for st in r["r"]["steps"] for v in st["violations"]]
        out.count("ini.sessions.steps", len(r["r"]["steps"]))
        out.count("ini.sessions.reused", sum(1 for x in isess[i]["reuse"] if x))
        if vs:
            out.violations.append({"what": vs[0], "more": vs[1:4], "count": len(vs), "finding": None, "input": {"ini_session": isess[i]}})
            out.count("oracle.unclassified")
            continue
        for j, l in enumerate(r["r"]["slines"]):
            sl.append(l)
            so.append((i, j))
        for k, st in enumerate(r["r"]["steps"]):
            for j, l in enumerate(st["rlines"]):
                rl.append(l)
                ro.append((i, k, j))
    sm = C.run_driver_parallel(sl) if ctx.model_ok else [None] * len(sl)
    ibad2 = set()
    for (i, j), mo in zip(so, sm):
        rr = isres[i]["r"]
        out.evaluations += 1
        out.count("ini.sessions.compared")
        out.nontrivial.add(hashlib.sha1(("J" + rr["simpl"][j]).encode()).hexdigest()[:16])
        if mo is not None and mo.replace(rr["root"], "@R@") != rr["simpl"][j] and i not in ibad2:
            ibad2.add(i)
            a, b = rr["simpl"][j].split(" ## "), mo.replace(rr["root"], "@R@").split(" ## ")
            k = next((x for x in range(min(len(a), len(b))) if a[x] != b[x]), min(len(a), len(b)))
            out.disagreements.append({"op": "c13.ini.session", "ini_session": isess[i], "call": k,
                                      "impl": TCF.canon_readable(a[k] if k < len(a) else "<end>")[:1200],
                                      "model": TCF.canon_readable(b[k] if k < len(b) else "<end>")[:1200]})
    rm = C.run_driver_parallel(rl) if ctx.model_ok else [None] * len(rl)
    for (i, k, j), mo in zip(ro, rm):
        st = isres[i]["r"]["steps"][k]
        out.evaluations += 1
        out.count("ini.sessions.run.compared")
        if mo is not None and mo != st["rimpl"][j] and i not in ibad2:
            ibad2.add(i)
            out.disagreements.append({"op": "c13.ini.run", "ini_session": isess[i], "step": k, "locale": st["locales"][j],
                                      "impl": readable(st["rimpl"][j])[:1200], "model": readable(mo)[:1200] if mo.startswith("ok|") else mo[:300]})
    # replays keep the first 20 violations: lead with one case of every root cause
    lead, rest, seen = [], [], set()
    for v in out.violations:
        (rest if v["finding"] in seen else lead).append(v)
        seen.add(v["finding"])
    out.violations = lead + rest
    # probes at the excluded points of the C13M theorems (negation witnesses): real code vs composed model, and what the code does
    pnames = sorted(PFI.PROBES)
    pres = pool.pmap("impl.projfiles", "run_probe", [[n] for n in pnames], timeout=20.0)
    pl = [(n, r["r"]) for n, r in zip(pnames, pres) if "r" in r and r["r"]["mline"] is not None]
    for n, r in zip(pnames, pres):
        if "r" not in r:
            out.violations.append({"what": "probe %s: adapter raised %s: %s" % (n, r.get("exc"), r.get("msg")), "input": {"probe": n}, "finding": None})
    pmodel = C.run_driver_parallel([r["mline"] for _, r in pl]) if ctx.model_ok else [None] * len(pl)
    for (n, r), mo in zip(pl, pmodel):
        out.evaluations += 1
        if mo is not None and mo != r["impl"]:
            out.disagreements.append({"op": "pfm.run", "probe": n, "impl": r["impl"][:800], "model": mo[:800]})
        if n == "sub-class":
            shown = "/l/a/b.ftl" in r["paths"] and r["looks"].get("/l/a/b.ftl") is None
        else:
            shown = r["paths"] == [] and r["looks"].get("/l/xy") is not None
        out.count("probe.%s.%s" % (n, "code-behaves-like-the-witness" if shown else "code-differs-from-the-witness"))
    # env override: model of processEnv vs dict semantics (the real TOMLParser is checked inside run_case)
    ecases = []
    for _ in range(ctx.n(300, 3000)):
        f = [(rng.randrange(4), rng.randrange(5)) for _ in range(rng.randrange(5))]
        p = [(rng.randrange(4), rng.randrange(5)) for _ in range(rng.randrange(4))]
        ecases.append((f, p))
    elines = ["pf.env t:%s t:%s" % (",".join("%d,%d" % kv for kv in f), ",".join("%d,%d" % kv for kv in p)) for f, p in ecases]
    emodel = C.run_driver_parallel(elines) if ctx.model_ok else [None] * len(elines)
    for (f, p), mo in zip(ecases, emodel):
        d = {}
        d.update(dict(f))       # add_environment(**file env); later duplicates of a key win, like TOML -> dict -> update
        d.update(dict(p))
        canon = "t:" + ",".join("%d,%d" % kv for kv in d.items())
        out.evaluations += 1
        if mo is not None and mo != canon:
            out.disagreements.append({"op": "pf.env", "file": f, "parser": p, "impl": canon, "model": mo})
    return out


def replay(payload):
    res = []
    for v in payload.get("violations", []):
        ini = v.get("input", {}).get("ini")
        if ini:
            r = pool.pmap("impl.inicfg", "run_ini", [[ini]], timeout=30.0)[0]
            vs = [{"what": w} for w in r.get("r", {}).get("violations", ["adapter failed: %r" % r])]
            res.append({"violations": vs[:6], "inis": ini["inis"], "files": ini["files"]})
            continue
        isess = v.get("input", {}).get("ini_session")
        if isess:
            r = pool.pmap("impl.inicfg", "run_ini_session", [[isess]], timeout=120.0)[0]
            steps = r.get("r", {}).get("steps")
            vs = [{"what": w} for st in steps for w in st["violations"]] if steps is not None else [{"what": "adapter failed: %r" % r}]
            res.append({"violations": vs[:6], "reuse": isess["reuse"],
                        "steps": [{"edit": c.get("edit"), "inis": c["inis"], "filters": c.get("filters"), "locales_files": c.get("locales_files"),
                                   "files": c["files"], "order": c.get("order")} for c in isess["steps"]]})
            continue
        sess = v.get("input", {}).get("session")
        if sess:
            r = pool.pmap("impl.projfiles", "run_session", [[sess]], timeout=120.0)[0]
            steps = r.get("r", {}).get("steps")
            vs = [x for st in steps for x in st["violations"]] if steps is not None else [{"what": "adapter failed: %r" % r}]
            res.append({"violations": vs[:6], "share_env": sess.get("share_env"),
                        "steps": [{"edits": st.get("edits"), "projects": st["projects"], "parser_env": st["parser_env"], "ignore": st.get("ignore"),
                                   "order": st.get("order"), "deep_after": st.get("deep_after"), "files": st["files"],
                                   "configs": {c: (None if st["configs"][c].get("missing") == "absent" else PFI.toml_of(st, c)) for c in st["configs"]}}
                                  for st in sess["steps"]]})
            continue
        raw = v.get("input", {}).get("raw")
        if raw:
            r = pool.pmap("impl.tomlcfg", "run_raw", [[raw]], timeout=30.0)[0]
            vs = [{"what": w} for w in r.get("r", {}).get("violations", ["adapter failed: %r" % r])]
            res.append({"violations": vs[:6], "files": raw["files"]})
            continue
        spec = v.get("input", {}).get("spec")
        if not spec:
            continue
        r = pool.pmap("impl.projfiles", "run_case", [[spec]], timeout=30.0)[0]
        vs = r.get("r", {}).get("violations", [{"what": "adapter failed: %r" % r}])
        res.append({"violations": vs[:6], "configs": {c: PFI.toml_of(spec, c) for c in spec["configs"]}, "files": spec["files"]})
    return {"violates": any(r["violations"] for r in res), "cases": res}

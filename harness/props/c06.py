"""C06 — properties: printf and plural verdicts match the argument model."""
import itertools

from lib import common as C
from lib import pool
from lib.runner import Outcome

ID = "C06"
LEAN_TARGETS = ["CLModel.Props.C06"]
M = "CLModel.Props.C06"
THEOREMS = [
    (M, "C06.difflib_valid", "port of SequenceMatcher.get_opcodes: never raises, returns a valid edit script (any lengths, autojunk included)"),
    (M, "C06.difflib_prefix", "b proper prefix of a => opcodes = [equal 0..|b|] + [delete |b|..|a|], without any length bound"),
    (M, "C06.specs_of_tokens", "every value has a well-formed token list (lone % | %% | argument) and getPrintfSpecs = closed form on it"),
    (M, "C06.specs_error_iff", "getPrintfSpecs raises exactly for lone %, mixed styles, gap in ordered arguments; nothing but PrintfException"),
    (M, "C06.specs_ignore_pct", "%% (and text) never changes the specifier list"),
    (M, "C06.specs_reorder", "reordering ordered arguments never changes the specifier list"),
    (M, "C06.specs_of_rendered_partial", "values assembled from the token alphabet (bounded family) lex back to exactly their tokens (kernel evaluation; cross-check of the general proof)"),
    (M, "C06.atoks_render", "ANY list of well-formed, separated render tokens (text without %, %%, lone %, %[n$][width][.prec]c) lexes back to exactly those tokens with their offsets (exact priority-respecting evaluation of finditer(printf))"),
    (M, "C06.specs_of_rendered", "getPrintfSpecs of a value assembled from tokens = closed form on the intended tokens, any number of tokens"),
    (M, "C06.specs_rendered_error_iff", "assembled value: getPrintfSpecs raises <=> the tokens contain a lone %, or both styles, or ordered numbers with a gap; only PrintfException"),
    (M, "C06.specs_rendered_unordered", "assembled value with unordered arguments only: the list of their types in order"),
    (M, "C06.specs_rendered_ordered", "assembled value with ordered arguments without gap: position i = type of the last token numbered i+1"),
    (M, "C06.specs_rendered_reorder", "any permutation of a token list of text, %% and consistent ordered arguments has the same getPrintfSpecs result"),
    (M, "C06.specs_rendered_reorder_text", "the same when also the text between the arguments changes"),
    (M, "C06.specs_rendered_ignore_text_pct", "assembled values with the same sequence of lone-% / argument tokens have the same specifier list or the same kind of error (text and %% irrelevant)"),
    (M, "C06.printf_rendered_error_iff", "checkPrintf on an assembled localized value: error <=> lone % / mixed / gap in the tokens, or their positional types are not a prefix of the reference's"),
    (M, "C06.printf_error_iff", "checkPrintf never raises; error <=> localized value malformed or its specifier list is not a prefix of the reference's"),
    (M, "C06.printf_trailing_warn", "only trailing arguments dropped => exactly one warning naming them"),
    (M, "C06.printf_equal_silent", "equal specifier lists => nothing reported"),
    (M, "C06.printf_malformed_error", "malformed localized value => one error at the offending offset"),
    (M, "C06.check_printf", "check() on a non-plural string whose reference has arguments = encoding warnings + escape warnings + checkPrintf verdict; error iff malformed or non-prefix"),
    (M, "C06.check_no_reference_args", "reference without well-formed arguments => no printf finding"),
    (M, "C06.plural_table_total", "every locale of CATEGORIES_BY_LOCALE has a non-empty category list"),
    (M, "C06.plural_lookup_total", "get_plural never raises for any locale tag"),
    (M, "C06.plural_gate", "plural branch <=> comment contains Localization_and_Plurals, key != pluralRule, value not a number"),
    (M, "C06.plural_verdict", "plural strings: check() never raises; result = encoding warnings + forms verdict + variable verdict"),
    (M, "C06.plural_vars_verdict", "variable verdict: unused reference variable -> warning, otherwise extra variable -> error"),
    (M, "C06.plural_vars_sets", "the variable verdict depends on the two sets of #n variables only"),
    (M, "C06.plural_vars_rendered", "a plural value assembled from text (without #) and #n tokens (not followed by a digit) has exactly the variables n, any number of tokens"),
    (M, "C06.plural_rendered_verdict", "check() on assembled plural values: variable verdict = varsVerdict of the #n tokens of reference and localized value"),
    # ---- round 4
    (M, "C06.atoks_iff_lex", "for EVERY value: printf.finditer(v) finds the tokens ts <=> the independent inductive grammar of printf text (non-% characters, `%%`, `%[n$][width][.prec]c`, lone % only where no token starts) tokenises v as ts — soundness and completeness of the lexer"),
    (M, "C06.lex_exists_unique", "every value has exactly one tokenisation by the grammar"),
    (M, "C06.specs_of_lex", "getPrintfSpecs v = closed form on the grammar's tokens of v, for every value (specs_of_rendered without the WfRender hypothesis)"),
    (M, "C06.specs_error_iff_lex", "getPrintfSpecs raises <=> the value's tokenisation has a lone %, mixes the styles or leaves a gap; only PrintfException"),
    (M, "C06.rendered_lex", "the assembled values of round 3 are an instance: a WfRender token list is a tokenisation by the grammar"),
    (M, "C06.specs_lex_ignore_text_pct", "all values: the same sequence of lone-% / argument tokens (text and %% dropped) gives the same specifier list or the same kind of error"),
    (M, "C06.specs_lex_reorder", "all values: permuting %% and consistent ordered arguments (any text in between) does not change getPrintfSpecs"),
    (M, "C06.unescape_total", "PropertiesEntity.val as the checker reads it never raises and is the documented unescaping of the raw value (C02 specification)"),
    (M, "C06.check_printf_raw", "check_printf stated from the RAW values of the two entities (no unescape hypothesis)"),
    (M, "C06.check_no_reference_args_raw", "raw reference without well-formed arguments => encoding + escape warnings only"),
    (M, "C06.plural_verdict_raw", "plural_verdict stated from the raw values"),
    (M, "C06.check_trichotomy", "check() never raises and is exactly one of: plural verdict / encoding+escape warnings only / encoding+escape warnings + checkPrintf verdict, decided by the raw reference"),
    (M, "C06.check_never_raises", "PropertiesChecker.check never raises, for any pair of entities and any locale"),
    (M, "C06.check_verdict_iff", "ONE decision theorem for specifier lists of any lengths: severities = [error]? + [warning]? as a function of the difflib opcodes (error <=> replace/insert/non-trailing delete, warning <=> delete ending at len(refSpecs)), all at offset 0; closed forms: error <=> L not a prefix of R, equal -> nothing, L proper prefix of R -> exactly one warning, R proper prefix of L -> exactly one `obsolete` error"),
    (M, "C06.printf_verdict_value", "checkPrintf(R, value) = the malformed-value error at its offset, or the verdict of the two specifier lists"),
    (M, "C06.verdict_extension_is_error", "a localization whose arguments extend the reference's is an error without warning (excludes the zip-based fast path)"),
    (M, "C06.verdict_trailing_is_warning", "dropping only trailing reference arguments is a warning and no error"),
    (M, "C06.verdict_reorder_silent", "all values: a localized value whose tokens are a permutation of the reference's (%% and consistent ordered arguments) is silent"),
    (M, "C06.verdict_all_retyped", "reference and localization without a common specifier (any lengths): opcodes = one replace; exactly one error with one `should be` message per position of the shorter list, no warning"),
    (M, "C06.plural_gate_closed", "plural branch <=> comment contains Localization_and_Plurals, key != pluralRule, and the value is NOT (one or more Unicode decimal digits + optional single final newline): re.match(r'\\d+$') evaluated exactly for every value"),
    (M, "C06.check_verdict_raw", "check() on the printf branch from raw values = encoding + escape warnings + verdict of the two specifier lists; error <=> L not a prefix of R"),
    (M, "C06.plural_rule_lookup", "get_plural_rule = the generic lookup (own key, else language subtag) on the regenerated table"),
    (M, "C06.plural_table_wf", "the shipped plural tables are well formed: distinct keys, indices in range, every rule has a category (kernel evaluation of the regenerated data)"),
    (M, "C06.plural_rule_iff", "for EVERY locale string: rule i <=> the tag is a key with value i, or it is no key and its language subtag is a key with value i"),
    (M, "C06.plural_rule_iff_generic", "the same prefix lookup law over any table with distinct keys"),
    (M, "C06.plural_rule_region", "any table: lang-REST that is not a key has the rule of lang"),
    (M, "C06.plural_hyphen_keys", "keys containing `-` decide for the identical tag only (any table); the shipped table has exactly zh-CN and zh-TW"),
    (M, "C06.plural_lookup_wf", "over any well-formed table get_plural never raises, is None exactly without a rule, and a rule has >= 1 form"),
    (M, "C06.plural_vars_exact", "for EVERY text both re.finditer('#([0-9]+)') calls of check_plural find exactly the variables of the grammar LexP (longest digit run after #)"),
    (M, "C06.plural_vars_exist_unique", "every text has exactly one variable list"),
    (M, "C06.plural_vars_per_form", "the variables of ';'.join(forms) are the concatenation of the forms' variables"),
    (M, "C06.plural_verdict_fn", "plural string, from raw values: check() = encoding warnings + forms verdict as a function of (form count of the locale's rule, number of ;) + variable verdict of the two #n variable lists"),
    (M, "C06.printf_pos_in_value", "every plain offset reported by PropertiesChecker.check is <= len(raw localized value); every EntityPos < len(all) — the hypothesis of C17.check_pos_in_range_value for this checker"),
    (M, "C06.printf_pos_points_at_pct", "every checkPrintf finding is at offset 0 or at an offset n < len(value) with value[n] = '%'"),
    (M, "C06.printf_exception_pos", "PrintfException offset: a % of the value for lone % / mixed, 0 for the gap"),
    (M, "C06.escape_and_encoding_pos", "escape warnings point at a backslash of the raw value, encoding warnings at a U+FFFD of all"),
    (M, "C06.session_history_independent", "one checker instance over a sequence of pairs = check of each pair alone (concatenation, reversal)"),
]
PARTIAL = [
    "the WARNING side of check_verdict_iff is exact in terms of the ported difflib opcodes (a delete ending at len(refSpecs)) and in "
    "closed form for the cases the property names (equal, L proper prefix of R, R proper prefix of L); for two lists neither of which is "
    "a prefix of the other the presence of an accompanying trailing-delete warning depends on difflib's longest-match heuristic and has "
    "no closed form here (the error is certain: check_verdict_iff, `hasError fs <-> not L <+: R`)",
    "the round-3 theorems atoks_render / specs_of_rendered (WfRender) and plural_vars_rendered (WfRenderP) are kept; they are now "
    "instances of the hypothesis-free atoks_iff_lex / plural_vars_exact (rendered_lex)",
    "session_history_independent is a statement about the model (check is a function); that the real PropertiesChecker has no "
    "per-instance state that influences check is established by the session stream of the harness, not by proof",
]
TRUSTED = [
    "round 4 ops c06.toks / c06.rule / c06.pvars / c06.verdict tie the objects of the new theorems (token list, rule lookup, variable "
    "lists, verdict on specifier lists) to the real code; an independent, priority-free enumerator of the token grammar is compared "
    "with the real regex on every generated value",
    "hand-written models CLModel/Checks/Properties.lean (PropertiesChecker.check/check_plural/checkPrintf/getPrintfSpecs, "
    "Checker.check, plurals.get_plural, PropertiesEntity.val) and CLModel/Checks/Difflib.lean (port of CPython difflib "
    "SequenceMatcher.get_opcodes), tied by the `pcheck`/`pspecs`/`popcodes`/`pplural`/`punescape` correspondence",
    "regexes (printf, escape, #n, \\d+$) and the plural tables are regenerated from /repo on every run",
]
ASSUMPTIONS = ["values are what the real PropertiesParser produces for `key=value` lines (entities built by the real parser)"]
LEVEL_TEXT = ("(round 4: the lexer of getPrintfSpecs is EXACTLY an independent inductive grammar of printf text for every value; all "
              "theorems are stated from the RAW values; one decision theorem check_verdict_iff gives the verdict matrix in terms of the "
              "ported difflib opcodes and in closed form; locale -> rule lookup law for every locale string over any well-formed table; "
              "#n variables of every text; offsets of the findings) "
              "Lean 4 theorems over an executable transliteration of PropertiesChecker.check: for ALL reference specifier lists and ALL "
              "localized values the printf verdict is an error iff the localized value is malformed (lone %, mixed, gap) or its positional "
              "argument types are not a prefix of the reference's, a dropped tail is exactly one warning, equality is silent, %% and "
              "reordering of ordered arguments do not change the argument list; the difflib opcode computation is a verified port "
              "(valid edit script, exact result for prefixes, no length bound); plural verdict = function of the variable sets and the form "
              "count, all locales of the table have categories. Model tied to the Python by exhaustive token-pair + random differential "
              "runs; an independent positional-argument scanner checks the property on the implementation")
LEVEL_NOTE = ("trusted: Lean kernel; hand-written models of check/checkPrintf/getPrintfSpecs/check_plural/get_plural and of difflib "
              "(validated by correspondence incl. sequences of 190-330 elements); regex engine = CPython re on the audited subset; "
              "entity values are taken from the real parser; the proofs use a relational over-approximation of the regex matcher "
              "(proved sound) to read off the capture groups")
TECHNIQUE = "Lean 4 proof over executable model (incl. a verified port of difflib's opcode computation) + differential correspondence"

# ------------------------------------------------------------------ alphabets
REF_ALPHA = ["a", "%S", "%d", "%1$S", "%2$d", "%3$S", "%1$d", "%%", "%"]
L10N_ALPHA = ["a ", "%S", "%d", "%1$S", "%2$d", "%3$S", "%1$d", "%%", "%", "%5.2f", "%.3x", "5"]
REF_ALPHA_T = ["%S", "%d", "%1$S", "%2$d", "%3$S", "%%", "x"]
L10N_ALPHA_T = ["%S", "%d", "%1$S", "%2$d", "%3$S", "%2$S", "%%", "%", "y"]
BIG_ALPHA = ["a", " b ", "é", "%S", "%d", "%s", "%x", "%1$S", "%2$d", "%3$S", "%1$d", "%2$S", "%4$S", "%10$S", "%%", "%",
             "%5.2f", "%.3x", "%*d", "%.*f", "%1$*d", "%1$5.2f", "%2$.3x", "%05d", "%-5d", "%1$", "%$", "%0", "%.", "%1$$",
             "5", "$", "$S", "S", "d", ".", "*", "1$S", "#1", "#2", ";", "\\u0025", "\\u0025S", "\\%", "\\q", "\\n", "\\\\",
             "�", "%٣$S", "٣", "%%%", "%%S", "% S"]
PLURAL_ALPHA = ["#1", "#2", "#3", ";", "a", " ", "#", "1", "#01", "%S", "#1#2"]
TYPES = "duxXosScpfg"
SAFE_TEXT = ["a", " b ", "é", " ", "!", "hello", ",", "-", "(", "\\n", "\\q"]
ODD_LOCALES = [None, "", "xx", "en-GB", "en-US-x", "zh", "zh-CN", "zh-TW", "zh-HK", "-", "en-", "-en", "EN", "pt-BR", "sr-Latn", "x" * 3]


def values(alpha, n):
    return ["".join(t) for k in range(n + 1) for t in itertools.product(alpha, repeat=k)]


# ------------------------------------------------------------------ structured tokens with expectation by construction
def render(tok):
    if tok[0] == "text":
        return tok[1]
    if tok[0] == "pct":
        return "%%"
    if tok[0] == "lone":
        return "%" + tok[1]            # followed by a character that cannot continue a spec
    _, num, ty, width, prec = tok
    return "%" + ("%d$" % num if num is not None else "") + width + prec + ty


def args_of(tokens):
    """positional argument types by construction: ('bad', why) | ('ok', list)"""
    args = [t for t in tokens if t[0] == "arg"]
    if any(t[0] == "lone" for t in tokens):
        # the first malformed thing wins in the code, the class is the same
        return ("bad", "lone")
    if not args:
        return ("ok", [])
    o = [t[1] is not None for t in args]
    if any(o) and not all(o):
        return ("bad", "mixed")
    if not o[0]:
        return ("ok", [t[2] for t in args])
    out = [None] * max(t[1] for t in args)
    for t in args:
        out[t[1] - 1] = t[2]
    if any(x is None for x in out):
        return ("bad", "gap")
    return ("ok", out)


def klass(R, L):
    if L[0] == "bad":
        return "error"
    if L[1] == R[1]:
        return "nothing"
    if len(L[1]) < len(R[1]) and R[1][:len(L[1])] == L[1]:
        return "warning"
    return "error"


def rand_fmt(rng):
    width = rng.choice(["", "", "", "5", "10", "*", "0"])
    prec = rng.choice(["", "", "", ".2", ".", ".*", ".10"])
    return width, prec


def decorate(rng, args):
    """interleave argument tokens with text and %%"""
    out = []
    for t in args:
        r = rng.random()
        if r < 0.4:
            out.append(("text", rng.choice(SAFE_TEXT)))
        elif r < 0.55:
            out.append(("pct",))
        out.append(t)
    if rng.random() < 0.5:
        out.append(("text", rng.choice(SAFE_TEXT)))
    return out


def gen_derived(rng):
    """a reference with arguments and a localized variant whose verdict class is known by construction"""
    k = rng.randrange(1, 6)
    types = [rng.choice(TYPES) for _ in range(k)]
    ordered = rng.random() < 0.6
    if ordered:
        rargs = [("arg", i + 1, types[i]) + rand_fmt(rng) for i in range(k)]
        # a repeated numbered argument (same type) is fine
        if rng.random() < 0.3:
            i = rng.randrange(k)
            rargs.append(("arg", i + 1, types[i]) + rand_fmt(rng))
        rng.shuffle(rargs)
    else:
        rargs = [("arg", None, types[i]) + rand_fmt(rng) for i in range(k)]
    rtoks = decorate(rng, rargs)
    mode = rng.choice(["same", "reorder", "drop-trailing", "type", "extra", "drop-middle", "mixed", "lone", "style"])
    ltypes = list(types)
    largs = None
    if mode == "same" or (mode == "reorder" and not ordered):
        largs = [("arg", t[1], t[2]) + rand_fmt(rng) for t in rargs]
    elif mode == "reorder":
        largs = [("arg", t[1], t[2]) + rand_fmt(rng) for t in rargs]
        rng.shuffle(largs)
    elif mode == "drop-trailing":
        m = rng.randrange(0, k)
        largs = [("arg", (i + 1) if ordered else None, types[i]) + rand_fmt(rng) for i in range(m)]
        if ordered:
            rng.shuffle(largs)
    elif mode == "type":
        i = rng.randrange(k)
        ltypes[i] = rng.choice([t for t in TYPES if t != types[i]])
        largs = [("arg", (j + 1) if ordered else None, ltypes[j]) + rand_fmt(rng) for j in range(k)]
        if ordered:
            rng.shuffle(largs)
    elif mode == "extra":
        ltypes.append(rng.choice(TYPES))
        largs = [("arg", (j + 1) if ordered else None, ltypes[j]) + rand_fmt(rng) for j in range(k + 1)]
        if ordered:
            rng.shuffle(largs)
    elif mode == "drop-middle":
        i = rng.randrange(k)
        largs = [("arg", (j + 1) if ordered else None, types[j]) + rand_fmt(rng) for j in range(k) if j != i]
        if ordered:
            rng.shuffle(largs)
    elif mode == "mixed":
        largs = [("arg", (j + 1) if ordered else None, types[j]) + rand_fmt(rng) for j in range(k)]
        largs.insert(rng.randrange(len(largs) + 1), ("arg", None if ordered else rng.randrange(1, 4), rng.choice(TYPES), "", ""))
    elif mode == "lone":
        largs = [("arg", t[1], t[2]) + rand_fmt(rng) for t in rargs]
        largs.insert(rng.randrange(len(largs) + 1), ("lone", rng.choice([" ", "!", "é", ",", "-", "$", "#"])))
    elif mode == "style":
        # the other style with the same argument list is the same positional model
        largs = [("arg", None if ordered else (j + 1), types[j]) + rand_fmt(rng) for j in range(k)]
        if not ordered:
            rng.shuffle(largs)
    ltoks = decorate(rng, largs)
    # a lone % directly before the end of the value or before safe text only
    if ltoks and ltoks[-1][0] == "lone" and rng.random() < 0.5:
        ltoks[-1] = ("lone", "")
    exp = klass(args_of(rtoks), args_of(ltoks))
    return "".join(render(t) for t in rtoks), "".join(render(t) for t in ltoks), exp, mode



# ------------------------------------------------------------------ the token grammar of C06.atoks_render (WfRender)
LONE_OK_NEXT = [" ", "!", "é", ",", "-", "$", "#", "a", "(", "Z", ";"]
WF_TEXT_CHARS = list("ab $*.0123456789dSx#;é-1$")
NOT_AFTER_LONE = set("%0123456789*." + TYPES)


def render_wf(tok):
    if tok[0] == "text":
        return tok[1]
    if tok[0] == "pct":
        return "%%"
    if tok[0] == "lone":
        return "%"
    _, num, ty, width, prec = tok
    return "%" + ("%d$" % num if num is not None else "") + width + prec + ty


def gen_wf_tokens(rng):
    """a token list satisfying WfRender: text without %, %%, lone % (followed by the end or a LoneOk character),
    %[n$][width][.prec]c with n >= 1, width in (\\*|[0-9]+)?, prec in (\\.(\\*|[0-9]+)?)?"""
    n = rng.randrange(0, 41) if rng.random() < 0.15 else rng.randrange(0, 9)
    style = rng.choice(["unordered", "ordered", "ordered", "mixed"])
    hi = rng.choice([1, 2, 3, 3, 5, 12])
    toks = []
    for _ in range(n):
        r = rng.random()
        if r < 0.3:
            toks.append(("text", "".join(rng.choice(WF_TEXT_CHARS) for _ in range(rng.randrange(0, 4)))))
        elif r < 0.4:
            toks.append(("pct",))
        elif r < 0.47 and style == "mixed":
            toks.append(("lone",))
        else:
            if style == "unordered":
                num = None
            elif style == "ordered":
                num = rng.randrange(1, hi + 1)
            else:
                num = rng.choice([None, None, 1, 2, 3])
            width = rng.choice(["", "", "", "*", "0", "5", "10", "007", str(rng.randrange(1000))])
            prec = rng.choice(["", "", "", ".", ".*", ".2", ".10", ".0"])
            toks.append(("arg", num, rng.choice(TYPES), width, prec))
    out = []
    for i, t in enumerate(toks):
        out.append(t)
        if t[0] == "lone":
            rest = "".join(render_wf(u) for u in toks[i + 1:])
            if rest and rest[0] in NOT_AFTER_LONE:
                out.append(("text", rng.choice(LONE_OK_NEXT)))
    return out


def wf_render_ok(toks):
    """the hypothesis WfRender, checked independently of the generator"""
    for i, t in enumerate(toks):
        if t[0] == "text" and "%" in t[1]:
            return False
        if t[0] == "lone":
            rest = "".join(render_wf(u) for u in toks[i + 1:])
            if rest and rest[0] in NOT_AFTER_LONE:
                return False
        if t[0] == "arg" and t[1] is not None and t[1] < 1:
            return False
    return True


def expected_specs(toks):
    """getPrintfSpecs of the assembled value according to the tokens (the closed form of the theorem):
    ('err', pos, msg) | ('ok', [types])"""
    off, mode, args = 0, None, []
    for t in toks:
        if t[0] == "lone":
            return ("err", off, "Found single %")
        if t[0] == "arg":
            o = t[1] is not None
            if mode is not None and mode != o:
                return ("err", off, "Mixed ordered and non-ordered args")
            mode = o
            args.append((t[1], t[2]))
        off += len(render_wf(t))
    if not args:
        return ("ok", [])
    if not mode:
        return ("ok", [a[1] for a in args])
    out = [None] * max(a[0] for a in args)
    for num, ty in args:
        out[num - 1] = ty
    if any(x is None for x in out):
        return ("err", 0, "Ordered argument missing")
    return ("ok", out)


def gen_wf_plural(rng):
    """text (without #) and #n tokens; a #n is followed by the end or a non-digit (WfRenderP)"""
    toks = []
    for _ in range(rng.randrange(0, 7)):
        if rng.random() < 0.5:
            toks.append(("var", rng.choice([0, 1, 1, 2, 2, 3, 10, 12, 22, 123])))
        else:
            toks.append(("text", "".join(rng.choice(list("ab ;x12")) for _ in range(rng.randrange(0, 4)))))
    out = []
    for i, t in enumerate(toks):
        out.append(t)
        if t[0] == "var":
            rest = "".join(render_wfp(u) for u in toks[i + 1:])
            if rest and rest[0] in "0123456789":
                out.append(("text", rng.choice([" ", ";", "x"])))
    return out


def render_wfp(tok):
    return tok[1] if tok[0] == "text" else "#%d" % tok[1]


def rendered_ops(ctx):
    """C06.atoks_render / specs_of_rendered on the real code: values assembled from random token lists of the theorem's
    grammar (up to 40 tokens) must have the argument model of their tokens"""
    from impl import propcheck as P
    out = Outcome()
    rng = ctx.rng("c06", "rendered")
    cases = []
    for _ in range(ctx.n(6000, 120000)):
        toks = gen_wf_tokens(rng)
        if not wf_render_ok(toks):
            raise RuntimeError("harness: generated token list is not WfRender: %r" % (toks,))
        cases.append((toks, "".join(render_wf(t) for t in toks)))
    lines = ["pspecs " + C.enc(v) for _, v in cases]
    model = C.run_driver_parallel(lines) if ctx.model_ok else [None] * len(lines)
    for (toks, v), mo in zip(cases, model):
        exp = expected_specs(toks)
        sc = P.scan_printf(v)
        if (exp[0] == "err") != (sc[0] == "bad") or (exp[0] == "ok" and exp[1] != sc[1]):
            raise RuntimeError("harness: token expectation %r and scanner %r differ on %r" % (exp, sc, v))
        got = P.impl_specs(v)
        out.evaluations += 1
        want = ("err %d %s" % (exp[1], C.enc(exp[2]))) if exp[0] == "err" else "ok " + " ".join(C.enc(t) for t in exp[1])
        if got.startswith("raise") or got.split(" ")[0] != want.split(" ")[0] or (exp[0] == "ok" and got != want):
            out.violations.append({"what": "getPrintfSpecs %r of a value assembled from tokens differs from the tokens' "
                                           "argument model %r" % (got, want), "input": {"kind": "specs", "value": v}})
        elif got != want:
            out.disagreements.append({"op": "rendered-offset", "value": v, "impl": got, "tokens": want})
        elif mo is not None and mo != got:
            out.disagreements.append({"op": "pspecs", "value": v, "impl": got, "model": mo})
        out.count("rendered." + (exp[2].split(" ")[0] if exp[0] == "err" else "ok%d" % min(len(exp[1]), 4)))
        if exp[0] == "err" or exp[1]:
            out.nontrivial.add(("rendered", got if len(got) < 60 else P.h(got)))
    return out

# ------------------------------------------------------------------ run
def jobs_product(kind, refs, l10ns, locale, size=30000):
    n = len(refs) * len(l10ns)
    return [{"kind": kind, "refs": refs, "l10ns": l10ns, "pairs": None, "lo": lo, "hi": min(n, lo + size),
             "locale": locale} for lo in range(0, n, size)]


def jobs_pairs(kind, cases, size=4000):
    """cases: (refTriple, l10nTriple, locale, expected-by-construction|None)"""
    out = []
    for lo in range(0, len(cases), size):
        chunk = cases[lo:lo + size]
        refs, l10ns, pairs = [], [], []
        ri, li = {}, {}
        for r, l, loc, exp in chunk:
            rk, lk = tuple(r), tuple(l)
            if rk not in ri:
                ri[rk] = len(refs)
                refs.append(list(r))
            if lk not in li:
                li[lk] = len(l10ns)
                l10ns.append(list(l))
            pairs.append([ri[rk], li[lk], loc, exp])
        out.append({"kind": kind, "refs": refs, "l10ns": l10ns, "pairs": pairs})
    return out


PLURAL_COMMENT = "# LOCALIZATION NOTE (k): Semi-colon list of plural forms.\n# See: http://developer.mozilla.org/en/docs/Localization_and_Plurals"


def finding_of(v):
    return None


def run(ctx):
    from compare_locales import plurals
    out = Outcome()
    out.rule = ("printf: all pairs of reference values (<=3 tokens over a 9-token alphabet) and localized values (<=3 tokens over 12 "
                "tokens) in quick; additionally <=4 x <=4 tokens over 7/9-token alphabets in thorough; seeded random pairs of 1-8 tokens "
                "over a 52-token alphabet (escapes, width/precision, malformed forms, non-ASCII digits); pairs derived from a reference "
                "by reordering / dropping / retyping arguments with the verdict known by construction; argument lists of 200-320 "
                "entries (difflib autojunk range). plural: every locale of CATEGORIES_BY_LOCALE plus odd locale tags x values over "
                "an 11-token alphabet, gate variants (no comment, other comment, key pluralRule, numeric value). "
                "assembled values: random token lists (0-40 tokens) of the grammar of C06.atoks_render / plural_vars_rendered, "
                "expected getPrintfSpecs result / variable sets by construction from the tokens. "
                "non-trivial = a printf/plural finding is expected or reported; distinct = distinct canonical result lists among those")
    rng = ctx.rng("c06")
    model = bool(ctx.model_ok)
    jobs = []
    # ---- printf, exhaustive
    refs = [[None, "k", v] for v in values(REF_ALPHA, 3)]
    l10ns = [[None, "k", v] for v in values(L10N_ALPHA, 3)]
    jobs += jobs_product("printf", refs, l10ns, None)
    out.count("printf.exhaustive.pairs", len(refs) * len(l10ns))
    if ctx.tier != "quick":
        refs = [[None, "k", v] for v in values(REF_ALPHA_T, 4)]
        l10ns = [[None, "k", v] for v in values(L10N_ALPHA_T, 4)]
        jobs += jobs_product("printf", refs, l10ns, None, size=60000)
        out.count("printf.exhaustive.pairs", len(refs) * len(l10ns))
    # ---- printf, random
    cases = []
    for _ in range(ctx.n(30000, 600000)):
        r = "".join(rng.choice(BIG_ALPHA) for _ in range(rng.randrange(1, 9)))
        if rng.random() < 0.5:
            l = "".join(rng.choice(BIG_ALPHA) for _ in range(rng.randrange(0, 9)))
        else:
            # a localized value close to the reference: token-level edits
            toks = [rng.choice(BIG_ALPHA) for _ in range(rng.randrange(1, 7))]
            r = "".join(toks)
            lt = list(toks)
            for _ in range(rng.randrange(0, 3)):
                op = rng.randrange(4)
                if op == 0 and lt:
                    del lt[rng.randrange(len(lt))]
                elif op == 1:
                    lt.insert(rng.randrange(len(lt) + 1), rng.choice(BIG_ALPHA))
                elif op == 2 and len(lt) > 1:
                    i, j = rng.randrange(len(lt)), rng.randrange(len(lt))
                    lt[i], lt[j] = lt[j], lt[i]
                elif lt:
                    lt[rng.randrange(len(lt))] = rng.choice(BIG_ALPHA)
            l = "".join(lt)
        cases.append(([None, "k", r], [None, "k", l], rng.choice([None, "de", "ar"]), None))
    for _ in range(ctx.n(30000, 400000)):
        r, l, exp, mode = gen_derived(rng)
        cases.append(([None, "k", r], [None, "k", l], None, exp))
    # ---- printf, long argument lists (difflib's autojunk range)
    for _ in range(ctx.n(40, 400)):
        n = rng.randrange(195, 320)
        kinds = rng.choice(["SSSSSSSSSd", "Sd", "Sdx", "S", "SSSSSSSSSSSSSSSSSSSSSSSSSSSSSSSSSSSSSSSd"])
        R = [rng.choice(kinds) for _ in range(n)]
        mode = rng.randrange(5)
        if mode == 0:
            L = R[:rng.randrange(0, n)]
        elif mode == 1:
            L = list(R)
            L[rng.randrange(n)] = "f"
        elif mode == 2:
            L = list(R)
            del L[rng.randrange(n - 1)]
        elif mode == 3:
            L = R + ["d"]
        else:
            L = [rng.choice(kinds) for _ in range(rng.randrange(190, 320))]
        exp = "nothing" if L == R else ("warning" if R[:len(L)] == L and len(L) < len(R) else "error")
        if rng.random() < 0.5:
            rv = "".join("%" + t for t in R)
            lv = " ".join("%" + t for t in L)
        else:
            rv = "".join("%%%d$%s" % (i + 1, t) for i, t in enumerate(R))
            lv = "".join("%%%d$%s" % (i + 1, t) for i, t in reversed(list(enumerate(L))))
        cases.append(([None, "k", rv], [None, "k", lv], None, exp))
    jobs += jobs_pairs("printf", cases)
    out.count("printf.random.pairs", len(cases))
    # ---- plural
    locales = sorted(plurals.CATEGORIES_BY_LOCALE) + ODD_LOCALES
    pvals = values(PLURAL_ALPHA, 2)
    prefs = [PLURAL_ALPHA[0] + ";" + PLURAL_ALPHA[1], "#1 file;#1 files", "#1 of #2;#1 of #2", "a;b", "", "12", "#1"]
    cases = []
    lvals = ["", "#1", "#1;#1", "#1;#2;#1", "#2;#1;#1;#1", "a;b;c;d;#1;#2", "#3", "#1;#1;#1;#1;#1;#1"]
    for loc in locales:
        for rv in prefs:
            for lv in lvals:
                cases.append(([PLURAL_COMMENT, "k", rv], [None, "k", lv], loc, None))
    some_locales = [None, "en", "ar", "ru", "zh-CN", "cy", "xx"]
    for rv in pvals + prefs:
        for lv in pvals:
            cases.append(([PLURAL_COMMENT, "k", rv], [None, "k", lv], rng.choice(some_locales), None))
    for _ in range(ctx.n(6000, 150000)):
        rv = "".join(rng.choice(PLURAL_ALPHA) for _ in range(rng.randrange(0, 6)))
        lv = "".join(rng.choice(PLURAL_ALPHA) for _ in range(rng.randrange(0, 8)))
        com = rng.choice([PLURAL_COMMENT] * 6 + [None, "# other comment", "# Localization_and_Plural", "! see Localization_and_Plurals!"])
        key = rng.choice(["k"] * 6 + ["pluralRule", "pluralRule2"])
        if rng.random() < 0.08:
            rv = rng.choice(["1", "15", "007", "1\\n", "1\\n\\n", "٣", "1a", "²", "", " 1", "1 "])
        cases.append(([com, key, rv], [None, key, lv], rng.choice(locales), None))
    # values assembled from the token grammar of C06.plural_vars_rendered
    from impl import propcheck as P0
    for _ in range(ctx.n(3000, 60000)):
        rt, lt = gen_wf_plural(rng), gen_wf_plural(rng)
        rv, lv = "".join(render_wfp(u) for u in rt), "".join(render_wfp(u) for u in lt)
        for tk, val in ((rt, rv), (lt, lv)):
            if P0.scan_vars(val) != {u[1] for u in tk if u[0] == "var"}:
                raise RuntimeError("harness: plural tokens %r and scanner %r differ" % (tk, sorted(P0.scan_vars(val))))
        cases.append(([PLURAL_COMMENT, "k", rv], [None, "k", lv], rng.choice(some_locales), None))
    jobs += jobs_pairs("plural", cases)
    out.count("plural.pairs", len(cases))
    for j in jobs:
        j["model"] = model
    res = pool.pmap("impl.propcheck", "run_job", [[j] for j in jobs], timeout=300.0, batch=1)
    for j, r in zip(jobs, res):
        if "r" not in r:
            raise RuntimeError("worker failed: %r" % (r,))
        r = r["r"]
        out.evaluations += r["n"]
        for k, v in r["dist"].items():
            out.count(k, v)
        out.nontrivial |= set(r["nontrivial"])
        for v in r["viol"]:
            v["finding"] = finding_of(v)
            out.violations.append(v)
        out.disagreements += r["dis"]
        if len(out.samples) < 8:
            out.samples += r["samples"][:1]
    out.merge(direct_ops(ctx))
    out.merge(rendered_ops(ctx))
    out.merge(round4_ops(ctx))
    # a history-dependent verdict shows in every stream that shares a checker instance, but only the session stream
    # stores an input that reproduces it (the whole sequence): keep those in front of the stored violations
    out.violations.sort(key=lambda v: 0 if v.get("input", {}).get("kind") == "history" else 1)
    return out


def direct_ops(ctx):
    """correspondence of the building blocks: getPrintfSpecs, difflib opcodes, get_plural, unescape"""
    from compare_locales import plurals
    from impl import propcheck as P
    out = Outcome()
    rng = ctx.rng("c06", "direct")
    # getPrintfSpecs on all short strings over the characters the regex looks at
    chars = ["%", "1", "2", "0", "$", ".", "*", "d", "S", "a"]
    L = 4 if ctx.tier == "quick" else 5
    vals = ["".join(t) for n in range(L + 1) for t in itertools.product(chars, repeat=n)]
    for _ in range(ctx.n(4000, 60000)):
        vals.append("".join(rng.choice(chars + ["3", "x", "%", "%", "$", " ", "é", "٣"]) for _ in range(rng.randrange(5, 14))))
    lines = ["pspecs " + C.enc(v) for v in vals]
    model = C.run_driver_parallel(lines) if ctx.model_ok else [None] * len(lines)
    for v, mo in zip(vals, model):
        got = P.impl_specs(v)
        out.evaluations += 1
        exp = P.scan_printf(v)
        if got.startswith("raise"):
            out.violations.append({"what": "getPrintfSpecs raised", "input": {"kind": "specs", "value": v}})
        elif (exp[0] == "bad") != got.startswith("err") or (exp[0] == "ok" and got != "ok " + " ".join(C.enc(t) for t in exp[1])):
            out.violations.append({"what": "getPrintfSpecs %r differs from the positional-argument model %r" % (got, exp),
                                   "input": {"kind": "specs", "value": v}})
        elif mo is not None and mo != got:
            out.disagreements.append({"op": "pspecs", "value": v, "impl": got, "model": mo})
        if got.startswith("err"):
            out.nontrivial.add(("specs", got.split(" ")[1], got.split(" ")[2]))
        out.count("specs." + got.split(" ")[0])
    # difflib opcodes
    seqs = []
    for n in range(0, 5):
        for a in itertools.product(range(3), repeat=n):
            for mlen in range(0, 5 if ctx.tier == "quick" else 6):
                for b in itertools.product(range(3), repeat=mlen):
                    seqs.append((list(a), list(b)))
    for _ in range(ctx.n(3000, 60000)):
        k = rng.choice([2, 3, 5])
        a = [rng.randrange(k) for _ in range(rng.randrange(0, 14))]
        b = [rng.randrange(k) for _ in range(rng.randrange(0, 14))]
        seqs.append((a, b))
    for _ in range(ctx.n(150, 1500)):
        k = rng.choice([1, 2, 3, 8, 40])
        n = rng.randrange(190, 330)
        w = [rng.choice([1, 1, 5, 30]) for _ in range(k)]
        b = rng.choices(range(k), weights=w, k=n)
        mode = rng.randrange(4)
        if mode == 0:
            a = b + rng.choices(range(k), k=rng.randrange(1, 30))
        elif mode == 1:
            a = list(b)
            for _ in range(rng.randrange(1, 6)):
                op = rng.randrange(3)
                i = rng.randrange(len(a))
                if op == 0:
                    del a[i]
                elif op == 1:
                    a.insert(i, rng.randrange(k + 1))
                else:
                    a[i] = rng.randrange(k + 1)
        elif mode == 2:
            a = rng.choices(range(k), weights=w, k=rng.randrange(150, 330))
        else:
            a = b[rng.randrange(0, 50):] + b[:rng.randrange(0, 50)]
        seqs.append((a, b))
    lines = ["popcodes t:%s t:%s" % (",".join(map(str, a)), ",".join(map(str, b))) for a, b in seqs]
    model = C.run_driver_parallel(lines) if ctx.model_ok else [None] * len(lines)
    for (a, b), mo in zip(seqs, model):
        got = P.impl_opcodes(a, b)
        out.evaluations += 1
        if mo is not None and mo != got:
            out.disagreements.append({"op": "popcodes", "a": a, "b": b, "impl": got, "model": mo})
        out.count("opcodes.len>=200" if len(b) >= 200 else "opcodes.short")
    # get_plural: every locale of the table plus odd tags
    locs = sorted(plurals.CATEGORIES_BY_LOCALE) + ODD_LOCALES + [l + "-XX" for l in sorted(plurals.CATEGORIES_BY_LOCALE)]
    lines = ["pplural " + P.opt(l) for l in locs]
    model = C.run_driver(lines) if ctx.model_ok else [None] * len(lines)
    for l, mo in zip(locs, model):
        got = P.impl_plural(l)
        out.evaluations += 1
        exp_n = P.pinned_forms(l)
        got_n = None if got in ("None", "raise") else len(got.split())
        if got == "raise" or got == "" or got_n != exp_n:
            out.violations.append({"what": "get_plural(%r) has %r categories, the pinned plural table says %r" % (l, got_n, exp_n),
                                   "input": {"kind": "locale", "locale": l}})
        elif mo is not None and mo != got:
            out.disagreements.append({"op": "pplural", "locale": l, "impl": got, "model": mo})
        out.count("plural.locales")
    # unescape
    esc = ["\\", "u", "0", "2", "5", "a", "F", "g", "n", "t", "%", " ", "x", "\\\n", "\\u0025"]
    raws = ["".join(t) for n in range(4) for t in itertools.product(esc, repeat=n)]
    for _ in range(ctx.n(1500, 30000)):
        raws.append("".join(rng.choice(esc) for _ in range(rng.randrange(4, 10))))
    ents = [P.impl_unescape(r) for r in raws]
    ents = [e for e in ents if e is not None]
    lines = ["punescape " + C.enc(e[0]) for e in ents]
    model = C.run_driver_parallel(lines) if ctx.model_ok else [None] * len(lines)
    for e, mo in zip(ents, model):
        out.evaluations += 1
        if P.unescape_ref(e[0]) != e[1]:
            out.disagreements.append({"op": "unescape-ref", "raw": e[0], "impl": e[1], "ref": P.unescape_ref(e[0])})
        elif mo is not None and mo != C.enc(e[1]):
            out.disagreements.append({"op": "punescape", "raw": e[0], "impl": C.enc(e[1]), "model": mo})
        out.count("unescape")
    return out


# ------------------------------------------------------------------ round 4
HIST_VALUES = ["%S", "%1$S %2$d", "%2$d %1$S", "%d %S", "%S %", "%1$S %3$S", "plain", "\\q %S", "a�b %S", "%S %S %S",
               "%1$S %%", "%%%1$S", "", "%S %d"]
HIST_PLURAL = ["#1 file;#1 files", "#1;#2", "#1", "a;b;c", "", "#2;#1;#1;#1", "7"]
LOCALE_PARTS = ["", "-", "x", "GB", "Latn", "CN", "TW", "zh", "en", "sr", "pt", "BR", "cy", "ar", "hsb", "xx", "EN", "Zh",
                "_", "- ", "é"]


def gen_locale(rng, keys):
    r = rng.random()
    if r < 0.25:
        return rng.choice(keys)
    if r < 0.5:
        return rng.choice(keys) + "-" + rng.choice(LOCALE_PARTS)
    if r < 0.6:
        return rng.choice(keys) + rng.choice(["_", " ", "--", "-x-y", "-CN-x", "x"]) + rng.choice(LOCALE_PARTS)
    if r < 0.7:
        k = rng.choice(keys)
        return k[:rng.randrange(0, len(k) + 1)]
    if r < 0.8:
        return rng.choice(keys).upper() if rng.random() < 0.5 else rng.choice(keys).title()
    return "-".join(rng.choice(LOCALE_PARTS) for _ in range(rng.randrange(1, 4)))


def round4_ops(ctx):
    """ties for the round-4 theorems: tokens of every value against the token grammar (C06.atoks_iff_lex), the locale
    lookup law (C06.plural_rule_iff), the #n variables of every text (C06.plural_vars_exact), the verdict matrix on
    specifier lists (C06.check_verdict_iff), one checker instance over sequences (C06.session_history_independent)"""
    from compare_locales import plurals
    from impl import propcheck as P
    out = Outcome()
    rng = ctx.rng("c06", "round4")
    # ---- tokens: all short strings over the characters the regex looks at + random longer ones + assembled values
    chars = ["%", "1", "2", "0", "$", ".", "*", "d", "S", "a"]
    Lmax = 4 if ctx.tier == "quick" else 5
    vals = ["".join(t) for n in range(Lmax + 1) for t in itertools.product(chars, repeat=n)]
    for _ in range(ctx.n(15000, 150000)):
        vals.append("".join(rng.choice(chars + ["3", "9", "x", "%", "%", "$", " ", "é", "٣", "#", "10", "%%", "%1$", "*.*"])
                            for _ in range(rng.randrange(5, 16))))
    for _ in range(ctx.n(4000, 50000)):
        vals.append("".join(rng.choice(BIG_ALPHA) for _ in range(rng.randrange(1, 9))))
    lines = ["c06.toks " + C.enc(v) for v in vals]
    model = C.run_driver_parallel(lines) if ctx.model_ok else [None] * len(lines)
    for v, mo in zip(vals, model):
        got = P.impl_toks(v)
        gr = P.grammar_tokens(v)
        out.evaluations += 1
        if got != gr:
            # the regex of the code and the token grammar of the theorem disagree: the argument model of the property
            # (scan_printf) is this grammar, so this is a wrong tokenisation of a concrete value
            sp = P.impl_specs(v)
            exp = P.scan_printf(v)
            if sp.startswith("raise") or (exp[0] == "bad") != sp.startswith("err") or (
                    exp[0] == "ok" and sp != "ok " + " ".join(C.enc(t) for t in exp[1])):
                out.violations.append({"what": "printf.finditer finds %r, the token grammar says %r; getPrintfSpecs %r "
                                               "differs from the positional-argument model %r" % (got, gr, sp, exp),
                                       "input": {"kind": "specs", "value": v}})
            else:
                out.disagreements.append({"op": "c06.toks-grammar", "value": v, "impl": got, "grammar": gr})
        elif mo is not None and mo != got:
            out.disagreements.append({"op": "c06.toks", "value": v, "impl": got, "model": mo})
        k = got.count(":lone"), got.count(":pct"), min(got.count(":arg:"), 3)
        out.count("toks.lone%d.pct%d.arg%d" % (min(k[0], 1), min(k[1], 1), k[2]))
        if got != "ok":
            out.nontrivial.add(("toks", got if len(got) < 50 else P.h(got)))
    # ---- locale -> rule: every key, every key with suffixes, random tags
    keys = sorted(plurals.CATEGORIES_BY_LOCALE)
    locs = [None] + keys + ODD_LOCALES + [k + "-XX" for k in keys] + [k + "-" for k in keys] + [k.split("-")[0] for k in keys]
    for _ in range(ctx.n(6000, 60000)):
        locs.append(gen_locale(rng, keys))
    lines = ["c06.rule " + P.opt(l) for l in locs]
    model = C.run_driver_parallel(lines) if ctx.model_ok else [None] * len(lines)
    for l, mo in zip(locs, model):
        got = P.impl_rule(l)
        law = P.rule_law(l)
        out.evaluations += 1
        exp_n = P.pinned_forms(l)
        want = "None None" if law is None else "%d %d" % (law, len(plurals.CATEGORIES_BY_INDEX[law]))
        if got in ("raise", "inconsistent") or got != want or (None if got == "None None" else int(got.split()[1])) != exp_n:
            out.violations.append({"what": "get_plural_rule/get_plural(%r) = %r; the lookup law (own key, else language subtag) "
                                           "gives %r, the pinned form count %r" % (l, got, want, exp_n),
                                   "input": {"kind": "locale", "locale": l}})
        elif mo is not None and mo != got:
            out.disagreements.append({"op": "c06.rule", "locale": l, "impl": got, "model": mo})
        out.count("rule." + ("none" if got == "None None" else ("own" if l in plurals.CATEGORIES_BY_LOCALE else "lang")))
        if got != "None None":
            out.nontrivial.add(("rule", got, l in plurals.CATEGORIES_BY_LOCALE))
    # ---- #n variables of every text
    pchars = ["#", "1", "2", "0", ";", "a", " "]
    pv = ["".join(t) for n in range(5 if ctx.tier == "quick" else 7) for t in itertools.product(pchars, repeat=n)]
    for _ in range(ctx.n(6000, 60000)):
        pv.append("".join(rng.choice(PLURAL_ALPHA + ["##", "#٣", "12", "#12", "%S", "é"]) for _ in range(rng.randrange(1, 9))))
    lines = ["c06.pvars " + C.enc(v) for v in pv]
    model = C.run_driver_parallel(lines) if ctx.model_ok else [None] * len(lines)
    for v, mo in zip(pv, model):
        got = P.impl_pvars(v)
        want = " ".join(["ok"] + [str(x) for x in P.scan_vars_list(v)])
        out.evaluations += 1
        if got != want:
            # the property's verdict is a function of these sets: a different variable list on a concrete text
            if got in ("raise", "differ") or set(got.split()[1:]) != set(want.split()[1:]):
                out.violations.append({"what": "check_plural reads the variables %r from %r, the #n grammar says %r" % (got, v, want),
                                       "input": {"kind": "pvars", "value": v}})
            else:
                out.disagreements.append({"op": "c06.pvars-grammar", "value": v, "impl": got, "grammar": want})
        elif mo is not None and mo != got:
            out.disagreements.append({"op": "c06.pvars", "value": v, "impl": got, "model": mo})
        out.count("pvars.%d" % min(len(got.split()) - 1, 3))
        if got != "ok":
            out.nontrivial.add(("pvars", got if len(got) < 40 else P.h(got)))
    # ---- verdict matrix on specifier lists: all pairs of lists up to length 4 (5) over {S, d}, length 3 over {S, d, x}
    ab = "Sd"
    Ls = ["".join(t) for n in range(0, 5 if ctx.tier == "quick" else 6) for t in itertools.product(ab, repeat=n)]
    L3 = ["".join(t) for n in range(0, 4) for t in itertools.product("Sdx", repeat=n)]
    pairs = [(r, l) for r in Ls for l in Ls] + [(r, l) for r in L3 for l in L3]
    for _ in range(ctx.n(4000, 40000)):
        r = "".join(rng.choice("Sdxf") for _ in range(rng.randrange(0, 12)))
        m = rng.randrange(5)
        if m == 0:
            l = r + "".join(rng.choice("Sdxf") for _ in range(rng.randrange(1, 5)))       # extends the reference
        elif m == 1:
            l = r[:rng.randrange(0, len(r) + 1)]                                            # drops a tail
        elif m == 2:
            l = r[1:] if r else "S"
        elif m == 3:
            l = "".join(rng.choice("Sdxf") for _ in range(rng.randrange(0, 12)))
        else:
            k = rng.randrange(0, len(r) + 1)
            l = r[:k] + rng.choice("Sdxf") + r[k:]
        pairs.append((r, l))
    for _ in range(ctx.n(30, 300)):                                                        # autojunk range, both directions
        n = rng.randrange(195, 320)
        r = "".join(rng.choice(rng.choice(["S", "Sd", "SSSSSSSSSd"])) for _ in range(n))
        l = r + "".join(rng.choice("Sd") for _ in range(rng.randrange(1, 40))) if rng.random() < 0.6 else r[:rng.randrange(0, n)]
        pairs.append((r, l))

    def l10n_value(l, i):
        # unordered arguments, or (every other case) ordered ones written in reverse
        if i % 2 == 0 or not l:
            return " ".join("%" + c for c in l)
        return "".join("%%%d$%s" % (j + 1, c) for j, c in reversed(list(enumerate(l))))

    cases = [(r, l, l10n_value(l, i)) for i, (r, l) in enumerate(pairs)]
    lines = ["c06.verdict %s %s" % (C.enc(r), C.enc(v)) for r, l, v in cases]
    model = C.run_driver_parallel(lines) if ctx.model_ok else [None] * len(lines)
    for (r, l, v), mo in zip(cases, model):
        got = P.impl_verdict(list(r), v)
        out.evaluations += 1
        res = [] if got.startswith("raise") else [f.split(" ", 3) for f in got.split(" | ")[1:]]
        sevs = [x[0] for x in res]
        if l == r:
            want = []
        elif r.startswith(l):
            want = ["warning"]
        elif l.startswith(r):
            want = ["error"]          # the localization EXTENDS the reference's arguments
        else:
            want = None               # not a prefix: an error (a trailing-delete warning may accompany it)
        bad = None
        if got.startswith("raise"):
            bad = "checkPrintf raised: " + got
        elif want is not None and sevs != want:
            bad = "specifier lists %r / %r: severities %r, the prefix model says %r" % (r, l, sevs, want)
        elif want is None and "error" not in sevs:
            bad = "specifier lists %r / %r (not a prefix): no error reported, got %r" % (r, l, sevs)
        if bad and r:
            out.violations.append({"what": bad, "input": {"kind": "verdict", "ref": r, "value": v}, "impl": got})
        elif mo is not None and mo != got:
            out.disagreements.append({"op": "c06.verdict", "ref": r, "value": v, "impl": got, "model": mo})
        out.count("verdict." + ("equal" if l == r else "trailing" if r.startswith(l) else "extends" if l.startswith(r) else "other")
                  + ("+warn" if want is None and "warning" in sevs else ""))
        if sevs:
            out.nontrivial.add(("verdict", P.h(got)))
    # ---- sessions of one checker instance
    seqs = []
    some_locales = [None, "en", "ar", "ru", "zh-CN", "cy", "xx", "en-GB"]
    extras = [None, [], ["android-dtd"], ["foo"], ["android-dtd", "x"]]
    for _ in range(ctx.n(1500, 20000)):
        prs = []
        for _ in range(rng.randrange(2, 7)):
            k = rng.random()
            if k < 0.45:
                rv, lv, _e, _m = gen_derived(rng)
                prs.append([[None, "k", rv], [None, "k", lv]])
            elif k < 0.7:
                prs.append([[rng.choice([None, "# c"]), "k", rng.choice(HIST_VALUES)], [None, "k", rng.choice(HIST_VALUES)]])
            else:
                key = rng.choice(["k", "k", "pluralRule"])
                prs.append([[PLURAL_COMMENT, key, rng.choice(HIST_PLURAL)], [None, key, rng.choice(HIST_PLURAL)]])
        if rng.random() < 0.3:
            prs.append(list(prs[0]))       # the same pair twice in one session
        seqs.append({"locale": rng.choice(some_locales), "extra": rng.choice(extras), "pairs": prs})
    jobs = [{"seqs": seqs[i:i + 120], "model": bool(ctx.model_ok)} for i in range(0, len(seqs), 120)]
    res = pool.pmap("impl.propcheck", "run_history", [[j] for j in jobs], timeout=300.0, batch=1)
    for r in res:
        if "r" not in r:
            raise RuntimeError("worker failed: %r" % (r,))
        r = r["r"]
        out.evaluations += r["n"]
        for k, v in r["dist"].items():
            out.count(k, v)
        out.nontrivial |= {("hist", x) for x in r["nontrivial"]}
        for v in r["viol"]:
            v["finding"] = finding_of(v)
            out.violations.append(v)
        out.disagreements += r["dis"]
    return out


def classify(v):
    return v.get("finding")


def replay(payload):
    from impl import propcheck as P
    res = []
    for v in payload.get("violations", []):
        i = v["input"]
        if i.get("kind") in ("printf", "plural"):
            r = pool.pmap("impl.propcheck", "replay_case", [[i]], timeout=60.0)[0]
            res.append(r.get("r", r))
        elif i.get("kind") == "locale":
            got = P.impl_plural(i["locale"])
            got_n = None if got in ("None", "raise") else len(got.split())
            res.append({"input": i, "violations": [got] if (got in ("raise", "") or got_n != P.pinned_forms(i["locale"])) else []})
        elif i.get("kind") == "history":
            r = pool.pmap("impl.propcheck", "replay_history", [[i]], timeout=60.0)[0]
            res.append(r.get("r", r))
        elif i.get("kind") == "pvars":
            got = P.impl_pvars(i["value"])
            want = " ".join(["ok"] + [str(x) for x in P.scan_vars_list(i["value"])])
            res.append({"input": i, "violations": [got] if (got in ("raise", "differ") or set(got.split()[1:]) != set(want.split()[1:])) else []})
        elif i.get("kind") == "verdict":
            got = P.impl_verdict(list(i["ref"]), i["value"])
            sc = P.scan_printf(i["value"])
            sevs = [] if got.startswith("raise") else [f.split(" ", 3)[0] for f in got.split(" | ")[1:]]
            l = "".join(sc[1]) if sc[0] == "ok" else None
            r = i["ref"]
            if got.startswith("raise") or l is None:
                bad = got.startswith("raise")
            elif l == r:
                bad = sevs != []
            elif r.startswith(l):
                bad = sevs != ["warning"]
            elif l.startswith(r):
                bad = sevs != ["error"]
            else:
                bad = "error" not in sevs
            res.append({"input": i, "violations": [got] if bad else []})
        elif i.get("kind") == "specs":
            got = P.impl_specs(i["value"])
            exp = P.scan_printf(i["value"])
            bad = (exp[0] == "bad") != got.startswith("err") or (
                exp[0] == "ok" and got != "ok " + " ".join(C.enc(t) for t in exp[1]))
            res.append({"input": i, "violations": [got] if bad else []})
    return {"violates": any(r.get("violations") for r in res), "cases": res}

"""C14 — Filter verdicts follow last-rule-wins and most-severe-wins."""
import hashlib
import itertools
import json
import re

from lib import common as C
from lib import pool
from lib.runner import Outcome
from impl import project as PR

ID = "C14"
LEAN_TARGETS = ["CLModel.Props.C14"]
# the composed model (FiltM) also follows paths/matcher.py: a change there raises this check's search budget too
EXTRA_FILES = ("compare_locales/paths/matcher.py",)
M = "CLModel.Props.C14"
THEOREMS = [
    (M, "C14.filter_spec", "config.filter (loop, break, action sets, early returns, cache) = reference interpreter of the documented semantics, for every configuration tree, file and key"),
    (M, "C14.all_locales_spec", "`locale in all_locales` = some configuration of the project (not the excluded ones) or one of its paths names the locale"),
    (M, "C14.locale_not_covered", "a locale the project does not name is ignored"),
    (M, "C14.path_not_covered", "a path covered by no configuration is ignored"),
    (M, "C14.exclude_short_circuit", "an excluded configuration reporting the FILE as error makes the parent ignore the file and all its entities"),
    (M, "C14.exclude_test", "the exclude test is `exclude.filter(file) == error` on the file query"),
    (M, "C14.most_severe_wins", "without exclusion _filter = most severe of own verdict and the children's"),
    (M, "C14.severity_lattice", "mostSevere is the maximum for error > warning > ignore > None"),
    (M, "C14.child_error_wins", "an included configuration's error cannot be downgraded by the parent"),
    (M, "C14.last_rule_wins", "own verdict = action of the last applicable rule, whatever precedes it"),
    (M, "C14.default_error", "covered and no applicable rule: error"),
    (M, "C14.not_covered_none", "not covered by own paths for this locale: no own verdict"),
    (M, "C14.key_file_distinction", "keyed rules apply to entity queries only, key-less rules to file queries only"),
    (M, "C14.add_rules_spec", "add_rules appends the compiled rules in order"),
    (M, "C14.compile_rule_spec", "path/key lists expand to rules with the same action; some expansion applies iff some path and some key match"),
    (M, "C14.own_on_rule_dicts", "last-rule-wins read on the rule dictionaries as written"),
    (M, "C14.literal_key", "a literal key accepts exactly the equal entity key (and the key plus one trailing newline: the `$` caveat)"),
    (M, "C14.regex_key", "a `re:` key is the user's expression matched at the start of the entity key"),
    (M, "C14.cache_memo_sound", "the per-locale memo returns what a fresh computation returns when it was built from the current paths and rules"),
    (M, "C14.compare_respects_filter", "missing-entity loop: missing = #error keys, report = #warning keys, merged = error keys, shown = non-ignored keys"),
    (M, "C14.ignored_and_warning_keys", "ignored missing keys are neither counted, shown nor merged; warning ones are not merged and counted as report"),
    (M, "C14.compare_many_observers", "several observers: the comparer acts on the most severe answer"),
    # ---- the composed model: filter over the executable model of Matcher (verdicts as a function of the pattern TEXTS)
    (M, "C14.filterm_eq_filter", "the composed verdict (Matcher constructions, with_env({locale}), lazy match calls, raise sites kept) = abstract filter of the instantiated configuration: every theorem above holds for real pattern texts"),
    (M, "C14.filterm_raise_sites", "filter raises only if some Matcher construction / with_env / match of the configuration tree raises for this file"),
    (M, "C14.instantiate_spec", "the instantiated configuration: one abstract path/rule per pattern text, predicate = Matcher(text, environ, root).with_env({locale}).match(fullpath) is not None"),
    (M, "C14.literal_rule_applies", "a rule/l10n path whose pattern is a literal text applies to exactly that file path (root-relative when rooted); the match dict is EMPTY (fixed finding F14: falsy)"),
    (M, "C14.star_rule_scope", "a rule dir/*.ext applies to dir/x.ext iff x contains no '/', and then s1 = x (any environment, root, locale)"),
    (M, "C14.star_rule_general", "for every rule path with a top-level *: when it applies, the star's text has no '/' and the whole path was consumed (C12 on the bound matcher)"),
    (M, "C14.locale_binding", "{locale} is the queried file's locale: the matcher consulted binds locale to the file's locale whatever environ says, other variables as in environ; a matched top-level {locale} reports locale = file.locale"),
    (M, "C14.locale_binding_plain_env", "the shape hypothesis of locale_binding holds for every environment of texts without * and {"),
    (M, "C14.environ_locale_overridden", "an environ entry for 'locale' never reaches a verdict: cache() rebinds it for the queried file"),
    (M, "C14.own_last_rule_wins_texts", "own verdict of any node of a configuration tree, read on the texts: last applicable rule text wins"),
    (M, "C14.own_default_error_texts", "own verdict on texts: covered and no rule text applies: error"),
    (M, "C14.own_not_covered_texts", "own verdict on texts: no l10n pattern text matches: none"),
    (M, "C14.last_rule_wins_texts", "configuration without includes/excludes, on texts: the verdict is the action of the last applicable rule text"),
    (M, "C14.default_error_texts", "on texts: covered and no rule text applies: error"),
    (M, "C14.not_covered_ignore_texts", "on texts: no l10n pattern text matches: ignore"),
    (M, "C14.literal_rule_last_wins", "a literal rule at the end of the rule list decides the verdict of exactly its own file"),
    (M, "C14.star_rule_last_wins", "a rule dir/*.ext at the end of the rule list decides dir/x.ext for every '/'-free x"),
    (M, "C14.star_rule_stops_at_slash", "dir/*.ext as the only rule: dir/x.ext with a '/' in x gets the default error"),
    (M, "C14.ExamplesM.lazy_witness", "negation witness: a raising rule before the applicable one is never consulted (code returns, eager instantiation raises); after it the code raises"),
]
PARTIAL = [
    "composed model (FiltM): filterm_eq_filter is one-directional by necessity (lazy code may return where the eager "
    "instantiation raises: ExamplesM.lazy_witness); raising configurations are covered by the correspondence stream only",
    "concrete pattern classes proved exactly: literal texts and dir*suffix (no * / { in dir and suffix, dir non-empty), any "
    "environment/root/locale; {locale}: binding for every pattern, captured value for EnvOK environments and locale texts "
    "without specials; other pattern shapes (**, several wildcards, nested variables) reach verdict level through "
    "filterm_eq_filter + the C11/C12 theorems (star_rule_general), not through a closed-form 'applies iff'",
    "the text-level last-rule-wins/default/not-covered theorems assume that every matcher of the node returns for the file "
    "(hypothesis instantiate = ok); rule dictionaries with path/key LISTS are compiled by addRulesM (mirror of "
    "_compile_rule, tied by the c14.filterm correspondence), own_on_rule_dicts is not restated over texts",
]
LEVEL_TEXT = ("Lean 4 theorems over an executable transliteration of ProjectConfig._compile_rule/all_locales/cache/_filter/filter "
              "and of the missing-entity branch of Observer.notify/ObserverList.notify/ContentComparer.compare: for ALL configuration "
              "trees, files, keys, path predicates and key regexes the verdict equals an independent reference interpreter "
              "(locale test, exclude short-circuit, most severe of own and children, last applicable rule, error by default), with "
              "corollaries for last-rule-wins, key/file distinction, rule lists, literal vs re: keys and the comparer's counts/merge; "
              "the model is tied to the Python by bounded-exhaustive + random differential runs on real ProjectConfig objects and on "
              "real ContentComparer runs over files, and a separate Python reference interpreter judges the implementation directly; "
              "COMPOSED with the executable model of paths/matcher.py (C11/C12): CLModel/Paths/FilterM.lean builds every Matcher from its "
              "pattern TEXT, environment and root, binds {locale} as cache() does and calls match lazily with the raise sites kept; "
              "filterm_eq_filter proves the composed verdict equal to the abstract one, so all theorems hold for real pattern texts, and "
              "the claims are restated over concrete patterns (literal paths, dir/*.ext, {locale}); the composed model is tied to the real "
              "ProjectConfig.filter by its own correspondence stream that sends pattern texts (no table from the real Matcher), including "
              "rooted configurations, Android locale codes and matchers that raise")
LEVEL_NOTE = ("trusted: Lean kernel; hand-written models CLModel/Paths/Filter.lean, CLModel/Paths/FilterM.lean, CLModel/Paths/Matcher.lean and "
              "CLModel/Compare/MissingFilter.lean (validated by correspondence); in the `c14.filter` / `c14.compare` streams path matching "
              "(Matcher) is an abstract predicate filled from the real Matcher per case; in the composed `c14.filterm` stream Matcher is NOT "
              "abstract: the driver receives the pattern texts, environment and root and runs the model of Matcher (parse, with_env, regex "
              "construction, Rx engine), exceptions compared by class; Pattern.root is passed as Matcher stores it (mozpath.abspath(root)+'/': "
              "the os.path normalisation is outside the model); the oracle uses its own few-line pattern semantics; user key regexes run on the Rx "
              "engine (validated differentially); legacy filter.py configurations and files with locale None are outside the model "
              "(None-locale files are judged by the oracle only); literal keys also match the key followed by one newline (proved, "
              "probed, not judged: entity keys contain no newline); configurations are built completely before they are queried "
              "(add_paths/add_rules after a filter() call leave a stale cache)")
TECHNIQUE = "Lean 4 proof (model = reference interpreter) + differential correspondence on real ProjectConfig/ContentComparer + independent Python oracle"
TRUSTED = [
    "hand-written model CLModel/Paths/Filter.lean of ProjectConfig (tied by the `c14.filter` correspondence)",
    "hand-written model CLModel/Compare/MissingFilter.lean of the missing-entity branch (tied by the `c14.compare` correspondence)",
    "hand-written model CLModel/Paths/FilterM.lean (composition with CLModel/Paths/Matcher.lean; tied by the `c14.filterm` correspondence on pattern texts)",
    "Matcher is abstract in the `c14.filter`/`c14.compare` streams (its extension on the case's universe comes from the real Matcher); it is the executable model of C11/C12 in the composed stream",
    "Python sets of actions modelled as lists used through membership only",
]
ASSUMPTIONS = [
    "configurations are completely built (paths, rules, children, excludes, locales) before the first filter() call",
    "entity keys contain no newline; file.locale is a string for the model (None is judged by the oracle: ignore)",
    "filter_py (legacy filter.py) is not set",
]

LOCS = ["de", "fr", "ja"]
RELS = ["browser/a.ftl", "browser/b.properties", "browser/sub/c.ftl", "toolkit/a.ftl", "toolkit/sub/deep/d.dtd"]
ENTITIES = [None, "one", "two", "one_more", "re:x", "", "one\n"]
LIT_KEYS = ["one", "two", "one_more", "on", "one_", "", "re", "o.e", "two "]
RE_KEYS = ["re:one", "re:one$", "re:.*", "re:o", "re:(one|two)$", "re:[a-z]+_more", "re:", "re:x", "re:.+", "re:one_?",
           "re:re:x", "re:\\w+$", "re:t.o", "re:(?!one)", "re:o.e$", "re:one\\Z"]
V, S, SS, SSD = ["var", "locale"], ["star"], ["starstar", ""], ["starstar", "/"]


def fp(loc, rel, base="/src"):
    return "%s/%s/%s" % (base, loc, rel)


def std_files():
    fs = [{"fullpath": fp(l, r), "locale": l} for l in LOCS for r in RELS]
    fs += [{"fullpath": fp("de", RELS[0]), "locale": "fr"}, {"fullpath": fp("fr", RELS[1]), "locale": "de"},
           {"fullpath": fp("und", RELS[0]), "locale": "und"}, {"fullpath": fp("de", RELS[0]), "locale": "und"},
           {"fullpath": fp("de", RELS[3]), "locale": None}, {"fullpath": "/other/de/browser/a.ftl", "locale": "de"}]
    return fs


def gen_pat(rng, env, base="/src", rels=RELS):
    if "l10n_base" in env and rng.random() < 0.7:
        out = [["var", "l10n_base"], "/"]
    else:
        out = [base + "/"]
    x = rng.random()
    out.append(V if x < 0.75 else ("de" if x < 0.87 else S))
    rel = rng.choice(rels)
    d, f = rel.rsplit("/", 1)
    top = d.split("/")[0]
    ext = f.rsplit(".", 1)[1]
    rest = rng.choice([
        ["/", SS], ["/", SS], ["/" + top + "/", SS], ["/" + top + "/", SS], ["/", S, "/" + f], ["/", SSD, f],
        ["/" + top + "/", S, "." + ext], ["/" + rel], ["/", SSD, S, "." + ext], ["/", S, "/sub/", SS],
        ["/" + top + "/", S], ["/" + d + "/", S], ["/", SSD, "sub/", SS], ["/", S, "/", S],
    ])
    # merge adjacent literals
    toks = []
    for t in out + rest:
        if isinstance(t, str) and toks and isinstance(toks[-1], str):
            toks[-1] += t
        else:
            toks.append(t)
    return toks


CMP_LIT = ["one", "two", "one_more", "three", "k4", "x5", "key6", "on", "one ", ""]
CMP_RE = ["re:one", "re:.*", "re:o", "re:k", "re:t", "re:(one|two)$", "re:[a-z]+\\d", "re:.+_", "re:", "re:x5$", "re:key", "re:on$",
          "re:(?!one)", "re:\\w+e$", "re:k.y"]


def gen_key(rng, cmp=False):
    lit, rx = (CMP_LIT, CMP_RE) if cmp else (LIT_KEYS, RE_KEYS)
    x = rng.random()
    if x < 0.45:
        return rng.choice(lit)
    if x < 0.8:
        return rng.choice(rx)
    return [rng.choice(lit + rx) for _ in range(rng.randrange(1, 4))]


def gen_rule(rng, env, base, rels, cmp=False):
    r = {"action": rng.choices(["error", "warning", "ignore"], [15, 42, 43] if cmp else [25, 35, 40])[0]}
    if rng.random() < 0.2:
        r["path"] = [gen_pat(rng, env, base, rels) for _ in range(rng.randrange(1, 3))]
        r["path_is_list"] = True
    else:
        r["path"] = gen_pat(rng, env, base, rels)
    if cmp and not r.get("path_is_list") and rng.random() < 0.6:
        r["path"] = rng.choice([[["var", "l10n_base"], "/", V, "/", SS], [["var", "l10n_base"], "/", V, "/", SSD, S, "." + rels[0].rsplit(".", 1)[1]],
                                [["var", "l10n_base"], "/", V, "/" + rels[0]]])
    if rng.random() < (0.85 if cmp else 0.6):
        r["key"] = gen_key(rng, cmp)
    return r


def gen_locales(rng, none_p=0.25):
    if rng.random() < none_p:
        return None
    ls = [l for l in LOCS if rng.random() < 0.7]
    if rng.random() < 0.05:
        ls.append("und")
    rng.shuffle(ls)
    return ls


def gen_cfg(rng, depth, maxdepth, top=True, base="/src", rels=RELS, cover=False):
    env = {"l10n_base": base} if (rng.random() < 0.4 or base != "/src") else {}
    spec = {"locales": gen_locales(rng, 0.1 if top else 0.3), "env": env, "paths": [], "rules": [], "children": [], "excludes": []}
    for i in range(rng.choice([0, 1, 1, 1, 2, 2, 3])):
        p = {"l10n": gen_pat(rng, env, base, rels)}
        if cover and i == 0 and rng.random() < 0.8:
            p["l10n"] = [["var", "l10n_base"], "/", V, "/", SS] if env else [base + "/", V, "/", SS]
        if rng.random() < 0.25:
            p["locales"] = gen_locales(rng, 0.0)
        spec["paths"].append(p)
    for _ in range(rng.choice([1, 2, 3, 3, 4, 5] if cover else [0, 1, 1, 2, 2, 3, 4])):
        spec["rules"].append(gen_rule(rng, env, base, rels, cover))
    if depth < maxdepth:
        for _ in range(rng.choice([0, 0, 1, 1, 2])):
            spec["children"].append(gen_cfg(rng, depth + 1, maxdepth, False, base, rels, cover))
    if top:
        for _ in range(rng.choice([0, 0, 0, 0, 0, 0, 1] if cover else [0, 0, 0, 1, 1, 2])):
            spec["excludes"].append(gen_cfg(rng, depth + 1, maxdepth, False, base, rels, cover and rng.random() < 0.5))
    return spec


def node(paths, rules=(), locales=("de", "fr"), children=(), excludes=()):
    return {"locales": None if locales is None else list(locales), "env": {},
            "paths": [dict(p) for p in paths], "rules": [dict(r) for r in rules],
            "children": list(children), "excludes": list(excludes)}


def exhaustive_rule_lists(ctx):
    """one configuration covering /src/{locale}/**, ALL rule lists up to a length over a rule alphabet"""
    P_ALL = ["/src/", V, "/", SS]
    if ctx.tier == "quick":
        paths = [["/src/", V, "/browser/", SS], ["/src/", V, "/", SSD, "a.ftl"], ["/src/de/", SS]]
        keys = [None, "one", "re:o", ["one", "two"]]
        maxlen = 2
    else:
        paths = [["/src/", V, "/browser/", SS], ["/src/", V, "/", SSD, "a.ftl"], ["/src/de/", SS]]
        keys = [None, "one", "re:o", ["one", "two"]]
        maxlen = 3
    acts = ["error", "warning", "ignore"]
    alphabet = []
    for p in paths:
        for k in keys:
            for a in acts:
                r = {"path": p, "action": a}
                if k is not None:
                    r["key"] = k
                alphabet.append(r)
    if ctx.tier != "quick":
        alphabet = [r for i, r in enumerate(alphabet) if i % 2 == 0 or "key" not in r]   # 3-lists over a thinner alphabet
    files = [{"fullpath": fp(l, r), "locale": l} for l in ("de", "fr") for r in (RELS[0], RELS[3], RELS[1])]
    files.append({"fullpath": fp("ja", RELS[0]), "locale": "ja"})
    ents = [None, "one", "two", "ox"]
    cases = []
    # patterns without any variable or wildcard (Matcher.match returns an empty dict for them)
    lit = [fp("de", RELS[0])]
    cases.append((node([{"l10n": P_ALL}], [{"path": lit, "action": "ignore"}]), files, ents))
    cases.append((node([{"l10n": P_ALL}], [{"path": lit, "key": "one", "action": "warning"}]), files, ents))
    cases.append((node([{"l10n": lit}], []), files, ents))
    for n in range(maxlen + 1):
        for rules in itertools.product(alphabet, repeat=n):
            cases.append((node([{"l10n": P_ALL}], rules), files, ents))
    return cases


def exhaustive_nesting(ctx):
    """parent x child x child x exclude over node templates"""
    B, T = ["/src/", V, "/browser/", SS], ["/src/", V, "/toolkit/", SS]
    tmpl = [
        lambda: node([{"l10n": T}]),
        lambda: node([{"l10n": B}]),
        lambda: node([{"l10n": B}], [{"path": B, "action": "warning"}]),
        lambda: node([{"l10n": B}], [{"path": B, "action": "ignore"}]),
        lambda: node([{"l10n": B}], [{"path": B, "key": "one", "action": "ignore"}]),
        lambda: node([{"l10n": B}], [{"path": B, "key": "re:.*", "action": "warning"}]),
        lambda: node([{"l10n": B, "locales": ["fr"]}], locales=None),
        lambda: node([{"l10n": B}], [{"path": B, "action": "ignore"}, {"path": B, "key": "re:", "action": "ignore"}], locales=("de",)),
    ]
    opt = [None] + tmpl
    files = [{"fullpath": fp(l, r), "locale": l} for l in ("de", "fr") for r in (RELS[0], RELS[3])]
    ents = [None, "one", "two"]
    cases = []
    excl_opts = opt if ctx.tier != "quick" else opt[:6] + opt[7:]
    for p in tmpl:
        for c1 in opt:
            for c2 in (opt if ctx.tier != "quick" else opt[:5]):
                for e in excl_opts:
                    spec = p()
                    spec["children"] = [c() for c in (c1, c2) if c is not None]
                    spec["excludes"] = [e()] if e is not None else []
                    cases.append((spec, files, ents))
    return cases


def spec_stats(spec, depth=1):
    d, n, nr = depth, 1, len(spec["rules"])
    for c in spec["children"] + spec["excludes"]:
        d2, n2, nr2 = spec_stats(c, depth + 1)
        d, n, nr = max(d, d2), n + n2, nr + nr2
    return d, n, nr


KEYPOOL = ["one", "two", "one_more", "three", "k4", "x5", "key6", "on"]
CMP_RELS = [("browser/a.properties", "properties"), ("browser/sub/c.ftl", "ftl"), ("toolkit/d.dtd", "dtd"), ("toolkit/e.ini", "ini")]


def gen_compare(rng):
    rel, fmt = rng.choice(CMP_RELS)
    if rng.random() < 0.5:
        rel, fmt = CMP_RELS[0]
    locale = rng.choice(LOCS)
    ref_keys = rng.sample(KEYPOOL, rng.randrange(3, 8))
    l10n_keys = [k for k in ref_keys if rng.random() < 0.35]
    if rng.random() < 0.3:
        l10n_keys.append("obsolete1")
    x = rng.random()
    nobs = 1 if x < 0.8 else 2
    specs = []
    for _ in range(nobs):
        s = gen_cfg(rng, 1, rng.choice([1, 1, 2]), True, PR.ROOT_PLACEHOLDER, [rel, rel, rel, "browser/zz.properties"], cover=True)
        if s["locales"] is not None and locale not in s["locales"] and rng.random() < 0.8:
            s["locales"].append(locale)
        specs.append(s)
    if x > 0.95:
        specs[-1] = None
    return [specs, locale, rel, ref_keys, l10n_keys, fmt]



# ------------------------------------------------------------------ composed stream only: roots, Android codes, raising matchers
LOCS_M = ["de", "fr", "he-IL", "sr-Latn"]
RELS_M = ["browser/a.ftl", "browser/sub/c.ftl", "toolkit/a.ftl"]
ENTS_M = [None, "one", "two"]
# pattern texts whose Matcher raises when it is used (kept as ONE literal token: pat_str passes them through)
RAISE_ROOTED = ["*/browser/a.ftl", "**/a.ftl", "{nobody}/browser/**"]      # KeyError, KeyError, MissingEnvironment (rooted only)
RAISE_ANY = ["/src/{dup}/{locale}/**", "/src/{locale}/*/{s1}"]              # re.error (group defined twice / unknown reference)


def files_m():
    fs = []
    for l in LOCS_M:
        for base in ("/cfg/", "/cfg/l10n/", "/cfg/sub/", "/src/"):
            for r in RELS_M[:2] if base != "/src/" else RELS_M:
                fs.append({"fullpath": base + l + "/" + r, "locale": l})
        fs.append({"fullpath": "/src/res/values-%s/strings.xml" % PR.ref_android(l), "locale": l})
    fs.append({"fullpath": "/src/res/values-iw-rIL/strings.xml", "locale": "de"})
    fs.append({"fullpath": "/cfg/de/browser/a.ftl", "locale": "fr"})
    return fs


def gen_pat_m(rng, env, root, raising):
    if raising and rng.random() < 0.12:
        return [rng.choice(RAISE_ROOTED + RAISE_ANY if root else RAISE_ANY)]
    x = rng.random()
    if x < 0.12:
        return ["/src/res/values-", ["var", "android_locale"], "/strings.xml"]
    if root and x < 0.7:
        out = [rng.choice(["", "", "l10n/"])]
        if "rel_base" in env and rng.random() < 0.5:
            out = [["var", "rel_base"], "/"]
    elif "l10n_base" in env and rng.random() < 0.6:
        out = [["var", "l10n_base"], "/"]
    else:
        out = ["/src/"]
    y = rng.random()
    out.append(V if y < 0.8 else ("de" if y < 0.92 else S))
    if out[0] == "" and out[1] is S:
        out[1] = V        # a rooted pattern must not begin with a wildcard (finding F11: it raises)
    rel = rng.choice(RELS_M)
    d, f = rel.rsplit("/", 1)
    top = d.split("/")[0]
    ext = f.rsplit(".", 1)[1]
    rest = rng.choice([["/", SS], ["/" + top + "/", SS], ["/", S, "/" + f], ["/", SSD, f], ["/" + top + "/", S, "." + ext],
                       ["/" + rel], ["/", SSD, S, "." + ext], ["/" + d + "/", S]])
    toks = []
    for t in out + rest:
        if t == "":
            continue
        if isinstance(t, str) and toks and isinstance(toks[-1], str):
            toks[-1] += t
        else:
            toks.append(t)
    return toks


def gen_cfg_m(rng, depth, maxdepth, raising, top=True):
    root = rng.choice([None, "/cfg", "/cfg", "/cfg/sub"])
    env = {}
    if rng.random() < 0.5:
        env["l10n_base"] = "/src"
    if root and rng.random() < 0.4:
        env["rel_base"] = "l10n"
    if raising:
        env["dup"] = "{locale}x"
    if rng.random() < 0.15:
        env["locale"] = "zz"            # cache() overrides it with the file's locale
    locales = None if rng.random() < (0.1 if top else 0.3) else [l for l in LOCS_M if rng.random() < 0.8]
    spec = {"locales": locales, "env": env, "paths": [], "rules": [], "children": [], "excludes": []}
    if root:
        spec["root"] = root
    for i in range(rng.choice([1, 1, 2, 2, 3])):
        p = {"l10n": gen_pat_m(rng, env, root, raising)}
        if i == 0 and rng.random() < 0.5:
            # a broad first path, so that the rules are reached
            p["l10n"] = ([V, "/", SS] if rng.random() < 0.5 else ["l10n/", V, "/", SS]) if root and rng.random() < 0.7 else ["/src/", V, "/", SS]
        if rng.random() < 0.25:
            p["locales"] = [l for l in LOCS_M if rng.random() < 0.6]
        spec["paths"].append(p)
    for _ in range(rng.choice([0, 1, 2, 2, 3, 4])):
        r = {"action": rng.choice(["error", "warning", "warning", "ignore", "ignore"])}
        if rng.random() < 0.2:
            r["path"] = [gen_pat_m(rng, env, root, raising) for _ in range(rng.randrange(1, 3))]
            r["path_is_list"] = True
        else:
            r["path"] = gen_pat_m(rng, env, root, raising)
            if spec["paths"] and rng.random() < 0.35:
                r["path"] = spec["paths"][0]["l10n"]      # a rule for everything the first path covers
        if rng.random() < 0.5:
            r["key"] = rng.choice(["one", "re:o", "re:t", ["one", "two"]])
        spec["rules"].append(r)
    if depth < maxdepth:
        for _ in range(rng.choice([0, 0, 1, 2])):
            spec["children"].append(gen_cfg_m(rng, depth + 1, maxdepth, raising, False))
    if top:
        for _ in range(rng.choice([0, 0, 0, 1])):
            spec["excludes"].append(gen_cfg_m(rng, depth + 1, maxdepth, raising, False))
    return spec


def directed_m():
    """small fixed configurations of the composed stream: literal path, star scope, {locale} binding, laziness of
    the raise sites (a raising rule before / after the applicable one, a raising l10n path after a matching one,
    an included configuration answering error before the own matchers are consulted)"""
    cover = {"l10n": ["/src/", V, "/", SS]}
    lit = {"path": ["/src/de/browser/a.ftl"], "action": "ignore"}
    star = {"path": ["/src/", V, "/browser/", S, ".ftl"], "action": "warning"}
    boom = {"path": ["/src/{dup}/{locale}/**"], "action": "ignore"}
    env = {"dup": "{locale}x"}
    out = []
    for rules in ([lit], [star], [lit, star], [star, lit], [boom, star], [star, boom], [boom], [lit, boom]):
        n = node([cover], rules)
        n["env"] = dict(env)
        out.append((n, False))
    n = node([cover, {"l10n": ["/src/{dup}/{locale}/**"]}], [star]); n["env"] = dict(env); out.append((n, False))
    n = node([{"l10n": ["/src/{dup}/{locale}/**"]}, cover], [star]); n["env"] = dict(env); out.append((n, False))
    child_err = node([cover], [])
    n = node([{"l10n": ["/src/{dup}/{locale}/**"]}], [], children=[child_err]); n["env"] = dict(env); out.append((n, False))
    n = node([{"l10n": ["*/browser/a.ftl"]}], []); n["root"] = "/cfg"; out.append((n, False))
    n = node([{"l10n": [V, "/browser/", S, ".ftl"]}], [{"path": ["de/browser/a.ftl"], "action": "ignore"}]); n["root"] = "/cfg"; out.append((n, True))
    return out

def _retry(fn, a, r):
    """a worker that did not answer in time (loaded machine) is not a finding: run the case in-process"""
    if r is not None and "r" in r:
        return r
    if r is not None and r.get("exc") != "Hang":
        return r
    try:
        return {"r": fn(*a)}
    except Exception as e:   # noqa
        return {"exc": type(e).__name__, "msg": str(e)[:300]}


def digest(s):
    return hashlib.sha1(s.encode()).hexdigest()[:16]


def run(ctx):
    out = Outcome()
    out.rule = ("filter: (a) ALL rule lists up to length 2 (quick) / 3 (thorough) over a rule alphabet (3 paths x {no key, literal, re:, key list} x 3 actions) "
                "in one covering configuration, (b) ALL parent x child x child x exclude combinations over 8 node templates, (c) seeded random "
                "configurations nested 1-3 levels (children, excludes with children, per-config and per-path locales, env variables, 0-4 rules with "
                "wildcard/variable paths, path lists, literal/regex/list keys); every case answers ALL (file, entity) queries of its universe on one "
                "object in shuffled file order and again on a fresh object. compare: seeded random reference/localized file pairs "
                "(properties, ftl, dtd, ini) under 1-2 observers with generated configurations. non-trivial = a case whose verdict vector "
                "contains at least two different verdicts; distinct = distinct (case, verdict vector)")
    rng = ctx.rng("c14")
    cases = []
    for spec, files, ents in exhaustive_rule_lists(ctx):
        cases.append(("rules", spec, files, ents))
    for spec, files, ents in exhaustive_nesting(ctx):
        cases.append(("nest", spec, files, ents))
    sf = std_files()
    for _ in range(ctx.n(1200, 16000)):
        spec = gen_cfg(rng, 1, rng.choice([1, 2, 2, 3, 3]))
        cases.append(("random", spec, sf, ENTITIES))
    args = []
    for kind, spec, files, ents in cases:
        ne = len(ents)
        forder = list(range(len(files)))
        rng.shuffle(forder)
        order = [f * ne + e for f in forder for e in range(ne)]
        args.append([spec, files, ents, order])
    res = pool.pmap("impl.project", "filter_case", args, timeout=20.0, batch=24)
    res = [_retry(PR.filter_case, a, r) for a, r in zip(args, res)]
    lines, keep = [], []
    for i, r in enumerate(res):
        if r is None or "r" not in r:
            # the adapter failed: an exception escaping ProjectConfig is a finding candidate, anything else is ours
            out.violations.append({"what": "filter case raised %s" % (r,), "input": {"spec": args[i][0]}, "op": "filter-crash"})
            continue
        lines.append(r["r"]["line"])
        keep.append(i)
    model = C.run_driver_parallel(lines) if ctx.model_ok else [None] * len(lines)
    for j, i in enumerate(keep):
        kind, spec, files, ents = cases[i]
        r = res[i]["r"]
        ne = len(ents)
        impl = r["impl"]
        out.evaluations += len(impl)
        for ch in impl:
            out.count("filter.verdict." + ch)
        d, n, nr = spec_stats(spec)
        out.count("filter.%s.depth%d" % (kind, d))
        if len(set(impl)) >= 2:
            out.nontrivial.add((digest(r["line"]), impl))
        if len(out.samples) < 3 and kind == "random" and len(set(impl)) == 3 and d >= 2:
            out.samples.append({"op": "filter", "config": spec, "verdicts(e/w/i per file x entity)": impl})
        bad = False
        tagged = [o for o in r["oracle"] if o[3]]
        for q, exp, got, fnd in [o for o in r["oracle"] if not o[3]][:3] + tagged[:1]:
            bad = True
            v = {"what": "filter verdict %s, reference semantics say %s" % (got, exp), "op": "filter",
                 "input": {"spec": spec, "file": files[q // ne], "entity": ents[q % ne]}, "expected": exp, "got": got}
            if fnd:
                v["finding"] = fnd
                v["what"] += " (a path pattern without variable or wildcard is treated as not matching)"
            out.violations.append(v)
        for q in r["history"][:2]:
            bad = True
            out.violations.append({"what": "verdict depends on the query history (used object vs fresh object)", "op": "filter-history",
                                   "input": {"spec": spec, "file": files[q // ne], "entity": ents[q % ne], "order": args[i][3]}})
        mo = model[j]
        if mo is not None and not bad:
            sub = "".join(impl[q] for q in r["model_queries"])
            if mo != sub:
                qs = [q for q, a, b in zip(r["model_queries"], sub, mo) if a != b] if len(mo) == len(sub) else []
                out.disagreements.append({"op": "filter", "spec": spec, "impl": sub, "model": mo,
                                          "first_query": ({"file": files[qs[0] // ne], "entity": ents[qs[0] % ne]} if qs else None)})
    # ---------------------------------------------------------------- composed model (pattern texts, no Matcher table)
    # (a) the same cases: the driver gets the pattern texts, environment and root and runs the model of Matcher itself
    linesm = [res[i]["r"]["line_m"] for i in keep]
    modelm = C.run_driver_parallel(linesm) if ctx.model_ok else [None] * len(linesm)
    for j, i in enumerate(keep):
        r = res[i]["r"]
        mo = modelm[j]
        if mo is None or r["oracle"] or r["history"]:
            continue
        sub = "".join(r["implm"][q] for q in r["model_queries"])
        out.count("filterm.same-cases")
        if mo != sub:
            kind, spec, files, ents = cases[i]
            ne = len(ents)
            qs = [q for q, a, b in zip(r["model_queries"], sub, mo) if a != b] if len(mo) == len(sub) else []
            out.disagreements.append({"op": "filterm", "spec": spec, "impl": sub, "model": mo,
                                      "first_query": ({"file": files[qs[0] // ne], "entity": ents[qs[0] % ne]} if qs else None)})
    # (b) cases of the composed stream only: rooted configurations, Android codes, an environment that binds "locale",
    #     matchers that raise (judged by the reference interpreter where it defines an answer)
    rngm = ctx.rng("c14", "filterm")
    fm = files_m()
    mcases = [(spec, judge) for spec, judge in directed_m()]
    for k in range(ctx.n(500, 6000)):
        raising = k % 3 == 0
        mcases.append((gen_cfg_m(rngm, 1, rngm.choice([1, 2, 2, 3]), raising), not raising))
    margs = [[spec, fm, ENTS_M, judge] for spec, judge in mcases]
    mres = pool.pmap("impl.project", "filterm_case", margs, timeout=20.0, batch=24)
    mres = [_retry(PR.filterm_case, a, r) for a, r in zip(margs, mres)]
    mlines, mkeep = [], []
    for i, r in enumerate(mres):
        if r is None or "r" not in r:
            out.violations.append({"what": "filterm case raised %s" % (r,), "input": {"spec": margs[i][0]}, "op": "filter-crash"})
            continue
        mlines.append(r["r"]["line_m"])
        mkeep.append(i)
    mmodel = C.run_driver_parallel(mlines) if ctx.model_ok else [None] * len(mlines)
    ne = len(ENTS_M)
    for j, i in enumerate(mkeep):
        spec, judge = mcases[i]
        r = mres[i]["r"]
        impl = r["implm"]
        out.evaluations += len(impl)
        for ch in impl:
            out.count("filterm.answer." + ch)
        if len(set(impl)) >= 2:
            out.nontrivial.add(("m", digest(r["line_m"]), impl))
        bad = False
        for q, exp, got, _ in r["oracle"][:3]:
            bad = True
            out.violations.append({"what": "filter verdict %s, reference semantics say %s" % (got, exp), "op": "filter",
                                   "input": {"spec": spec, "file": fm[q // ne], "entity": ENTS_M[q % ne]}, "expected": exp, "got": got})
        for q in r["history"][:2]:
            bad = True
            out.violations.append({"what": "answer depends on the query history (forward vs backward order on fresh objects)", "op": "filterm-history",
                                   "input": {"spec": spec, "file": fm[q // ne], "entity": ENTS_M[q % ne]}})
        mo = mmodel[j]
        if mo is not None and not bad and mo != impl:
            qs = [q for q, (a, b) in enumerate(zip(impl, mo)) if a != b] if len(mo) == len(impl) else []
            out.disagreements.append({"op": "filterm", "spec": spec, "impl": impl, "model": mo,
                                      "first_query": ({"file": fm[qs[0] // ne], "entity": ENTS_M[qs[0] % ne]} if qs else None)})
    # ---------------------------------------------------------------- compare link
    rngc = ctx.rng("c14", "compare")
    cargs = [gen_compare(rngc) for _ in range(ctx.n(500, 6000))]
    cres = pool.pmap("impl.project", "compare_case", cargs, timeout=20.0, batch=16)
    cres = [_retry(PR.compare_case, a, r) for a, r in zip(cargs, cres)]
    clines, ckeep = [], []
    for i, r in enumerate(cres):
        if r is None or "r" not in r:
            out.violations.append({"what": "compare case raised %s" % (r,), "input": {"case": cargs[i]}, "op": "compare-crash"})
            continue
        clines.append(r["r"]["line"])
        ckeep.append(i)
    cmodel = C.run_driver_parallel(clines) if ctx.model_ok else [None] * len(clines)
    for j, i in enumerate(ckeep):
        r = cres[i]["r"]
        out.evaluations += 1
        out.count("compare.classes=%d" % r["classes"])
        if r["classes"] >= 2:
            out.nontrivial.add(("cmp", digest(r["line"]), r["impl"]))
        if len(out.samples) < 6 and r["classes"] == 3:
            out.samples.append({"op": "compare", "case": cargs[i][1:], "verdicts": r["verdicts"], "result": r["impl"]})
        for msg in r["oracle"][:3]:
            v = {"what": "compare: " + msg, "op": "compare", "input": {"case": cargs[i]}, "result": r["impl"]}
            if r.get("finding"):
                v["finding"] = r["finding"]
            out.violations.append(v)
        mo = cmodel[j]
        if mo is not None and not r["oracle"]:
            if not r["can_merge"]:
                mo = re.sub(r" M=\S*", " M=n/a", mo)
            if mo != r["impl"]:
                out.disagreements.append({"op": "compare", "case": cargs[i], "impl": r["impl"], "model": mo})
    out.violations = [v for v in out.violations if not v.get("finding")][:200] + [v for v in out.violations if v.get("finding")][:20]
    out.disagreements = out.disagreements[:200]
    return out


def classify(v):
    return v.get("finding")


def replay(payload):
    res = []
    for v in payload.get("violations", []):
        i = v.get("input", {})
        if v.get("op") == "filter":
            got, exp = PR.filter_verdicts(i["spec"], [i["file"]], [i["entity"]])[0]
            res.append({"input": i, "implementation": got, "reference": exp, "violates": got != exp})
        elif v.get("op") == "compare":
            r = PR.compare_case(*i["case"])
            res.append({"input": i, "result": r["impl"], "oracle": r["oracle"], "violates": bool(r["oracle"])})
        elif v.get("op") == "filter-history":
            r = PR.filter_case(i["spec"], [i["file"]], [i["entity"]], [0])
            res.append({"input": i, "violates": bool(r["history"] or r["oracle"])})
        elif v.get("op") == "filterm-history":
            r = PR.filterm_case(i["spec"], files_m(), ENTS_M, False)
            res.append({"input": i, "violates": bool(r["history"])})
    return {"violates": any(r["violates"] for r in res), "cases": res}

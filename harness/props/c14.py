"""C14 — Filter verdicts follow last-rule-wins and most-severe-wins."""
import hashlib
import itertools
import json
import re

from lib import common as C
from lib import pool
from lib.runner import Outcome
from impl import project as PR

ID = "C14"
LEAN_TARGETS = ["CLModel.Props.C14"]
# the composed model (FiltM) also follows paths/matcher.py: a change there raises this check's search budget too
EXTRA_FILES = ("compare_locales/paths/matcher.py", "compare_locales/paths/configparser.py")
M = "CLModel.Props.C14"
THEOREMS = [
    (M, "C14.filter_spec", "config.filter (loop, break, action sets, early returns, cache) = reference interpreter of the documented semantics, for every configuration tree, file and key"),
    (M, "C14.all_locales_spec", "`locale in all_locales` = some configuration of the project (not the excluded ones) or one of its paths names the locale"),
    (M, "C14.locale_not_covered", "a locale the project does not name is ignored"),
    (M, "C14.path_not_covered", "a path covered by no configuration is ignored"),
    (M, "C14.exclude_short_circuit", "an excluded configuration reporting the FILE as error makes the parent ignore the file and all its entities"),
    (M, "C14.exclude_test", "the exclude test is `exclude.filter(file) == error` on the file query"),
    (M, "C14.most_severe_wins", "without exclusion _filter = most severe of own verdict and the children's"),
    (M, "C14.severity_lattice", "mostSevere is the maximum for error > warning > ignore > None"),
    (M, "C14.child_error_wins", "an included configuration's error cannot be downgraded by the parent"),
    (M, "C14.last_rule_wins", "own verdict = action of the last applicable rule, whatever precedes it"),
    (M, "C14.default_error", "covered and no applicable rule: error"),
    (M, "C14.not_covered_none", "not covered by own paths for this locale: no own verdict"),
    (M, "C14.key_file_distinction", "keyed rules apply to entity queries only, key-less rules to file queries only"),
    (M, "C14.add_rules_spec", "add_rules appends the compiled rules in order"),
    (M, "C14.compile_rule_spec", "path/key lists expand to rules with the same action; some expansion applies iff some path and some key match"),
    (M, "C14.own_on_rule_dicts", "last-rule-wins read on the rule dictionaries as written"),
    (M, "C14.literal_key", "a literal key accepts exactly the equal entity key (and the key plus one trailing newline: the `$` caveat)"),
    (M, "C14.regex_key", "a `re:` key is the user's expression matched at the start of the entity key"),
    (M, "C14.cache_memo_sound", "the per-locale memo returns what a fresh computation returns when it was built from the current paths and rules"),
    (M, "C14.compare_respects_filter", "missing-entity loop: missing = #error keys, report = #warning keys, merged = error keys, shown = non-ignored keys"),
    (M, "C14.ignored_and_warning_keys", "ignored missing keys are neither counted, shown nor merged; warning ones are not merged and counted as report"),
    (M, "C14.compare_many_observers", "several observers: the comparer acts on the most severe answer"),
    # ---- the composed model: filter over the executable model of Matcher (verdicts as a function of the pattern TEXTS)
    (M, "C14.filterm_eq_filter", "the composed verdict (Matcher constructions, with_env({locale}), lazy match calls, raise sites kept) = abstract filter of the instantiated configuration: every theorem above holds for real pattern texts"),
    (M, "C14.filterm_raise_sites", "filter raises only if some Matcher construction / with_env / match of the configuration tree raises for this file"),
    (M, "C14.instantiate_spec", "the instantiated configuration: one abstract path/rule per pattern text, predicate = Matcher(text, environ, root).with_env({locale}).match(fullpath) is not None"),
    (M, "C14.literal_rule_applies", "a rule/l10n path whose pattern is a literal text applies to exactly that file path (root-relative when rooted); the match dict is EMPTY (fixed finding F14: falsy)"),
    (M, "C14.star_rule_scope", "a rule dir/*.ext applies to dir/x.ext iff x contains no '/', and then s1 = x (any environment, root, locale)"),
    (M, "C14.star_rule_general", "for every rule path with a top-level *: when it applies, the star's text has no '/' and the whole path was consumed (C12 on the bound matcher)"),
    (M, "C14.locale_binding", "{locale} is the queried file's locale: the matcher consulted binds locale to the file's locale whatever environ says, other variables as in environ; a matched top-level {locale} reports locale = file.locale"),
    (M, "C14.locale_binding_plain_env", "the shape hypothesis of locale_binding holds for every environment of texts without * and {"),
    (M, "C14.environ_locale_overridden", "an environ entry for 'locale' never reaches a verdict: cache() rebinds it for the queried file"),
    (M, "C14.own_last_rule_wins_texts", "own verdict of any node of a configuration tree, read on the texts: last applicable rule text wins"),
    (M, "C14.own_default_error_texts", "own verdict on texts: covered and no rule text applies: error"),
    (M, "C14.own_not_covered_texts", "own verdict on texts: no l10n pattern text matches: none"),
    (M, "C14.last_rule_wins_texts", "configuration without includes/excludes, on texts: the verdict is the action of the last applicable rule text"),
    (M, "C14.default_error_texts", "on texts: covered and no rule text applies: error"),
    (M, "C14.not_covered_ignore_texts", "on texts: no l10n pattern text matches: ignore"),
    (M, "C14.literal_rule_last_wins", "a literal rule at the end of the rule list decides the verdict of exactly its own file"),
    (M, "C14.star_rule_last_wins", "a rule dir/*.ext at the end of the rule list decides dir/x.ext for every '/'-free x"),
    (M, "C14.star_rule_stops_at_slash", "dir/*.ext as the only rule: dir/x.ext with a '/' in x gets the default error"),
    (M, "C14.ExamplesM.lazy_witness", "negation witness: a raising rule before the applicable one is never consulted (code returns, eager instantiation raises); after it the code raises"),
    # ---- round 4: filter ∘ Observer ∘ ContentComparer at every quiet level
    (M, "C14.notify_verdict_quiet_free", "Observer.notify returns the filter's verdict and makes the same summary / error-flag increments whatever the quiet level, for every category (the filter is consulted before quiet is looked at)"),
    (M, "C14.notify_project_verdict", "Observer(quiet, filter=config.filter).notify returns config.filter(file) for file categories and config.filter(file, key) otherwise = the reference verdict, at every quiet level"),
    (M, "C14.list_notify_quiet_free", "ObserverList.notify (what ContentComparer acts on) returns the most severe of the filters' answers whatever the quiet levels"),
    (M, "C14.compareq_quiet_free", "ContentComparer(q) vs ContentComparer(q') over the same keys: missing / missing_w / report / obsolete, the keys handed to merge, every verdict returned by notify, all summaries and error flags are equal"),
    (M, "C14.compareq_details_monotone", "raising quiet only removes listed details (own observer and every project observer, per path)"),
    (M, "C14.compareq_total", "the key loop + updateStats never raises on a modelled file (the assert in ObserverList.notify cannot fail) and yields the closed form"),
    (M, "C14.compareq_counts", "one project configuration, any quiet: missing = #error keys, report = #warning keys, merged = the error keys in order, missing_w = their words, obsolete = #obsolete keys not ignored"),
    (M, "C14.compareq_ignored_keys", "any quiet: a key whose verdict is not error is not merged, missing = len(merged), missing + report <= #missing keys, obsolete <= #obsolete keys"),
    (M, "C14.files_quiet_free", "ContentComparer.add / .remove (missing / obsolete FILE): the file verdict returned by notify and the counts reaching the summaries do not depend on quiet; an ignored missing file is not counted"),
    (M, "C14.compareq_refines_missing", "the round-0 model compareMissing (quiet 0, missing keys only) is the restriction of the full Observer/ContentComparer model, at every quiet level"),
    # ---- round 4: laziness exactly
    (M, "C14.first_decisive_spec", "firstD = first answer that is not `ok false`; a decisive answer comes out iff it follows a prefix of `ok false` answers, whatever comes after"),
    (M, "C14.covered_test_lazy", "any(p.match(fullpath) is not None for p in cached.l10n_paths) = first decisive answer of the l10n matchers in order"),
    (M, "C14.rule_scan_lazy", "the reverse rule scan as an equivalence: returns a iff a rule tests true after only-false tests of the LATER rules (or none applies: error); raises e iff such a test raises e; earlier rules are never consulted; the path is consulted before the key"),
    (M, "C14.cache_is_eager", "cache(locale): with_env for every enabled l10n matcher, then for every rule, in order, before any match"),
    (M, "C14.excludes_lazy_includes_eager", "excludes: first decisive answer of exclude.filter(file) == 'error' in order; included configurations: all evaluated in order"),
    (M, "C14.filter_inner_lazy", "_filter with its evaluation order spelled out, as an equation for every node of every tree"),
    (M, "C14.last_rule_wins_lazy", "last rule wins on texts needing only what the code needs: constructors and with_env return, file covered lazily, r applies, LATER rules skipped; rules before r may raise"),
    (M, "C14.rule_raise_lazy", "if the path matcher of r raises e (later rules skipped, covered lazily) filter raises e"),
    (M, "C14.default_error_lazy", "covered lazily and every rule text skipped: error"),
    # ---- round 4: key texts, [[filters]] tables
    (M, "C14.re_key_text", "a `re:` key compiles exactly the text after the marker (key[3:]), whatever it starts with"),
    (M, "C14.literal_key_text", "a literal key compiles re.escape(key) + '$'; un-escaping gives the key back"),
    (M, "C14.literal_branch_is_translation", "the literal branch of the model is the translation of the real compiled pattern: the recogniser used by the c14.keytext correspondence accepts exactly escapedDollar key"),
    (M, "C14.toml_filters_spec", "TOMLParser.processFilters = add_rules of the [[filters]] tables as written (string path = one-element list)"),
    # ---- round 4: legacy filter.py, graph guards, set_locales(deep)
    (M, "C14.filter_py_normalisation", "filter_: raising -> error, True -> error, False -> ignore, 'report' -> warning, the three action strings and None pass, other values -> AssertionError, unhashable -> TypeError"),
    (M, "C14.filter_py_wins", "a configuration with filter_py answers (after the locale test) with the normalised callable result; rules, included and excluded configurations are not consulted"),
    (M, "C14.included_py_dead", "the callable of an included configuration is never consulted (parents call child._filter)"),
    (M, "C14.excluded_py_consulted", "the callable of an excluded configuration is consulted through its public filter on the file"),
    (M, "C14.filterp_no_py", "without any callable the extended model is the model of Paths/Filter.lean"),
    (M, "C14.py_rules_exclusive", "set_filter_py asserts no rules, add_rules asserts no callable: a built configuration has a callable or rules, never both"),
    (M, "C14.add_child_exclude_guards", "add_child / exclude raise ExcludeError exactly for (sub)configurations that declare excludes"),
    (M, "C14.set_locales_deep_spec", "set_locales(deep=True) reaches the included configurations only; locales gate the public entry, _filter is unchanged"),
]
PARTIAL = [
    "composed model (FiltM): filterm_eq_filter is one-directional by necessity (lazy code may return where the eager "
    "instantiation raises: ExamplesM.lazy_witness); round 4 adds the exact evaluation order as equations/equivalences "
    "(filter_inner_lazy, rule_scan_lazy, covered_test_lazy, cache_is_eager) and text-level theorems of lazy strength for "
    "configurations without included/excluded ones (last_rule_wins_lazy, rule_raise_lazy, default_error_lazy); for "
    "trees the lazy characterisation is the node equation, not restated over texts",
    "Observer model: tuple keys (gettext msgid/msgctxt) are outside the filter model (projectFilter answers the default for them; "
    "the comparer model produces str data only)",
    "ProjectConfig.same is judged by an oracle probe only (no Lean model: it needs Matcher.__eq__ and re.Pattern equality)",
    "concrete pattern classes proved exactly: literal texts and dir*suffix (no * / { in dir and suffix, dir non-empty), any "
    "environment/root/locale; {locale}: binding for every pattern, captured value for EnvOK environments and locale texts "
    "without specials; other pattern shapes (**, several wildcards, nested variables) reach verdict level through "
    "filterm_eq_filter + the C11/C12 theorems (star_rule_general), not through a closed-form 'applies iff'",
    "the text-level last-rule-wins/default/not-covered theorems assume that every matcher of the node returns for the file "
    "(hypothesis instantiate = ok); rule dictionaries with path/key LISTS are compiled by addRulesM (mirror of "
    "_compile_rule, tied by the c14.filterm correspondence), own_on_rule_dicts is not restated over texts",
]
LEVEL_TEXT = ("Lean 4 theorems over an executable transliteration of ProjectConfig._compile_rule/all_locales/cache/_filter/filter "
              "and of the missing-entity branch of Observer.notify/ObserverList.notify/ContentComparer.compare: for ALL configuration "
              "trees, files, keys, path predicates and key regexes the verdict equals an independent reference interpreter "
              "(locale test, exclude short-circuit, most severe of own and children, last applicable rule, error by default), with "
              "corollaries for last-rule-wins, key/file distinction, rule lists, literal vs re: keys and the comparer's counts/merge; "
              "the model is tied to the Python by bounded-exhaustive + random differential runs on real ProjectConfig objects and on "
              "real ContentComparer runs over files, and a separate Python reference interpreter judges the implementation directly; "
              "COMPOSED with the executable model of paths/matcher.py (C11/C12): CLModel/Paths/FilterM.lean builds every Matcher from its "
              "pattern TEXT, environment and root, binds {locale} as cache() does and calls match lazily with the raise sites kept; "
              "filterm_eq_filter proves the composed verdict equal to the abstract one, so all theorems hold for real pattern texts, and "
              "the claims are restated over concrete patterns (literal paths, dir/*.ext, {locale}); the composed model is tied to the real "
              "ProjectConfig.filter by its own correspondence stream that sends pattern texts (no table from the real Matcher), including "
              "rooted configurations, Android locale codes and matchers that raise; "
              "ROUND 4: composed with the full Observer/ObserverList model of C10 and the key loop of ContentComparer.compare at every quiet level "
              "(verdicts, counts, merged keys and summaries proved independent of quiet, tied by real compare runs at quiet 0..4 with and without merge); "
              "the evaluation order (lazy any(), reverse scan, eager cache/children) characterised by equations and equivalences; the key text handed to "
              "re.compile (marker slice, re.escape, '$') modelled on texts and diffed against rule['key'].pattern; TOMLParser.processFilters modelled and "
              "tied through real TOML files; legacy filter.py (set_filter_py/filter_) with the callable as an abstract function, the asserts, ExcludeError "
              "guards and set_locales(deep) modelled, proved and tied by generated filter functions")
LEVEL_NOTE = ("trusted: Lean kernel; hand-written models CLModel/Paths/Filter.lean, CLModel/Paths/FilterM.lean, CLModel/Paths/Matcher.lean and "
              "CLModel/Compare/MissingFilter.lean (validated by correspondence); in the `c14.filter` / `c14.compare` streams path matching "
              "(Matcher) is an abstract predicate filled from the real Matcher per case; in the composed `c14.filterm` stream Matcher is NOT "
              "abstract: the driver receives the pattern texts, environment and root and runs the model of Matcher (parse, with_env, regex "
              "construction, Rx engine), exceptions compared by class; Pattern.root is passed as Matcher stores it (mozpath.abspath(root)+'/': "
              "the os.path normalisation is outside the model); the oracle uses its own few-line pattern semantics; user key regexes run on the Rx "
              "engine (validated differentially); files with locale None are outside the filter model (judged by the oracle only; in the "
              "Observer composition a None locale answers ignore); a legacy filter.py callable is an abstract function into the outcome classes "
              "filter_ distinguishes (generated table-driven functions in the `c14.filterp` correspondence); the `c14.compareq` stream takes the "
              "key order (AddRemove, C20), word counts and checker messages as inputs of the model; literal keys also match the key followed by one newline (proved, "
              "probed, not judged: entity keys contain no newline); configurations are built completely before they are queried "
              "(add_paths/add_rules after a filter() call leave a stale cache)")
TECHNIQUE = "Lean 4 proof (model = reference interpreter) + differential correspondence on real ProjectConfig/ContentComparer + independent Python oracle"
TRUSTED = [
    "hand-written models CLModel/Compare/FilterObserver.lean (key loop of ContentComparer.compare over CLModel/Compare/Observer.lean; tied by `c14.compareq` at quiet 0..4), "
    "CLModel/Paths/FilterPy.lean (filter_py, graph guards, set_locales(deep); tied by `c14.filterp`), processFiltersM (tied by `c14.filtert` on TOML files parsed by the real TOMLParser), "
    "compiledKeyText / reEscape (tied by `c14.keytext` against rule['key'].pattern)",
    "hand-written model CLModel/Paths/Filter.lean of ProjectConfig (tied by the `c14.filter` correspondence)",
    "hand-written model CLModel/Compare/MissingFilter.lean of the missing-entity branch (tied by the `c14.compare` correspondence)",
    "hand-written model CLModel/Paths/FilterM.lean (composition with CLModel/Paths/Matcher.lean; tied by the `c14.filterm` correspondence on pattern texts)",
    "Matcher is abstract in the `c14.filter`/`c14.compare` streams (its extension on the case's universe comes from the real Matcher); it is the executable model of C11/C12 in the composed stream",
    "Python sets of actions modelled as lists used through membership only",
]
ASSUMPTIONS = [
    "configurations are completely built (paths, rules, children, excludes, locales) before the first filter() call",
    "entity keys contain no newline; file.locale is a string for the model (None is judged by the oracle: ignore)",
    "a legacy filter.py callable is a function of (module, path, entity) into the outcome classes filter_ distinguishes "
    "(raises / True,1 / False,0 / str / None / unhashable / other hashable); python -O (asserts stripped) is not considered",
]

LOCS = ["de", "fr", "ja"]
RELS = ["browser/a.ftl", "browser/b.properties", "browser/sub/c.ftl", "toolkit/a.ftl", "toolkit/sub/deep/d.dtd"]
ENTITIES = [None, "one", "two", "one_more", "re:x", "", "one\n"]
LIT_KEYS = ["one", "two", "one_more", "on", "one_", "", "re", "o.e", "two "]
RE_KEYS = ["re:one", "re:one$", "re:.*", "re:o", "re:(one|two)$", "re:[a-z]+_more", "re:", "re:x", "re:.+", "re:one_?",
           "re:re:x", "re:\\w+$", "re:t.o", "re:(?!one)", "re:o.e$", "re:one\\Z"]
V, S, SS, SSD = ["var", "locale"], ["star"], ["starstar", ""], ["starstar", "/"]


def fp(loc, rel, base="/src"):
    return "%s/%s/%s" % (base, loc, rel)


def std_files():
    fs = [{"fullpath": fp(l, r), "locale": l} for l in LOCS for r in RELS]
    fs += [{"fullpath": fp("de", RELS[0]), "locale": "fr"}, {"fullpath": fp("fr", RELS[1]), "locale": "de"},
           {"fullpath": fp("und", RELS[0]), "locale": "und"}, {"fullpath": fp("de", RELS[0]), "locale": "und"},
           {"fullpath": fp("de", RELS[3]), "locale": None}, {"fullpath": "/other/de/browser/a.ftl", "locale": "de"}]
    return fs


def gen_pat(rng, env, base="/src", rels=RELS):
    if "l10n_base" in env and rng.random() < 0.7:
        out = [["var", "l10n_base"], "/"]
    else:
        out = [base + "/"]
    x = rng.random()
    out.append(V if x < 0.75 else ("de" if x < 0.87 else S))
    rel = rng.choice(rels)
    d, f = rel.rsplit("/", 1)
    top = d.split("/")[0]
    ext = f.rsplit(".", 1)[1]
    rest = rng.choice([
        ["/", SS], ["/", SS], ["/" + top + "/", SS], ["/" + top + "/", SS], ["/", S, "/" + f], ["/", SSD, f],
        ["/" + top + "/", S, "." + ext], ["/" + rel], ["/", SSD, S, "." + ext], ["/", S, "/sub/", SS],
        ["/" + top + "/", S], ["/" + d + "/", S], ["/", SSD, "sub/", SS], ["/", S, "/", S],
    ])
    # merge adjacent literals
    toks = []
    for t in out + rest:
        if isinstance(t, str) and toks and isinstance(toks[-1], str):
            toks[-1] += t
        else:
            toks.append(t)
    return toks


CMP_LIT = ["one", "two", "one_more", "three", "k4", "x5", "key6", "on", "one ", ""]
CMP_RE = ["re:one", "re:.*", "re:o", "re:k", "re:t", "re:(one|two)$", "re:[a-z]+\\d", "re:.+_", "re:", "re:x5$", "re:key", "re:on$",
          "re:(?!one)", "re:\\w+e$", "re:k.y"]


def gen_key(rng, cmp=False):
    lit, rx = (CMP_LIT, CMP_RE) if cmp else (LIT_KEYS, RE_KEYS)
    x = rng.random()
    if x < 0.45:
        return rng.choice(lit)
    if x < 0.8:
        return rng.choice(rx)
    return [rng.choice(lit + rx) for _ in range(rng.randrange(1, 4))]


def gen_rule(rng, env, base, rels, cmp=False):
    r = {"action": rng.choices(["error", "warning", "ignore"], [15, 42, 43] if cmp else [25, 35, 40])[0]}
    if rng.random() < 0.2:
        r["path"] = [gen_pat(rng, env, base, rels) for _ in range(rng.randrange(1, 3))]
        r["path_is_list"] = True
    else:
        r["path"] = gen_pat(rng, env, base, rels)
    if cmp and not r.get("path_is_list") and rng.random() < 0.6:
        r["path"] = rng.choice([[["var", "l10n_base"], "/", V, "/", SS], [["var", "l10n_base"], "/", V, "/", SSD, S, "." + rels[0].rsplit(".", 1)[1]],
                                [["var", "l10n_base"], "/", V, "/" + rels[0]]])
    if rng.random() < (0.85 if cmp else 0.6):
        r["key"] = gen_key(rng, cmp)
    return r


def gen_locales(rng, none_p=0.25):
    if rng.random() < none_p:
        return None
    ls = [l for l in LOCS if rng.random() < 0.7]
    if rng.random() < 0.05:
        ls.append("und")
    rng.shuffle(ls)
    return ls


def gen_cfg(rng, depth, maxdepth, top=True, base="/src", rels=RELS, cover=False):
    env = {"l10n_base": base} if (rng.random() < 0.4 or base != "/src") else {}
    spec = {"locales": gen_locales(rng, 0.1 if top else 0.3), "env": env, "paths": [], "rules": [], "children": [], "excludes": []}
    for i in range(rng.choice([0, 1, 1, 1, 2, 2, 3])):
        p = {"l10n": gen_pat(rng, env, base, rels)}
        if cover and i == 0 and rng.random() < 0.8:
            p["l10n"] = [["var", "l10n_base"], "/", V, "/", SS] if env else [base + "/", V, "/", SS]
        if rng.random() < 0.25:
            p["locales"] = gen_locales(rng, 0.0)
        spec["paths"].append(p)
    for _ in range(rng.choice([1, 2, 3, 3, 4, 5] if cover else [0, 1, 1, 2, 2, 3, 4])):
        spec["rules"].append(gen_rule(rng, env, base, rels, cover))
    if depth < maxdepth:
        for _ in range(rng.choice([0, 0, 1, 1, 2])):
            spec["children"].append(gen_cfg(rng, depth + 1, maxdepth, False, base, rels, cover))
    if top:
        for _ in range(rng.choice([0, 0, 0, 0, 0, 0, 1] if cover else [0, 0, 0, 1, 1, 2])):
            spec["excludes"].append(gen_cfg(rng, depth + 1, maxdepth, False, base, rels, cover and rng.random() < 0.5))
    return spec


def node(paths, rules=(), locales=("de", "fr"), children=(), excludes=()):
    return {"locales": None if locales is None else list(locales), "env": {},
            "paths": [dict(p) for p in paths], "rules": [dict(r) for r in rules],
            "children": list(children), "excludes": list(excludes)}


def exhaustive_rule_lists(ctx):
    """one configuration covering /src/{locale}/**, ALL rule lists up to a length over a rule alphabet"""
    P_ALL = ["/src/", V, "/", SS]
    if ctx.tier == "quick":
        paths = [["/src/", V, "/browser/", SS], ["/src/", V, "/", SSD, "a.ftl"], ["/src/de/", SS]]
        keys = [None, "one", "re:o", ["one", "two"]]
        maxlen = 2
    else:
        paths = [["/src/", V, "/browser/", SS], ["/src/", V, "/", SSD, "a.ftl"], ["/src/de/", SS]]
        keys = [None, "one", "re:o", ["one", "two"]]
        maxlen = 3
    acts = ["error", "warning", "ignore"]
    alphabet = []
    for p in paths:
        for k in keys:
            for a in acts:
                r = {"path": p, "action": a}
                if k is not None:
                    r["key"] = k
                alphabet.append(r)
    if ctx.tier != "quick":
        alphabet = [r for i, r in enumerate(alphabet) if i % 2 == 0 or "key" not in r]   # 3-lists over a thinner alphabet
    files = [{"fullpath": fp(l, r), "locale": l} for l in ("de", "fr") for r in (RELS[0], RELS[3], RELS[1])]
    files.append({"fullpath": fp("ja", RELS[0]), "locale": "ja"})
    ents = [None, "one", "two", "ox"]
    cases = []
    # patterns without any variable or wildcard (Matcher.match returns an empty dict for them)
    lit = [fp("de", RELS[0])]
    cases.append((node([{"l10n": P_ALL}], [{"path": lit, "action": "ignore"}]), files, ents))
    cases.append((node([{"l10n": P_ALL}], [{"path": lit, "key": "one", "action": "warning"}]), files, ents))
    cases.append((node([{"l10n": lit}], []), files, ents))
    for n in range(maxlen + 1):
        for rules in itertools.product(alphabet, repeat=n):
            cases.append((node([{"l10n": P_ALL}], rules), files, ents))
    return cases


def exhaustive_nesting(ctx):
    """parent x child x child x exclude over node templates"""
    B, T = ["/src/", V, "/browser/", SS], ["/src/", V, "/toolkit/", SS]
    tmpl = [
        lambda: node([{"l10n": T}]),
        lambda: node([{"l10n": B}]),
        lambda: node([{"l10n": B}], [{"path": B, "action": "warning"}]),
        lambda: node([{"l10n": B}], [{"path": B, "action": "ignore"}]),
        lambda: node([{"l10n": B}], [{"path": B, "key": "one", "action": "ignore"}]),
        lambda: node([{"l10n": B}], [{"path": B, "key": "re:.*", "action": "warning"}]),
        lambda: node([{"l10n": B, "locales": ["fr"]}], locales=None),
        lambda: node([{"l10n": B}], [{"path": B, "action": "ignore"}, {"path": B, "key": "re:", "action": "ignore"}], locales=("de",)),
    ]
    opt = [None] + tmpl
    files = [{"fullpath": fp(l, r), "locale": l} for l in ("de", "fr") for r in (RELS[0], RELS[3])]
    ents = [None, "one", "two"]
    cases = []
    excl_opts = opt if ctx.tier != "quick" else opt[:6] + opt[7:]
    for p in tmpl:
        for c1 in opt:
            for c2 in (opt if ctx.tier != "quick" else opt[:5]):
                for e in excl_opts:
                    spec = p()
                    spec["children"] = [c() for c in (c1, c2) if c is not None]
                    spec["excludes"] = [e()] if e is not None else []
                    cases.append((spec, files, ents))
    return cases


def spec_stats(spec, depth=1):
    d, n, nr = depth, 1, len(spec["rules"])
    for c in spec["children"] + spec["excludes"]:
        d2, n2, nr2 = spec_stats(c, depth + 1)
        d, n, nr = max(d, d2), n + n2, nr + nr2
    return d, n, nr


KEYPOOL = ["one", "two", "one_more", "three", "k4", "x5", "key6", "on"]
CMP_RELS = [("browser/a.properties", "properties"), ("browser/sub/c.ftl", "ftl"), ("toolkit/d.dtd", "dtd"), ("toolkit/e.ini", "ini")]


def gen_compare(rng):
    rel, fmt = rng.choice(CMP_RELS)
    if rng.random() < 0.5:
        rel, fmt = CMP_RELS[0]
    locale = rng.choice(LOCS)
    ref_keys = rng.sample(KEYPOOL, rng.randrange(3, 8))
    l10n_keys = [k for k in ref_keys if rng.random() < 0.35]
    if rng.random() < 0.3:
        l10n_keys.append("obsolete1")
    x = rng.random()
    nobs = 1 if x < 0.8 else 2
    specs = []
    for _ in range(nobs):
        s = gen_cfg(rng, 1, rng.choice([1, 1, 2]), True, PR.ROOT_PLACEHOLDER, [rel, rel, rel, "browser/zz.properties"], cover=True)
        if s["locales"] is not None and locale not in s["locales"] and rng.random() < 0.8:
            s["locales"].append(locale)
        specs.append(s)
    if x > 0.95:
        specs[-1] = None
    return [specs, locale, rel, ref_keys, l10n_keys, fmt]




# ------------------------------------------------------------------ round 4: quiet level x filter x comparer
OBS_KEYS = ["obsolete1", "zzz", "old_key"]


def gen_compareq(rng, directed=None):
    """[specs, locale, rel, ref_items, l10n_items, fmt]: small files with missing AND obsolete keys, Junk, a printf
    mismatch (checker error), under 1-2 observers whose configurations have key rules of all three actions"""
    rel, fmt = rng.choice(CMP_RELS)
    if rng.random() < 0.5:
        rel, fmt = CMP_RELS[0]
    locale = rng.choice(LOCS)
    ref_keys = rng.sample(KEYPOOL, rng.randrange(3, 8))
    ref_items = [["k", k, "value %s" % k] for k in ref_keys]
    pf = None
    if fmt == "properties" and rng.random() < 0.5:
        pf = rng.choice(ref_keys)
        for it in ref_items:
            if it[1] == pf:
                it[2] = "%d things"
    l10n_items = []
    for it in ref_items:
        if rng.random() < (0.8 if it[1] == pf else 0.4):
            v = it[2] if rng.random() < 0.5 else "wert " + it[1]
            if it[1] == pf:
                v = rng.choice(["%d Dinge", "%s Dinge", "Dinge"])
            l10n_items.append(["k", it[1], v])
    obs = rng.sample(OBS_KEYS, rng.choice([0, 1, 1, 2, 2, 3]))
    for k in obs:
        l10n_items.insert(rng.randrange(len(l10n_items) + 1), ["k", k, "alt %s" % k])
    x = rng.random()
    if x < 0.2:
        l10n_items.insert(rng.randrange(len(l10n_items) + 1), ["junk"])
    elif x < 0.3:
        ref_items.insert(rng.randrange(1, len(ref_items) + 1), ["junk"])
    y = rng.random()
    nobs = 1 if y < 0.8 else 2
    specs = []
    base = PR.ROOT_PLACEHOLDER
    every = [["var", "l10n_base"], "/", V, "/", SS]
    for _ in range(nobs):
        s = gen_cfg(rng, 1, rng.choice([1, 1, 2]), True, base, [rel, rel, rel, "browser/zz.properties"], cover=True)
        if s["locales"] is not None and locale not in s["locales"] and rng.random() < 0.85:
            s["locales"].append(locale)
        # key rules of all three actions aimed at the keys of THIS comparison (missing and obsolete ones)
        pool_ = [it[1] for it in ref_items if it[0] == "k"] + obs
        for _ in range(rng.choice([1, 2, 3, 4])):
            k = rng.choice(pool_ + ["re:o", "re:.*e", "re:(one|two|zzz)$", "re:[a-z]+\\d", "re:ob"])
            if rng.random() < 0.2:
                k = [k, rng.choice(pool_)]
            s["rules"].insert(rng.randrange(len(s["rules"]) + 1),
                              {"path": every, "key": k, "action": rng.choice(["error", "warning", "ignore", "ignore"])})
        specs.append(s)
    if y > 0.95:
        specs[-1] = None
    return [specs, locale, rel, ref_items, l10n_items, fmt]


def directed_compareq():
    """the scenario of the regression this stream was added for: ignored / warning-level missing keys and an
    ignored obsolete key under key rules, to be compared at every quiet level"""
    base = PR.ROOT_PLACEHOLDER
    every = [base + "/", V, "/", SS]
    rules = [{"path": every, "key": "two", "action": "ignore"}, {"path": every, "key": "three", "action": "warning"},
             {"path": every, "key": "re:obs", "action": "ignore"}, {"path": every, "key": ["four", "zzz"], "action": "warning"}]
    spec = node([{"l10n": every}], rules, locales=("de",))
    ref = [["k", k, "value %s" % k] for k in ("one", "two", "three", "four", "five")]
    l10n = [["k", "one", "value one"], ["k", "obsolete1", "x"], ["k", "zzz", "y"]]
    out = []
    for rel, fmt in CMP_RELS:
        out.append([[spec], "de", rel, ref, l10n, fmt])
    out.append([[spec, None], "de", CMP_RELS[0][0], ref, l10n, "properties"])
    return out


# ------------------------------------------------------------------ round 4: [[filters]] tables in real TOML files
R_ = PR.ROOT_PLACEHOLDER
LOCS_T = ["de", "fr", "ja"]
RELS_T = ["browser/a.ftl", "browser/sub/c.ftl", "toolkit/a.ftl"]
# literal keys and `re:` keys; the expressions after the marker begin with r, e, ':' or repeat the marker itself
T_LIT = ["one", "two", "re", "r:", "e:x", "o.e", "a+b", "one$", "two ", "re :x", "rex", ""]
T_RE = ["re:one", "re:re", "re:r", "re:e", "re::", "re::x", "re:re:x", "re:e.*l$", "re:r?e", "re:.*", "re:(one|two)$",
        "re:\\w+$", "re:o.e", "re:ex", "re:r:", "re:[re:]+$", "re:", "re:e", "re:rex?"]
ENTS_T = [None, "one", "two", "re", "r", "e", "external", ":x", "re:x", "o.e", "oxe", "a+b", "one$", "rex", "r:", "e:x", ""]


def files_t():
    fs = []
    for l in LOCS_T:
        for base in (R_ + "/", R_ + "/l10n/", R_ + "/c0/", "/src/"):
            for r in RELS_T[:2] if base != "/src/" else RELS_T:
                fs.append({"fullpath": base + l + "/" + r, "locale": l})
    fs.append({"fullpath": R_ + "/de/browser/a.ftl", "locale": "fr"})
    return fs


def gen_key_t(rng):
    x = rng.random()
    if x < 0.3:
        return rng.choice(T_LIT)
    if x < 0.75:
        return rng.choice(T_RE)
    return [rng.choice(T_LIT + T_RE) for _ in range(rng.randrange(1, 4))]


def gen_pat_t(rng, env, rooted=True):
    x = rng.random()
    if rooted and x < 0.65:
        out = [rng.choice(["", "", "l10n/"])]
        if "rel_base" in env and rng.random() < 0.5:
            out = [["var", "rel_base"], "/"]
    elif "l10n_base" in env and x < 0.85:
        out = [["var", "l10n_base"], "/"]
    else:
        out = ["/src/"]
    y = rng.random()
    out.append(V if y < 0.85 else "de")
    rel = rng.choice(RELS_T)
    d, f = rel.rsplit("/", 1)
    top = d.split("/")[0]
    ext = f.rsplit(".", 1)[1]
    rest = rng.choice([["/", SS], ["/", SS], ["/" + top + "/", SS], ["/", S, "/" + f], ["/", SSD, f], ["/" + top + "/", S, "." + ext],
                       ["/" + rel], ["/", SSD, S, "." + ext], ["/" + d + "/", S]])
    toks = []
    for t in out + rest:
        if t == "":
            continue
        if isinstance(t, str) and toks and isinstance(toks[-1], str):
            toks[-1] += t
        else:
            toks.append(t)
    return toks


def gen_cfg_t(rng, depth, maxdepth, parser_env, top=True, rel="l10n.toml", uid=None):
    uid = [0] if uid is None else uid          # file and directory names are unique in the whole tree
    file_env = {}
    if rng.random() < 0.5:
        file_env["l10n_base"] = "/src"
    if rng.random() < 0.4:
        file_env["rel_base"] = "l10n"
    env = dict(file_env, **parser_env)
    locales = None if rng.random() < (0.1 if top else 0.3) else [l for l in LOCS_T if rng.random() < 0.8]
    spec = {"locales": locales, "file_env": file_env, "paths": [], "rules": [], "children": [], "excludes": [], "toml_rel": rel}
    for i in range(rng.choice([1, 1, 2, 2, 3])):
        p = {"l10n": gen_pat_t(rng, env)}
        if i == 0 and rng.random() < 0.6:
            p["l10n"] = rng.choice([[V, "/", SS], ["l10n/", V, "/", SS], ["/src/", V, "/", SS]])
        if rng.random() < 0.25:
            p["locales"] = [l for l in LOCS_T if rng.random() < 0.6]
        if rng.random() < 0.3:
            p["reference"] = rng.choice(["/src/en-US/**", "en-US/**", "{l10n_base}/en-US/*.ftl"]) if "l10n_base" in env else "/src/en-US/**"
        if rng.random() < 0.2:
            p["test"] = ["android-dtd"]
        spec["paths"].append(p)
    for _ in range(rng.choice([1, 2, 2, 3, 4, 5])):
        r = {"action": rng.choice(["error", "warning", "warning", "ignore", "ignore"])}
        if rng.random() < 0.35:
            r["path"] = [gen_pat_t(rng, env) for _ in range(rng.randrange(1, 4))]
            r["path_is_list"] = True
        else:
            r["path"] = gen_pat_t(rng, env)
            if rng.random() < 0.45:
                r["path"] = spec["paths"][0]["l10n"]
        if rng.random() < 0.7:
            r["key"] = gen_key_t(rng)
        spec["rules"].append(r)
    if depth < maxdepth:
        for i in range(rng.choice([0, 0, 1, 2])):
            crel = rng.choice(["c%d/l10n.toml" % uid[0], "inc%d.toml" % uid[0]])
            uid[0] += 1
            spec["children"].append(gen_cfg_t(rng, depth + 1, maxdepth, parser_env, False, crel, uid))
    if top:
        for i in range(rng.choice([0, 0, 0, 1])):
            spec["excludes"].append(gen_cfg_t(rng, depth + 1, maxdepth, parser_env, False, "ex%d/l10n.toml" % i, uid))
    return spec


def keytext_keys(ctx):
    """rule keys for the text-level stream: every key of the pools, plus random literal keys over an alphabet with
    all `re.escape` specials and the characters of the `re:` marker"""
    rng = ctx.rng("c14", "keytext")
    keys = list(dict.fromkeys(LIT_KEYS + RE_KEYS + CMP_LIT + CMP_RE + T_LIT + T_RE))
    alpha = "re:ox1 .$+*?()[]{}|^\\-#&~\t" + "rrree::"
    for _ in range(ctx.n(200, 3000)):
        n = rng.choice([1, 2, 3, 3, 4, 5, 7])
        k = "".join(rng.choice(alpha) for _ in range(n))
        if k.startswith("re:"):
            k = "re:" + re.escape(k[3:]) + rng.choice(["", "$", ".*", "?"])      # a valid expression after the marker
        keys.append(k)
    for tail in ("re", "e", ":", "r", "re:", "e:", ":re", "r.", "external", "rest$", ":x|y"):
        keys.append("re:" + tail)
    return list(dict.fromkeys(keys))


def keytext_entities(key):
    body = key[3:] if key.startswith("re:") else key
    ents = [key, key + "x", key[:-1], "x" + key, key + "\n", body, body + "x", body[1:], "re:" + body, "e:" + body,
            "one", "two", "re", "r", "e", ":", "external", "rest", ""]
    return list(dict.fromkeys(ents))


# ------------------------------------------------------------------ round 4: legacy filter.py mixed with rules
PY_OUTS = ["T", "F", "1", "0", "1.0", "N", "R0", "R1", "R2", "U", "U2", "O", "O2", "s:error", "s:ignore", "s:warning", "s:report",
           "s:Error", "s:", "s:true", "s:report "]
PY_COMMON = ["T", "F", "s:report", "s:error", "s:ignore", "s:warning", "N", "R0"]
ENTS_P = [None, "one", "two", ""]


def files_p():
    fs = []
    for l in LOCS:
        for r in RELS[:4]:
            top, rest = r.split("/", 1)
            fs.append({"fullpath": fp(l, r), "locale": l, "module": top, "file": rest})
        fs.append({"fullpath": fp(l, RELS[4]), "locale": l, "module": None, "file": RELS[4]})
    fs.append({"fullpath": fp("de", RELS[0]), "locale": "fr", "module": "browser", "file": "a.ftl"})
    fs.append({"fullpath": fp("und", RELS[0]), "locale": "und", "module": None, "file": RELS[0]})
    fs.append({"fullpath": "/other/de/browser/a.ftl", "locale": "de", "module": "browser", "file": "a.ftl"})
    return fs


def gen_py(rng):
    out = lambda: rng.choice(PY_COMMON) if rng.random() < 0.75 else rng.choice(PY_OUTS)
    clauses = []
    for _ in range(rng.choice([0, 1, 2, 2, 3])):
        clauses.append({"module": rng.choice(["*", "*", "-", "browser", "toolkit"]),
                        "path": rng.choice(["", "", "a.ftl", "sub/", ".properties", "b"]),
                        "entity": rng.choice(["*", "*", "+", "-", "=one", "=two", "="]), "out": out()})
    return {"default": out(), "clauses": clauses}


def gen_cfg_p(rng, depth, maxdepth, role="top"):
    spec = gen_cfg(rng, maxdepth, maxdepth, False)          # a leaf: own paths / rules / locales, no descendants
    spec["env"] = {}
    spec["paths"] = [dict(p, l10n=gen_pat(rng, {})) for p in spec["paths"]]
    for r in spec["rules"]:
        r["path"] = [gen_pat(rng, {}) for _ in r["path"]] if r.get("path_is_list") else gen_pat(rng, {})
    if spec["paths"] and rng.random() < 0.6:
        spec["paths"][0]["l10n"] = ["/src/", V, "/", SS]
    spec["py"], spec["order"] = None, "r"
    if rng.random() < {"top": 0.5, "child": 0.3, "exclude": 0.6}[role]:
        spec["py"] = gen_py(rng)
        spec["order"] = rng.choice(["p", "p", "p", "p", "pr", "rp", "rp"])
        if spec["order"] == "p" or (spec["order"] == "rp" and rng.random() < 0.7):
            spec["rules"] = []
    if depth < maxdepth:
        for _ in range(rng.choice([0, 0, 1, 1, 2])):
            spec["children"].append(gen_cfg_p(rng, depth + 1, maxdepth, "child"))
    if role == "top" or rng.random() < 0.06:
        for _ in range(rng.choice([0, 0, 1, 1, 2])):
            spec["excludes"].append(gen_cfg_p(rng, depth + 1, maxdepth, "exclude"))
    return spec


def gen_posts(rng):
    if rng.random() < 0.65:
        return []
    ls = None if rng.random() < 0.15 else [l for l in LOCS + ["und"] if rng.random() < 0.6]
    return [[rng.choice(["D", "D", "S"]), ls]] + ([] if rng.random() < 0.8 else [["S", ["de"]]])


# ------------------------------------------------------------------ composed stream only: roots, Android codes, raising matchers
LOCS_M = ["de", "fr", "he-IL", "sr-Latn"]
RELS_M = ["browser/a.ftl", "browser/sub/c.ftl", "toolkit/a.ftl"]
ENTS_M = [None, "one", "two"]
# pattern texts whose Matcher raises when it is used (kept as ONE literal token: pat_str passes them through)
RAISE_ROOTED = ["*/browser/a.ftl", "**/a.ftl", "{nobody}/browser/**"]      # KeyError, KeyError, MissingEnvironment (rooted only)
RAISE_ANY = ["/src/{dup}/{locale}/**", "/src/{locale}/*/{s1}"]              # re.error (group defined twice / unknown reference)


def files_m():
    fs = []
    for l in LOCS_M:
        for base in ("/cfg/", "/cfg/l10n/", "/cfg/sub/", "/src/"):
            for r in RELS_M[:2] if base != "/src/" else RELS_M:
                fs.append({"fullpath": base + l + "/" + r, "locale": l})
        fs.append({"fullpath": "/src/res/values-%s/strings.xml" % PR.ref_android(l), "locale": l})
    fs.append({"fullpath": "/src/res/values-iw-rIL/strings.xml", "locale": "de"})
    fs.append({"fullpath": "/cfg/de/browser/a.ftl", "locale": "fr"})
    return fs


def gen_pat_m(rng, env, root, raising):
    if raising and rng.random() < 0.12:
        return [rng.choice(RAISE_ROOTED + RAISE_ANY if root else RAISE_ANY)]
    x = rng.random()
    if x < 0.12:
        return ["/src/res/values-", ["var", "android_locale"], "/strings.xml"]
    if root and x < 0.7:
        out = [rng.choice(["", "", "l10n/"])]
        if "rel_base" in env and rng.random() < 0.5:
            out = [["var", "rel_base"], "/"]
    elif "l10n_base" in env and rng.random() < 0.6:
        out = [["var", "l10n_base"], "/"]
    else:
        out = ["/src/"]
    y = rng.random()
    out.append(V if y < 0.8 else ("de" if y < 0.92 else S))
    if out[0] == "" and out[1] is S:
        out[1] = V        # a rooted pattern must not begin with a wildcard (finding F11: it raises)
    rel = rng.choice(RELS_M)
    d, f = rel.rsplit("/", 1)
    top = d.split("/")[0]
    ext = f.rsplit(".", 1)[1]
    rest = rng.choice([["/", SS], ["/" + top + "/", SS], ["/", S, "/" + f], ["/", SSD, f], ["/" + top + "/", S, "." + ext],
                       ["/" + rel], ["/", SSD, S, "." + ext], ["/" + d + "/", S]])
    toks = []
    for t in out + rest:
        if t == "":
            continue
        if isinstance(t, str) and toks and isinstance(toks[-1], str):
            toks[-1] += t
        else:
            toks.append(t)
    return toks


def gen_cfg_m(rng, depth, maxdepth, raising, top=True):
    root = rng.choice([None, "/cfg", "/cfg", "/cfg/sub"])
    env = {}
    if rng.random() < 0.5:
        env["l10n_base"] = "/src"
    if root and rng.random() < 0.4:
        env["rel_base"] = "l10n"
    if raising:
        env["dup"] = "{locale}x"
    if rng.random() < 0.15:
        env["locale"] = "zz"            # cache() overrides it with the file's locale
    locales = None if rng.random() < (0.1 if top else 0.3) else [l for l in LOCS_M if rng.random() < 0.8]
    spec = {"locales": locales, "env": env, "paths": [], "rules": [], "children": [], "excludes": []}
    if root:
        spec["root"] = root
    for i in range(rng.choice([1, 1, 2, 2, 3])):
        p = {"l10n": gen_pat_m(rng, env, root, raising)}
        if i == 0 and rng.random() < 0.5:
            # a broad first path, so that the rules are reached
            p["l10n"] = ([V, "/", SS] if rng.random() < 0.5 else ["l10n/", V, "/", SS]) if root and rng.random() < 0.7 else ["/src/", V, "/", SS]
        if rng.random() < 0.25:
            p["locales"] = [l for l in LOCS_M if rng.random() < 0.6]
        spec["paths"].append(p)
    for _ in range(rng.choice([0, 1, 2, 2, 3, 4])):
        r = {"action": rng.choice(["error", "warning", "warning", "ignore", "ignore"])}
        if rng.random() < 0.2:
            r["path"] = [gen_pat_m(rng, env, root, raising) for _ in range(rng.randrange(1, 3))]
            r["path_is_list"] = True
        else:
            r["path"] = gen_pat_m(rng, env, root, raising)
            if spec["paths"] and rng.random() < 0.35:
                r["path"] = spec["paths"][0]["l10n"]      # a rule for everything the first path covers
        if rng.random() < 0.5:
            r["key"] = rng.choice(["one", "re:o", "re:t", ["one", "two"]])
        spec["rules"].append(r)
    if depth < maxdepth:
        for _ in range(rng.choice([0, 0, 1, 2])):
            spec["children"].append(gen_cfg_m(rng, depth + 1, maxdepth, raising, False))
    if top:
        for _ in range(rng.choice([0, 0, 0, 1])):
            spec["excludes"].append(gen_cfg_m(rng, depth + 1, maxdepth, raising, False))
    return spec


def directed_m():
    """small fixed configurations of the composed stream: literal path, star scope, {locale} binding, laziness of
    the raise sites (a raising rule before / after the applicable one, a raising l10n path after a matching one,
    an included configuration answering error before the own matchers are consulted)"""
    cover = {"l10n": ["/src/", V, "/", SS]}
    lit = {"path": ["/src/de/browser/a.ftl"], "action": "ignore"}
    star = {"path": ["/src/", V, "/browser/", S, ".ftl"], "action": "warning"}
    boom = {"path": ["/src/{dup}/{locale}/**"], "action": "ignore"}
    env = {"dup": "{locale}x"}
    out = []
    for rules in ([lit], [star], [lit, star], [star, lit], [boom, star], [star, boom], [boom], [lit, boom]):
        n = node([cover], rules)
        n["env"] = dict(env)
        out.append((n, False))
    n = node([cover, {"l10n": ["/src/{dup}/{locale}/**"]}], [star]); n["env"] = dict(env); out.append((n, False))
    n = node([{"l10n": ["/src/{dup}/{locale}/**"]}, cover], [star]); n["env"] = dict(env); out.append((n, False))
    child_err = node([cover], [])
    n = node([{"l10n": ["/src/{dup}/{locale}/**"]}], [], children=[child_err]); n["env"] = dict(env); out.append((n, False))
    n = node([{"l10n": ["*/browser/a.ftl"]}], []); n["root"] = "/cfg"; out.append((n, False))
    n = node([{"l10n": [V, "/browser/", S, ".ftl"]}], [{"path": ["de/browser/a.ftl"], "action": "ignore"}]); n["root"] = "/cfg"; out.append((n, True))
    return out

def _retry(fn, a, r):
    """a worker that did not answer in time (loaded machine) is not a finding: run the case in-process"""
    if r is not None and "r" in r:
        return r
    if r is not None and r.get("exc") != "Hang":
        return r
    try:
        return {"r": fn(*a)}
    except Exception as e:   # noqa
        return {"exc": type(e).__name__, "msg": str(e)[:300]}


def digest(s):
    return hashlib.sha1(s.encode()).hexdigest()[:16]


def run(ctx):
    out = Outcome()
    out.rule = ("filter: (a) ALL rule lists up to length 2 (quick) / 3 (thorough) over a rule alphabet (3 paths x {no key, literal, re:, key list} x 3 actions) "
                "in one covering configuration, (b) ALL parent x child x child x exclude combinations over 8 node templates, (c) seeded random "
                "configurations nested 1-3 levels (children, excludes with children, per-config and per-path locales, env variables, 0-4 rules with "
                "wildcard/variable paths, path lists, literal/regex/list keys); every case answers ALL (file, entity) queries of its universe on one "
                "object in shuffled file order and again on a fresh object. compare: seeded random reference/localized file pairs "
                "(properties, ftl, dtd, ini) under 1-2 observers with generated configurations. non-trivial = a case whose verdict vector "
                "contains at least two different verdicts; distinct = distinct (case, verdict vector). "
                "Round 4: compareq = directed + seeded random file pairs (missing, obsolete, Junk, printf mismatch) under key rules of all three actions, each "
                "compared at quiet 0..4 with and without merge; toml = seeded random configuration trees written as TOML files with [[filters]] tables "
                "(path string/list, key string/list/re:, all actions, includes/excludes, [env], parser env) parsed by TOMLParser; keytext = every key of "
                "the pools plus random literal keys over the re.escape specials and the marker characters; filterp = seeded random trees with generated "
                "filter.py functions (all outcome classes), both build orders, nested excludes, set_locales deep/shallow, ProjectConfig.same probes")
    rng = ctx.rng("c14")
    cases = []
    for spec, files, ents in exhaustive_rule_lists(ctx):
        cases.append(("rules", spec, files, ents))
    for spec, files, ents in exhaustive_nesting(ctx):
        cases.append(("nest", spec, files, ents))
    sf = std_files()
    for _ in range(ctx.n(1200, 16000)):
        spec = gen_cfg(rng, 1, rng.choice([1, 2, 2, 3, 3]))
        cases.append(("random", spec, sf, ENTITIES))
    args = []
    for kind, spec, files, ents in cases:
        ne = len(ents)
        forder = list(range(len(files)))
        rng.shuffle(forder)
        order = [f * ne + e for f in forder for e in range(ne)]
        args.append([spec, files, ents, order])
    res = pool.pmap("impl.project", "filter_case", args, timeout=20.0, batch=24)
    res = [_retry(PR.filter_case, a, r) for a, r in zip(args, res)]
    lines, keep = [], []
    for i, r in enumerate(res):
        if r is None or "r" not in r:
            # the adapter failed: an exception escaping ProjectConfig is a finding candidate, anything else is ours
            out.violations.append({"what": "filter case raised %s" % (r,), "input": {"spec": args[i][0]}, "op": "filter-crash"})
            continue
        lines.append(r["r"]["line"])
        keep.append(i)
    model = C.run_driver_parallel(lines) if ctx.model_ok else [None] * len(lines)
    for j, i in enumerate(keep):
        kind, spec, files, ents = cases[i]
        r = res[i]["r"]
        ne = len(ents)
        impl = r["impl"]
        out.evaluations += len(impl)
        for ch in impl:
            out.count("filter.verdict." + ch)
        d, n, nr = spec_stats(spec)
        out.count("filter.%s.depth%d" % (kind, d))
        if len(set(impl)) >= 2:
            out.nontrivial.add((digest(r["line"]), impl))
        if len(out.samples) < 3 and kind == "random" and len(set(impl)) == 3 and d >= 2:
            out.samples.append({"op": "filter", "config": spec, "verdicts(e/w/i per file x entity)": impl})
        bad = False
        tagged = [o for o in r["oracle"] if o[3]]
        for q, exp, got, fnd in [o for o in r["oracle"] if not o[3]][:3] + tagged[:1]:
            bad = True
            v = {"what": "filter verdict %s, reference semantics say %s" % (got, exp), "op": "filter",
                 "input": {"spec": spec, "file": files[q // ne], "entity": ents[q % ne]}, "expected": exp, "got": got}
            if fnd:
                v["finding"] = fnd
                v["what"] += " (a path pattern without variable or wildcard is treated as not matching)"
            out.violations.append(v)
        for q in r["history"][:2]:
            bad = True
            out.violations.append({"what": "verdict depends on the query history (used object vs fresh object)", "op": "filter-history",
                                   "input": {"spec": spec, "file": files[q // ne], "entity": ents[q % ne], "order": args[i][3]}})
        mo = model[j]
        if mo is not None and not bad:
            sub = "".join(impl[q] for q in r["model_queries"])
            if mo != sub:
                qs = [q for q, a, b in zip(r["model_queries"], sub, mo) if a != b] if len(mo) == len(sub) else []
                out.disagreements.append({"op": "filter", "spec": spec, "impl": sub, "model": mo,
                                          "first_query": ({"file": files[qs[0] // ne], "entity": ents[qs[0] % ne]} if qs else None)})
    # ---------------------------------------------------------------- composed model (pattern texts, no Matcher table)
    # (a) the same cases: the driver gets the pattern texts, environment and root and runs the model of Matcher itself
    linesm = [res[i]["r"]["line_m"] for i in keep]
    modelm = C.run_driver_parallel(linesm) if ctx.model_ok else [None] * len(linesm)
    for j, i in enumerate(keep):
        r = res[i]["r"]
        mo = modelm[j]
        if mo is None or r["oracle"] or r["history"]:
            continue
        sub = "".join(r["implm"][q] for q in r["model_queries"])
        out.count("filterm.same-cases")
        if mo != sub:
            kind, spec, files, ents = cases[i]
            ne = len(ents)
            qs = [q for q, a, b in zip(r["model_queries"], sub, mo) if a != b] if len(mo) == len(sub) else []
            out.disagreements.append({"op": "filterm", "spec": spec, "impl": sub, "model": mo,
                                      "first_query": ({"file": files[qs[0] // ne], "entity": ents[qs[0] % ne]} if qs else None)})
    # (b) cases of the composed stream only: rooted configurations, Android codes, an environment that binds "locale",
    #     matchers that raise (judged by the reference interpreter where it defines an answer)
    rngm = ctx.rng("c14", "filterm")
    fm = files_m()
    mcases = [(spec, judge) for spec, judge in directed_m()]
    for k in range(ctx.n(500, 6000)):
        raising = k % 3 == 0
        mcases.append((gen_cfg_m(rngm, 1, rngm.choice([1, 2, 2, 3]), raising), not raising))
    margs = [[spec, fm, ENTS_M, judge] for spec, judge in mcases]
    mres = pool.pmap("impl.project", "filterm_case", margs, timeout=20.0, batch=24)
    mres = [_retry(PR.filterm_case, a, r) for a, r in zip(margs, mres)]
    mlines, mkeep = [], []
    for i, r in enumerate(mres):
        if r is None or "r" not in r:
            out.violations.append({"what": "filterm case raised %s" % (r,), "input": {"spec": margs[i][0]}, "op": "filter-crash"})
            continue
        mlines.append(r["r"]["line_m"])
        mkeep.append(i)
    mmodel = C.run_driver_parallel(mlines) if ctx.model_ok else [None] * len(mlines)
    ne = len(ENTS_M)
    for j, i in enumerate(mkeep):
        spec, judge = mcases[i]
        r = mres[i]["r"]
        impl = r["implm"]
        out.evaluations += len(impl)
        for ch in impl:
            out.count("filterm.answer." + ch)
        if len(set(impl)) >= 2:
            out.nontrivial.add(("m", digest(r["line_m"]), impl))
        bad = False
        for q, exp, got, _ in r["oracle"][:3]:
            bad = True
            out.violations.append({"what": "filter verdict %s, reference semantics say %s" % (got, exp), "op": "filter",
                                   "input": {"spec": spec, "file": fm[q // ne], "entity": ENTS_M[q % ne]}, "expected": exp, "got": got})
        for q in r["history"][:2]:
            bad = True
            out.violations.append({"what": "answer depends on the query history (forward vs backward order on fresh objects)", "op": "filterm-history",
                                   "input": {"spec": spec, "file": fm[q // ne], "entity": ENTS_M[q % ne]}})
        mo = mmodel[j]
        if mo is not None and not bad and mo != impl:
            qs = [q for q, (a, b) in enumerate(zip(impl, mo)) if a != b] if len(mo) == len(impl) else []
            out.disagreements.append({"op": "filterm", "spec": spec, "impl": impl, "model": mo,
                                      "first_query": ({"file": fm[qs[0] // ne], "entity": ENTS_M[qs[0] % ne]} if qs else None)})
    # ---------------------------------------------------------------- compare link
    rngc = ctx.rng("c14", "compare")
    cargs = [gen_compare(rngc) for _ in range(ctx.n(500, 6000))]
    cres = pool.pmap("impl.project", "compare_case", cargs, timeout=20.0, batch=16)
    cres = [_retry(PR.compare_case, a, r) for a, r in zip(cargs, cres)]
    clines, ckeep = [], []
    for i, r in enumerate(cres):
        if r is None or "r" not in r:
            out.violations.append({"what": "compare case raised %s" % (r,), "input": {"case": cargs[i]}, "op": "compare-crash"})
            continue
        clines.append(r["r"]["line"])
        ckeep.append(i)
    cmodel = C.run_driver_parallel(clines) if ctx.model_ok else [None] * len(clines)
    for j, i in enumerate(ckeep):
        r = cres[i]["r"]
        out.evaluations += 1
        out.count("compare.classes=%d" % r["classes"])
        if r["classes"] >= 2:
            out.nontrivial.add(("cmp", digest(r["line"]), r["impl"]))
        if len(out.samples) < 6 and r["classes"] == 3:
            out.samples.append({"op": "compare", "case": cargs[i][1:], "verdicts": r["verdicts"], "result": r["impl"]})
        for msg in r["oracle"][:3]:
            v = {"what": "compare: " + msg, "op": "compare", "input": {"case": cargs[i]}, "result": r["impl"]}
            if r.get("finding"):
                v["finding"] = r["finding"]
            out.violations.append(v)
        mo = cmodel[j]
        if mo is not None and not r["oracle"]:
            if not r["can_merge"]:
                mo = re.sub(r" M=\S*", " M=n/a", mo)
            if mo != r["impl"]:
                out.disagreements.append({"op": "compare", "case": cargs[i], "impl": r["impl"], "model": mo})
    # ---------------------------------------------------------------- round 4: the quiet level (0..4) x merge on/off
    rngq = ctx.rng("c14", "compareq")
    qargs = directed_compareq() + [gen_compareq(rngq) for _ in range(ctx.n(110, 2500))]
    qres = pool.pmap("impl.project", "compareq_case", qargs, timeout=60.0, batch=8)
    qres = [_retry(PR.compareq_case, a, r) for a, r in zip(qargs, qres)]
    qlines, qkeep = [], []
    for i, r in enumerate(qres):
        if r is None or "r" not in r:
            out.violations.append({"what": "compareq case raised %s" % (r,), "input": {"case": qargs[i]}, "op": "compareq-crash"})
            continue
        qkeep.append(i)
        qlines += [r["r"]["lines"][str(q)] for q in range(5)] + [r["r"]["flines"][str(q)] for q in range(5)]
    qmodel = C.run_driver_parallel(qlines) if ctx.model_ok else [None] * len(qlines)
    for j, i in enumerate(qkeep):
        r = qres[i]["r"]
        out.evaluations += 10
        out.count("compareq.classes=%d" % r["classes"])
        for ch in set(r["events"]):
            out.count("compareq.event." + ch)
        if r["classes"] >= 2:
            out.nontrivial.add(("cmpq", digest(r["lines"]["0"]), r["impl"][:200]))
        if r["classes"] == 3 and "o" in r["events"] and sum(1 for s_ in out.samples if s_.get("op") == "compareq") < 2:
            out.samples.append({"op": "compareq", "case": qargs[i][1:], "events": r["events"], "verdicts": r["verdicts"],
                                "quiet0": r["canon"]["0m"][:160], "quiet2": r["canon"]["2m"][:160]})
        for msg in r["oracle"][:3]:
            out.violations.append({"what": "compare at a quiet level: " + msg, "op": "compareq", "input": {"case": qargs[i]}})
        if r["oracle"]:
            continue
        for q in range(5):
            mo = qmodel[10 * j + q]
            if mo is None:
                continue
            if mo != r["canon"]["%dm" % q] or re.sub(r" M=\S*", " M=n/a", mo) != r["canon"]["%dn" % q]:
                out.disagreements.append({"op": "compareq", "quiet": q, "case": qargs[i], "impl": r["canon"]["%dm" % q][:600],
                                          "impl_nomerge": r["canon"]["%dn" % q][:600], "model": mo[:600]})
                break
            mf = qmodel[10 * j + 5 + q]
            out.count("filesq.verdict." + r["fcanon"][str(q)].split(" ")[1])
            if mf != r["fcanon"][str(q)]:
                out.disagreements.append({"op": "filesq", "quiet": q, "case": qargs[i], "impl": r["fcanon"][str(q)][:600], "model": mf[:600]})
                break
    # ---------------------------------------------------------------- round 4: [[filters]] through the real TOMLParser
    rngt = ctx.rng("c14", "toml")
    ft = files_t()
    targs = []
    for k in range(ctx.n(160, 4000)):
        penv = {"l10n_base": "/src"} if k % 5 == 0 else ({"rel_base": "l10n"} if k % 7 == 0 else {})
        targs.append([gen_cfg_t(rngt, 1, rngt.choice([1, 1, 2, 3]), penv), ft, ENTS_T, penv])
    tres = pool.pmap("impl.project", "toml_case", targs, timeout=30.0, batch=16)
    tres = [_retry(PR.toml_case, a, r) for a, r in zip(targs, tres)]
    tlines, tkeep = [], []
    for i, r in enumerate(tres):
        if r is None or "r" not in r:
            out.violations.append({"what": "toml case raised %s" % (r,), "input": {"spec": targs[i][0]}, "op": "toml-crash"})
            continue
        tlines.append(r["r"]["line_m"])
        tkeep.append(i)
    tmodel = C.run_driver_parallel(tlines) if ctx.model_ok else [None] * len(tlines)
    ne = len(ENTS_T)
    for j, i in enumerate(tkeep):
        r = tres[i]["r"]
        impl = r["implm"]
        out.evaluations += len(impl)
        out.count("toml.rules=%d" % min(r.get("nrules", 0), 6))
        if len(set(impl)) >= 2:
            out.nontrivial.add(("toml", digest(r["line_m"]), impl))
        bad = False
        for q, exp, got, _ in r["oracle"][:3]:
            bad = True
            out.violations.append({"what": "TOML [[filters]]: verdict %s, reference semantics say %s" % (got, exp), "op": "toml",
                                   "input": {"spec": targs[i][0], "parser_env": targs[i][3], "file": ft[q // ne], "entity": ENTS_T[q % ne]},
                                   "expected": exp, "got": got})
        mo = tmodel[j]
        if mo is not None and not bad and mo != impl:
            qs = [q for q, (a, b) in enumerate(zip(impl, mo)) if a != b] if len(mo) == len(impl) else []
            out.disagreements.append({"op": "toml", "spec": targs[i][0], "impl": impl, "model": mo, "msg": r.get("msg"),
                                      "first_query": ({"file": ft[qs[0] // ne], "entity": ENTS_T[qs[0] % ne]} if qs else None)})
    # ---------------------------------------------------------------- round 4: the key TEXT _compile_rule compiles
    klines, kres = [], []
    for k in keytext_keys(ctx):
        try:
            r = PR.keytext_case(k, keytext_entities(k))
        except re.error:
            out.count("keytext.invalid-expression")
            continue
        except Exception as ex:   # noqa
            if type(ex).__name__ == "Unsupported":
                out.count("keytext.untranslatable")
                continue
            out.violations.append({"what": "_compile_rule raised %s: %s" % (type(ex).__name__, ex), "op": "keytext-crash", "input": {"key": k}})
            continue
        kres.append((k, r))
        klines.append(r["line"])
    kmodel = C.run_driver_parallel(klines) if ctx.model_ok else [None] * len(klines)
    for (k, r), mo in zip(kres, kmodel):
        out.evaluations += len(r["answers"])
        out.count("keytext." + ("re" if k.startswith("re:") else "literal"))
        if len(set(r["answers"])) >= 2:
            out.nontrivial.add(("key", k, r["answers"]))
        ents = keytext_entities(k)
        for i_ in r["oracle"][:2]:
            out.violations.append({"what": "rule key %r (compiled as %r) %s entity %r" % (
                k, r["pattern"], "accepts" if r["answers"][i_] == "1" else "rejects", ents[i_]),
                "op": "keytext", "input": {"key": k, "entity": ents[i_]}})
        if mo is not None and not r["oracle"] and mo != r["canon"]:
            out.disagreements.append({"op": "keytext", "key": k, "impl": r["canon"], "model": mo})
    # ---------------------------------------------------------------- round 4: legacy filter.py x rules, graph guards, set_locales(deep), same()
    rngp = ctx.rng("c14", "filterp")
    fpf = files_p()
    pargs = [[gen_cfg_p(rngp, 1, rngp.choice([1, 2, 2, 3])), fpf, ENTS_P, gen_posts(rngp)] for _ in range(ctx.n(400, 8000))]
    pres = pool.pmap("impl.project", "filterp_case", pargs, timeout=30.0, batch=24)
    pres = [_retry(PR.filterp_case, a, r) for a, r in zip(pargs, pres)]
    plines, pkeep = [], []
    for i, r in enumerate(pres):
        if r is None or "r" not in r:
            out.violations.append({"what": "filterp case raised %s" % (r,), "input": {"spec": pargs[i][0]}, "op": "filterp-crash"})
            continue
        plines.append(r["r"]["line"])
        pkeep.append(i)
    pmodel = C.run_driver_parallel(plines) if ctx.model_ok else [None] * len(plines)
    ne = len(ENTS_P)
    for j, i in enumerate(pkeep):
        r = pres[i]["r"]
        impl = r["impl"]
        out.evaluations += len(impl)
        if impl.startswith("B"):
            out.count("filterp.build." + impl)
        else:
            for ch in set(impl):
                out.count("filterp.answer." + ch)
        if len(set(impl)) >= 2:
            out.nontrivial.add(("py", digest(r["line"]), impl))
        bad = False
        for q, exp, got in r["oracle"][:3]:
            bad = True
            out.violations.append({"what": "filter with legacy filter.py: answer %s, documented behaviour %s" % (got, exp), "op": "filterp",
                                   "input": {"spec": pargs[i][0], "posts": pargs[i][3],
                                             "file": fpf[q // ne] if q >= 0 else None, "entity": ENTS_P[q % ne] if q >= 0 else None},
                                   "expected": exp, "got": got})
        for msg in r["same"][:2]:
            bad = True
            out.violations.append({"what": "ProjectConfig.same: " + msg, "op": "filterp-same", "input": {"spec": pargs[i][0], "posts": pargs[i][3]}})
        mo = pmodel[j]
        if mo is not None and not bad and mo != impl:
            qs = [q for q, (a, b) in enumerate(zip(impl, mo)) if a != b] if len(mo) == len(impl) else []
            out.disagreements.append({"op": "filterp", "spec": pargs[i][0], "posts": pargs[i][3], "impl": impl, "model": mo,
                                      "first_query": ({"file": fpf[qs[0] // ne], "entity": ENTS_P[qs[0] % ne]} if qs else None)})
    out.violations = [v for v in out.violations if not v.get("finding")][:200] + [v for v in out.violations if v.get("finding")][:20]
    out.disagreements = out.disagreements[:200]
    return out


def classify(v):
    return v.get("finding")


def replay(payload):
    res = []
    for v in payload.get("violations", []):
        i = v.get("input", {})
        if v.get("op") == "filter":
            got, exp = PR.filter_verdicts(i["spec"], [i["file"]], [i["entity"]])[0]
            res.append({"input": i, "implementation": got, "reference": exp, "violates": got != exp})
        elif v.get("op") == "compare":
            r = PR.compare_case(*i["case"])
            res.append({"input": i, "result": r["impl"], "oracle": r["oracle"], "violates": bool(r["oracle"])})
        elif v.get("op") in ("filterp", "filterp-same"):
            r = PR.filterp_case(i["spec"], files_p(), ENTS_P, i.get("posts") or [])
            res.append({"input": i, "oracle": r["oracle"][:3], "same": r["same"], "violates": bool(r["oracle"] or r["same"])})
        elif v.get("op") == "keytext":
            r = PR.keytext_case(i["key"], [i["entity"]])
            res.append({"input": i, "pattern": r["pattern"], "violates": bool(r["oracle"])})
        elif v.get("op") == "toml":
            r = PR.toml_case(i["spec"], [i["file"]], [i["entity"]], i.get("parser_env") or {})
            res.append({"input": i, "implementation": r["implm"], "oracle": r["oracle"], "violates": bool(r["oracle"])})
        elif v.get("op") == "compareq":
            r = PR.compareq_case(*i["case"])
            res.append({"input": i, "oracle": r["oracle"], "violates": bool(r["oracle"])})
        elif v.get("op") == "filter-history":
            r = PR.filter_case(i["spec"], [i["file"]], [i["entity"]], [0])
            res.append({"input": i, "violates": bool(r["history"] or r["oracle"])})
        elif v.get("op") == "filterm-history":
            r = PR.filterm_case(i["spec"], files_m(), ENTS_M, False)
            res.append({"input": i, "violates": bool(r["history"])})
    return {"violates": any(r["violates"] for r in res), "cases": res}

"""C19 — Lint flags every duplicate, every unparsed region and every changed ID."""
import itertools
import os
import shutil

from lib import common as C
from lib import pool
from lib.runner import Outcome

ID = "C19"
LEAN_TARGETS = ["CLModel.Props.C19"]
M = "CLModel.Props.C19"
THEOREMS = [
    (M, "C19.lint_file_concat", "lint_file = concatenation, in file order, of what lint_entity yields per parsed element; raises iff one element raises"),
    (M, "C19.lint_entity_spec", "per occurrence of an entity: [duplicate error iff key counted > 1] ++ [changed-ID warning iff key in reference and value differs from the LAST reference entity with the key] ++ resolved check results, nothing else"),
    (M, "C19.lint_duplicates", "lint_full_entity never raises; it contains the duplicate error of the occurrence iff its key occurs more than once in the file"),
    (M, "C19.lint_duplicates_reported", "file level: every occurrence of a repeated key has its duplicate error among the results"),
    (M, "C19.lint_junk", "a junk element yields exactly one result (error, error_message(), at the start of the region) and nothing else"),
    (M, "C19.lint_junk_reported", "file level: the error of every junk element is among the results"),
    (M, "C19.lint_checks", "the results of an entity end with one result per tuple of checker.check(e, e), in order, same level and message, position resolved by the entity"),
    (M, "C19.lint_checks_reported", "file level: every check tuple of every entity is among the results"),
    (M, "C19.lint_changed", "changed-ID warning for an occurrence iff the key is in the reference and the value differs from the last reference entity with that key"),
    (M, "C19.last_with_key_spec", "'last reference entity with the key': it has the key and no later one has"),
    (M, "C19.lint_changed_no_reference", "no reference file (no path / not a file) => no changed-ID warning"),
    (M, "C19.lint_changed_reported", "file level: the warning of every changed occurrence is among the results"),
    (M, "C19.lint_clean", "entities only, distinct keys, no check results, values equal to the reference's => []"),
    (M, "C19.lint_clean_identical", "unique, well-formed, identical to its reference (or no reference) => []"),
    (M, "C19.lint_total", "linting does not raise when every check position suits its entity class; the reference lookup never fails"),
    (M, "C19.lint_skips_unknown", "a path without a parser contributes nothing, wherever it stands in the file list"),
    (M, "C19.lint_results_from_parsed_files", "every result of lint() carries the path of a listed file that has a parser and is a result of linting that file"),
    (M, "C19.linecol_spec", "Context.linecol = (1 + newlines before the offset, 1 + characters since the last newline) for offsets inside the text"),
    (M, "C19.position_spec", "'at the position of the entity': line/column of the first character of the span (all classes with spans)"),
    (M, "C19.position_node", "Android objects have no spans: position is (0, offset)"),
    (M, "C19.dup_result_shape", "the duplicate result is an *error* at position() with message 'Duplicate string with ID: <key>' (literals regenerated from the source)"),
    (M, "C19.changed_result_shape", "the changed-ID result is a *warning* at position() with message 'Changes to string require a new ID: <key>'"),
    (M, "C19.junk_result_shape", "the junk result is an *error* at the start of the region with Junk.error_message()"),
    # round 4: one run over several files
    (M, "C19.lint_concat", "L10nLinter.lint over a file list = concatenation, in list order, of what every file yields on its own; raises iff one file raises"),
    (M, "C19.lint_append", "splitting the file list splits the results (the first failing file decides about the exception)"),
    (M, "C19.lint_run_state", "the state of a run is exactly the results list plus one get_reference_and_tests question per file with a parser, in order: nothing else is carried from file to file"),
    (M, "C19.lint_file_independent", "what a run reports for a path is what that file yields on its own, whatever the other files are and wherever it stands (distinct paths)"),
    (M, "C19.lint_file_same_in_every_run", "two runs that both contain a file report the same results for it"),
    (M, "C19.lint_order", "reordering the file list only reorders (permutes) the results"),
    (M, "C19.lint_occurrence_independent", "what lint_entity yields for an occurrence depends on the contents, the keys of the file and the reference, not on the VALUES of the other occurrences"),
    # round 4: lint/util.py
    (M, "C19.default_reference", "default_reference_and_tests returns (None, None) for every path"),
    (M, "C19.mirror_skips_entries_without_reference", "mirror_reference_and_tests: removing an entry without `reference`, wherever it stands, changes no answer (it is skipped without shifting the others)"),
    (M, "C19.mirror_only_reference_entries", "the answers of mirror_reference_and_tests are those of the configuration restricted to its entries with a reference"),
    (M, "C19.mirror_first_covering_entry", "a path covered by an entry with a reference gets exactly THAT entry's reference matcher re-rooted at the reference project, and its tests (first matching entry in ProjectFiles.matchers order)"),
    (M, "C19.mirror_no_covering_entry", "a path no entry with a reference covers gets (None, None)"),
    (M, "C19.mirror_reference_rerooted", "the reference path is root-of-the-reference-project ++ the same expansion of the reference pattern (groups captured from the linted path); the root is dropped only for an absolute first segment"),
    (M, "C19.l10n_base_reference", "l10n_base_reference_and_tests: (None, None) iff ProjectFiles.match finds nothing, else the l10n path (first tuple member) and the entry's tests"),
    (M, "C19.l10n_base_skips_entries_without_reference", "ProjectFiles.match: an entry without reference whose l10n matcher does not apply is skipped without shifting the others"),
    (M, "C19.checker_needs_reference", "getChecker's table names all five classes; only DTDChecker needs set_reference(current)"),
    # round 4: lint/cli.py main
    (M, "C19.exit_status_zero_iff", "main returns 0 iff there are no results, or -W is absent and every result is a warning"),
    (M, "C19.exit_status_one_iff", "main returns 1 iff there is a result and (-W or some result is not a warning)"),
    (M, "C19.exit_status_le_one", "main's return value is 0 or 1"),
    (M, "C19.exit_status_error", "errors present => exit status 1, with or without -W"),
    (M, "C19.exit_status_warnings_only", "warnings only: exit status 1 exactly with -W"),
    (M, "C19.printed_lines", "one printed line per result, in result order, of the form `<path> (<line>:<column>): <message>`"),
    (M, "C19.main_usage_iff", "main ends in the usage error iff --l10n-reference is given and is not an existing directory"),
    (M, "C19.main_results", "main's results are those of ONE linter run over the reference files with a parser, each against the reference its callable resolved; the return value is the exit status of these results"),
    (M, "C19.main_duplicate_exits_one", "end to end: a duplicated ID in any linted file makes moz-l10n-lint exit 1, whatever the references and -W"),
    (M, "C19.main_junk_exits_one", "end to end: an unparsed region in any linted file makes moz-l10n-lint exit 1"),
    # round 4: KeyedTuple
    (M, "C19.keyed_contains_key", "`key in KeyedTuple`: some item has the key"),
    (M, "C19.keyed_contains_fallback", "fall-back to tuple.__contains__: an entity object is found among the items, an unhashable value never"),
    (M, "C19.keyed_getitem_key", "KeyedTuple[key] is the LAST item with the key; a missing key ends in TypeError"),
]
PARTIAL = []
TRUSTED = [
    "round 4: hand-written models Lint/Run.lean (the loop of L10nLinter.lint with its state, checks.getChecker), Lint/Util.lean (the three "
    "*_reference_and_tests callables, ProjectFiles.match) over the concrete Matcher model of C11/C12, Lint/Cli.lean (argument check, choice of the "
    "callable, run, exit status, printed lines of lint/cli.py main), Lint/Keyed.lean (KeyedTuple fall-backs); tied by c19.run / c19.getchecker / "
    "c19.refs / c19.main / c19.cliout / c19.keyed",
    "inputs of the project-level models taken from the real run: the ProjectFiles object (its Matcher objects serialised node by node; its "
    "construction is C13's subject), the order of files.iter_reference(), os.path (abspath, split, isdir, relpath), argparse, the TOML loader",
    "hand-written model CLModel/Lint/Linter.lean of L10nLinter.lint/lint_file, EntityLinter, Context.linecol, position/value_position "
    "(base, DTD, Fluent, Android), Junk.error_message, parser.getParser (tied by the `lint`/`getparser`/`linecol` correspondence)",
    "the parsed files (entity kinds, keys, spans), the value classes under `equals` and the tuples of checker.check(e, e) are INPUTS of the model, "
    "taken from the real parser/checker objects on every run (parsers: C01; checkers: C06-C09)",
    "result literals (levels, message texts, error_message format) and the parser table are regenerated from /repo by the translator",
]
ASSUMPTIONS = [
    "no third-party parser plugins (pkg_resources entry points `compare_locales.parsers`) are installed",
    "PO files are outside the property's format list (their keys are tuples); the linted formats are properties, dtd, ini, inc, ftl, android",
    "POSIX paths; the files of one run have pairwise distinct paths (lint_file_independent needs it; iter_reference() yields distinct paths)",
    "Matcher objects without `encoding` (the only value compare-locales itself uses), as in C11/C12",
]
LEVEL_TEXT = ("(round 4: also for ALL file lists — one run = concatenation of the per-file results, per-file results independent of the other files and "
              "of the order; for ALL configurations — entries without a reference are skipped without shifting the others, a covered path gets its entry's "
              "reference re-rooted; exit status of moz-l10n-lint ⇔ errors present / -W; tied by runs of the real L10nLinter over sequences of 2-4 files and "
              "of the real cli.main on generated TOML projects in all three modes.)  "
              "Lean 4 theorems over an executable transliteration of lint/linter.py: for ALL parsed files, reference files and checker outputs, "
              "lint_file is the per-occurrence concatenation of [duplicate error iff key count > 1] ++ [changed-ID warning iff value differs from the "
              "last reference entity with the key] ++ check results, junk yields exactly one error, clean files yield [], files without a parser are "
              "skipped; the model is tied to the Python by differential runs on generated source/reference files of six formats, and an independent "
              "oracle computes the expected results by construction from the generating records")
LEVEL_NOTE = ("trusted: Lean kernel; the hand-written models (validated by correspondence, not proved against Python); parsers, `equals` (the real "
              "method's verdict) and checkers enter as inputs taken from the real objects; for the command-line model also the ProjectFiles object, the "
              "order of iter_reference(), os.path and argparse; plugin parsers are not modelled")
TECHNIQUE = "Lean 4 proof over executable model + differential correspondence + by-construction oracle"

SCRATCH = "/tmp/wt/c19"
FORMATS = ["properties", "dtd", "ini", "inc", "ftl", "android"]
FNAME = {"properties": ["a.properties", "sub/b.properties"], "dtd": ["a.dtd", "x/y/c.dtd"], "ini": ["a.ini"], "inc": ["defines.inc"],
         "ftl": ["a.ftl", "browser/m.ftl"], "android": ["strings.xml", "res/values/strings_extra.xml"]}
UNKNOWN = ["a.txt", "a.properties.bak", "a.dtd~", "b.inc.orig", "a.ftl.txt", "strings.xml.bak", "a.xml", "string.xml", "a.ini2",
           "sub/a.json", "a.pots", "properties", "dtd"]

# ---------------------------------------------------------------------------------------------- value palettes
# (raw text, semantic id, [(level, message template)])  -- message templates may use {key}
FFFD = "�"
PALETTE = {
    "properties": [
        ("plain value", "v1", []),
        ("other text", "v2", []),
        ("A third", "v3", []),
        ("\\u0041 third", "v3", []),
        ("esc \\q here", "v4", [("warning", "unknown escape sequence, \\q")]),
        ("bad " + FFFD + " char", "v5", [("warning", FFFD + " in: {key}")]),
        ("%S of %S", "v6", []),
        ("", "v7", []),
    ],
    "dtd": [
        ("plain value", "v1", []),
        ("other text", "v2", []),
        ("a &amp; b", "v3", []),
        ("open <b>tag", "v4", [("warning", "can't parse en-US value"), ("error", "mismatched tag")]),
        # DTDEntity.val unescapes HTML entities: "a & b" is a re-spelling of "a &amp; b" (and not well-formed XML)
        ("a & b", "v3", [("warning", "can't parse en-US value"), ("error", "not well-formed (invalid token)")]),
        ("bad " + FFFD + " char", "v6", [("warning", FFFD + " in: {key}")]),
        ("", "v7", []),
        # values referencing entities: checked against ITSELF with the linted file as context (DTDChecker collects the known
        # entities from the file being linted), every reference made anywhere in the file is known -> no results,
        # whatever the reference version of the file mentions
        ("Welcome to &brandShortName;", "v8", []),
        ("see &OTHER; of &brandShortName;", "v9", []),
        ("&vendorShortName; and &OTHER;", "v10", []),
        # white space inside the quotes belongs to the value: a different string
        ("plain value ", "v1s", []),
    ],
    "ini": [
        ("plain value", "v1", []),
        ("other text", "v2", []),
        ("third", "v3", []),
        ("bad " + FFFD + " char", "v5", [("warning", FFFD + " in: {key}")]),
    ],
    "inc": [
        ("plain value", "v1", []),
        ("other text", "v2", []),
        ("third", "v3", []),
        ("bad " + FFFD + " char", "v5", [("warning", FFFD + " in: {key}")]),
    ],
    "ftl": [
        ("plain value", "v1", []),
        ("other text", "v2", []),
        ("with { $var } inside", "v3", []),
        ("dup attrs\n    .a = 1\n    .a = 2", "v4|a1a2", [("warning", 'Attribute "a" is duplicated'), ("warning", 'Attribute "a" is duplicated')]),
        ("bad " + FFFD + " char", "v5", [("warning", FFFD + " in: {key}")]),
        ("multi\n    line", "v6", []),
        # semantic ids are "<value>|<attributes>": messages compare value AND attributes, terms ignore attributes
        # (FluentTerm.ignored_fields), comments, spans and the indentation of continuation lines never count
        ("multi\n        line", "v6", []),                                  # only re-indented
        ("plain value\n    .title = T1", "v1|t1", []),
        ("plain value\n    .title = T2", "v1|t2", []),                      # only the attribute changed
        ("plain value\n    .title = T1\n    .alt = A", "v1|t1,alt", []),    # attribute added
        ("\n    .title = T1", "|t1", []),                                  # attribute-only message
        ("\n    .title = T2", "|t2", []),
    ],
    "android": [
        ("plain value", "v1", []),
        ("other text", "v2", []),
        ("it's here", "v3", [("error", "Apostrophe must be escaped")]),
        ('two ""quotes', "v4", [("error", "Double straight quotes not allowed")]),
        ("bad " + FFFD + " char", "v5", [("warning", FFFD + " in: {key}")]),
        ("<![CDATA[plain value]]>", "v1", []),
    ],
}
def pal_index(fmt, raw):
    return [i for i, x in enumerate(PALETTE[fmt]) if x[0] == raw][0]


# groups of palette entries that differ only in a detail (attribute, indentation, spelling, referenced entity)
SIBLINGS = {
    "ftl": [["plain value", "plain value\n    .title = T1", "plain value\n    .title = T2", "plain value\n    .title = T1\n    .alt = A"],
            ["\n    .title = T1", "\n    .title = T2"], ["multi\n    line", "multi\n        line"]],
    "dtd": [["Welcome to &brandShortName;", "see &OTHER; of &brandShortName;", "&vendorShortName; and &OTHER;", "plain value"],
            ["a &amp; b", "a & b"]],
    "properties": [["A third", "\\u0041 third"]],
    "android": [["plain value", "<![CDATA[plain value]]>"]],
}
# extra value pairs for the exhaustive part (besides the two plain values)
EXTRA_PAIRS = {
    "ftl": [("plain value\n    .title = T1", "plain value\n    .title = T2"), ("\n    .title = T1", "\n    .title = T2"),
            ("multi\n    line", "multi\n        line"), ("plain value", "plain value\n    .title = T1")],
    "dtd": [("Welcome to &brandShortName;", "see &OTHER; of &brandShortName;"), ("&vendorShortName; and &OTHER;", "plain value"),
            ("plain value", "plain value ")],
}


def sibling_of(fmt, val, rng):
    raw = PALETTE[fmt][val][0]
    for grp in SIBLINGS.get(fmt, []):
        if raw in grp:
            return pal_index(fmt, rng.choice([x for x in grp if x != raw]))
    return None


JUNK = {
    "properties": ["junk here", "no separator"],
    "dtd": ["<!ENTY junk>", "stray text"],
    "ini": ["junk here", "no separator"],
    "inc": ["junk here", "bad line"],
    "ftl": ["junk here", "= nope"],
    "android": ['<plurals name="p1"/>', "<string>noname</string>", '<item name="x">1</item>'],
}
KEYS = ["k1", "k2", "k3", "key.four", "k5"]


def key_for(fmt, k, term=False):
    if fmt == "inc":
        return k.replace(".", "_")
    if fmt == "ftl":
        k = k.replace(".", "-")
        return "-" + k if term else k
    return k


# ---------------------------------------------------------------------------------------------- printers
class Printed:
    """text of a file plus, per item, what the generator knows about it"""

    def __init__(self):
        self.text = ""
        self.items = []       # dicts: kind, key, sem, off (start offset of the entity / junk), voff, checks

    def linecol(self, off):
        line = self.text.count("\n", 0, off) + 1
        col = off - (self.text.rfind("\n", 0, off) + 1) + 1
        return line, col


def print_file(fmt, items):
    """items: list of dicts {kind: ent|junk|comment|blank, key, val (palette index), indent, sep, quote, attach}"""
    P = Printed()
    out = []
    pos = 0
    marks = []            # offsets at which an entity, a comment or a junk line starts

    def emit(s):
        nonlocal pos
        out.append(s)
        pos += len(s)

    if fmt == "android":
        emit('<?xml version="1.0" encoding="utf-8"?>\n<resources>\n')
    if fmt == "ini":
        emit("[Strings]\n")
    for it in items:
        k = it["kind"]
        if k == "blank":
            if fmt != "inc":
                emit("\n")
            continue
        if k == "comment":
            txt = it.get("text", "a comment")
            marks.append(pos)
            if fmt == "properties":
                emit("# %s\n" % txt)
            elif fmt in ("dtd", "android"):
                emit("<!-- %s -->\n" % txt)
            elif fmt == "ini":
                emit("; %s\n" % txt)
            elif fmt == "inc":
                emit("# %s\n" % txt)
            elif fmt == "ftl":
                emit("# %s\n\n" % txt)          # standalone comment (a blank line follows)
            continue
        if k == "junk":
            txt = it["text"]
            marks.append(pos)
            P.items.append({"kind": "junk", "off": pos, "text": txt})
            emit(txt + "\n")
            continue
        raw, sem, chk = it["rawval"] if "rawval" in it else PALETTE[fmt][it["val"]]
        term = bool(it.get("term", False)) and not raw.startswith("\n")     # a term needs a value
        if fmt == "ftl" and term:
            sem = sem.split("|")[0]                                          # terms compare without their attributes
        key = key_for(fmt, it["key"], term)
        # `&OTHER;` refers to another key of the same file (an entity referring to itself is not well-formed)
        raw = raw.replace("&OTHER;", "&%s;" % ("k2" if key == "k1" else "k1"))
        indent = " " * it.get("indent", 0)
        rec = {"kind": "ent", "key": key, "sem": sem, "checks": [(lv, msg.replace("{key}", key)) for lv, msg in chk]}
        if fmt == "properties":
            sep = it.get("sep", " = ")
            emit(indent)
            rec["off"] = pos
            emit(key + sep)
            rec["voff"] = pos
            emit(raw + "\n")
        elif fmt == "dtd":
            q = it.get("quote", '"')
            emit(indent)
            rec["off"] = pos
            emit("<!ENTITY %s %s" % (key, q))
            rec["voff"] = pos
            emit(raw + q + ">\n")
        elif fmt == "ini":
            rec["off"] = pos
            emit(key + "=")
            rec["voff"] = pos
            emit(raw + "\n")
        elif fmt == "inc":
            rec["off"] = pos
            emit("#define %s " % key)
            rec["voff"] = pos
            emit(raw + "\n")
        elif fmt == "ftl":
            rec["off"] = pos
            emit(key + (it.get("sep", " = ").rstrip(" ") if raw.startswith("\n") else it.get("sep", " = ")))
            rec["voff"] = rec["off"]           # Fluent value offsets count from the entry
            emit(raw + "\n")
        elif fmt == "android":
            emit(indent)
            rec["off"] = None
            rec["voff"] = None
            emit('<string name="%s">%s</string>\n' % (key, raw))
        if rec["off"] is not None:
            marks.append(rec["off"])
        P.items.append(rec)
    if fmt == "android":
        emit("</resources>\n")
    P.text = "".join(out)
    for i in P.items:
        if i["kind"] == "junk" and fmt != "android":
            if fmt == "ftl":
                i["end"] = i["off"] + len(i["text"])        # Fluent junk is stripped of surrounding white space
            else:
                # the unparsed region runs up to the next entity or comment (white space included), else to the end of the file
                i["end"] = min([m for m in marks if m > i["off"]], default=len(P.text))
    return P


# ---------------------------------------------------------------------------------------------- oracle
DUP = "Duplicate string with ID: %s"
CHG = "Changes to string require a new ID: %s"


def expected_results(fmt, cur, ref):
    """expected result multiset by construction.  cur/ref: Printed (ref may be None).
    Entries: (lineno, column, level, message, exact) ; for junk `message` is a required prefix (exact=False)."""
    exp = []
    ents = [i for i in cur.items if i["kind"] == "ent"]
    count = {}
    for i in ents:
        count[i["key"]] = count.get(i["key"], 0) + 1
    last_ref = {}
    if ref is not None:
        for i in ref.items:
            if i["kind"] == "ent":
                last_ref[i["key"]] = i["sem"]          # later records overwrite: the LAST one with the key
    for i in cur.items:
        if fmt == "android":
            lc = (0, 0)
        else:
            lc = cur.linecol(i["off"])
        if i["kind"] == "junk":
            if fmt == "android":
                exp.append((0, 0, "error", 'Unparsed content "%s" from line 0 column 0 to line 0 column -1' % i["text"], True))
            else:
                end = cur.linecol(i["end"])
                exp.append((lc[0], lc[1], "error", 'Unparsed content "%s" from line %d column %d to line %d column %d' % (
                    cur.text[i["off"]:i["end"]], lc[0], lc[1], end[0], end[1]), True))
            continue
        if count[i["key"]] > 1:
            exp.append((lc[0], lc[1], "error", DUP % i["key"], True))
        if i["key"] in last_ref and last_ref[i["key"]] != i["sem"]:
            exp.append((lc[0], lc[1], "warning", CHG % i["key"], True))
        for lv, msg in i["checks"]:
            exp.append((None, None, lv, msg, True))       # position of check results: see check_positions
    return exp


def match_expected(exp, got):
    """multiset comparison; returns None or a message"""
    got = list(got)
    for (ln, col, lv, msg, exact) in exp:
        hit = None
        for j, g in enumerate(got):
            if g["level"] != lv:
                continue
            if exact and g["message"] != msg:
                continue
            if not exact and not g["message"].startswith(msg):
                continue
            if ln is not None and (g["lineno"], g["column"]) != (ln, col):
                continue
            if not exact and ("from line %d column %d to line " % (ln, col)) not in g["message"]:
                continue
            hit = j
            break
        if hit is None:
            return "missing result: %s at %s:%s %r%s" % (lv, ln, col, msg, "" if exact else "…")
        got.pop(hit)
    if got:
        g = got[0]
        return "unexpected result: %s at %s:%s %r" % (g["level"], g["lineno"], g["column"], g["message"])
    return None


def ref_linecol(text, off):
    return text.count("\n", 0, off) + 1, off - (text.rfind("\n", 0, off) + 1) + 1


def check_positions(fmt, desc, got):
    """independent reference for the positions of check results (the tuples come from a separate run of the
    real checker): EntityPos n -> n characters after the start of the entity, int n -> n characters into the value
    (Fluent: into the entry; Android: line 0, column n), DTD (line, col) tuples -> relative to the value."""
    if desc is None:
        return None
    text = desc["contents"]
    for e in desc["ents"]:
        if e["junk"]:
            continue
        for lv, pk, p, msg in e["checks"]:
            if pk == "T":
                # (line, col) of the DTD checker, relative to the value (first value line = 1): same line -> the column is added
                # to the value's column, later lines -> the column stands; the pseudo position (0, 0) lands on the line before
                vl, vc = ref_linecol(text, e["vs"][0])
                want = (vl + p[0] - 1, vc + p[1] if p[0] == 1 else p[1])
            elif e["mode"] == "n":
                want = (0, p)
            elif pk == "P" or e["mode"] == "f":
                want = ref_linecol(text, e["s"] + p)
            else:
                want = ref_linecol(text, e["vs"][0] + p)
            if not any(g["level"] == lv and g["message"] == msg and (g["lineno"], g["column"]) == want for g in got):
                return "check result %s %r of %s not reported at %s" % (lv, msg, e["key"], want)
    return None


# ---------------------------------------------------------------------------------------------- generators
def ref_variants_exhaustive(items, vals=(0, 1)):
    """reference versions derived from the records: identical, each record re-valued, each record dropped"""
    ents = [j for j, it in enumerate(items) if it["kind"] == "ent"]
    yield "identical", list(items)
    for j in ents:
        v = dict(items[j])
        v["val"] = vals[1] if v["val"] == vals[0] else vals[0]
        yield "revalue%d" % j, items[:j] + [v] + items[j + 1:]
        yield "drop%d" % j, items[:j] + items[j + 1:]


def gen_exhaustive(ctx, fmt, vals=(0, 1), L=None):
    """all record lists over 2 keys x 2 values + junk up to length L, times derived references"""
    if L is None:
        L = 3 if ctx.tier == "quick" else 4
    syms = [{"kind": "ent", "key": k, "val": v} for k in ("k1", "k2") for v in vals] + [{"kind": "junk", "text": JUNK[fmt][0]}]
    cases = []
    for n in range(L + 1):
        for seq in itertools.product(range(len(syms)), repeat=n):
            if any(seq[i] == 4 and seq[i + 1] == 4 for i in range(n - 1)):
                continue                                  # adjacent junk lines are ONE unparsed region
            items = [dict(syms[s]) for s in seq]
            cases.append((items, None, "noref"))
            if n <= 3:
                cases.append((items, "missing", "missing"))
                for name, r in ref_variants_exhaustive(items, vals):
                    cases.append((items, [x for x in r if x["kind"] != "junk"], name))
    return cases


def gen_exhaustive_extra(ctx, fmt):
    """the same with value pairs that differ only in a detail (Fluent attributes / indentation, DTD entity references)"""
    cases = []
    for a, b in EXTRA_PAIRS.get(fmt, []):
        cases += gen_exhaustive(ctx, fmt, (pal_index(fmt, a), pal_index(fmt, b)), 2 if ctx.tier == "quick" else 3)
    return cases


def gen_random(ctx, fmt, n):
    rng = ctx.rng("c19", fmt)
    cases = []
    for _ in range(n):
        m = rng.randrange(1, 11)
        nk = rng.choice([2, 3, 5])
        items = []
        for _j in range(m):
            r = rng.random()
            if r < 0.62:
                it = {"kind": "ent", "key": rng.choice(KEYS[:nk]), "val": rng.randrange(len(PALETTE[fmt]))}
                if fmt in ("properties", "dtd", "android") and rng.random() < 0.3:
                    it["indent"] = rng.choice([1, 2, 4])
                if fmt == "properties":
                    it["sep"] = rng.choice([" = ", "=", ": ", " : ", "\t=\t"])
                if fmt == "dtd":
                    it["quote"] = rng.choice(['"', "'"])
                if fmt == "ftl":
                    it["sep"] = rng.choice([" = ", "=", " =   "])
                    it["term"] = rng.random() < 0.2
                items.append(it)
            elif r < 0.76:
                prev = [x for x in items if x["kind"] != "blank"]
                if prev and prev[-1]["kind"] == "junk":
                    continue                           # junk lines separated by white space only are ONE unparsed region
                items.append({"kind": "junk", "text": rng.choice(JUNK[fmt])})
            elif r < 0.9:
                items.append({"kind": "comment", "text": rng.choice(["a comment", "note: x", "two\n# lines" if fmt in ("properties", "inc") else "other"])})
            else:
                if items and items[-1]["kind"] == "junk" and fmt == "ftl":
                    continue
                items.append({"kind": "blank"})
        # reference: derived by re-valuing / re-spelling / dropping records, sometimes with an extra earlier or later duplicate
        mode = rng.random()
        if mode < 0.15:
            ref = None
        elif mode < 0.22:
            ref = "missing"
        else:
            ref = []
            for it in items:
                if it["kind"] != "ent":
                    if it["kind"] in ("comment", "junk") and rng.random() < 0.5:
                        ref.append(dict(it))
                    continue
                r = rng.random()
                v = dict(it)
                if r < 0.15:
                    continue                                       # dropped
                if r < 0.4:
                    v["val"] = rng.randrange(len(PALETTE[fmt]))    # re-valued (may be the same or a re-spelling)
                    sib = sibling_of(fmt, it["val"], rng)
                    if sib is not None and rng.random() < 0.6:
                        v["val"] = sib                             # ... or changed in a detail only
                if r > 0.9:
                    extra = dict(it)
                    extra["val"] = rng.randrange(len(PALETTE[fmt]))
                    if rng.random() < 0.5:
                        ref.append(extra)                          # earlier duplicate in the reference: must be ignored
                        ref.append(v)
                    else:
                        ref.append(v)
                        ref.append(extra)                          # later duplicate: this one counts
                    continue
                for sty in ("sep", "quote", "indent"):
                    if sty in v and rng.random() < 0.3:
                        v.pop(sty)
                ref.append(v)
            if rng.random() < 0.1:
                ref.append({"kind": "ent", "key": "refonly", "val": 0})
        cases.append((items, ref, "random"))
    return cases


def build_case(fmt, idx, items, ref, with_unknown=False, util=None, crlf=False):
    cur = print_file(fmt, items)
    names = FNAME[fmt]
    path = names[idx % len(names)]
    if ref is None or ref == "missing":
        rp = None
        rtext = ref
    else:
        rp = print_file(fmt, ref)
        rtext = rp.text
    ctext = cur.text
    if crlf:
        # the files are read with universal newlines: CRLF on disk must not change anything
        ctext = ctext.replace("\n", "\r\n")
        if rp is not None:
            rtext = rtext.replace("\n", "\r\n")
    files = [{"path": path, "text": ctext, "ref": rtext}]
    unknown = []
    if with_unknown:
        u = UNKNOWN[idx % len(UNKNOWN)]
        # content that WOULD be reported if the file were parsed as anything line based
        files.insert(idx % 2, {"path": u, "text": "k1 = a\nk1 = b\njunk here\n", "ref": None})
        unknown.append(u)
    return {"dir": "c%d" % idx, "files": files, "util": util}, {"fmt": fmt, "path": path, "cur": cur, "ref": rp, "unknown": unknown}


def gen_special(fmt):
    """hand-written files with their expected results: (text, reference text or None, expected entries, name)"""
    comment = {"properties": "# only a comment\n\n", "dtd": "<!-- only a comment -->\n\n", "ini": "; only a comment\n\n[Strings]\n",
               "inc": "# only a comment\n", "ftl": "# only a comment\n\n",
               "android": '<?xml version="1.0" encoding="utf-8"?>\n<resources>\n<!-- only a comment -->\n</resources>\n'}[fmt]
    out = [(comment, None, [], "comments-only"), (comment, comment, [], "comments-only-ref")]
    if fmt == "android":
        xj = 'Unparsed content "%s" from line 0 column 0 to line 0 column -1'
        out.append(("", None, [(0, 0, "error", xj % "", True)], "empty"))
        bad = '<resources>\n<string name="a">x</string>\n'
        out.append((bad, None, [(0, 0, "error", xj % bad, True)], "malformed"))
        out.append(('<foo><string name="a">x</string><string name="a">y</string></foo>', None,
                    [(0, 0, "error", 'Unparsed content "<?xml', False)], "wrong-root"))
    else:
        out.append(("", None, [], "empty"))
        out.append(("", comment, [], "empty-with-ref"))
    if fmt == "properties":
        out.append(("# License block\n\nk1 = v\nk1 = w\n", None,
                    [(3, 1, "error", DUP % "k1", True), (4, 1, "error", DUP % "k1", True)], "license-header"))
        out.append(("# LOCALIZATION NOTE Localization_and_Plurals\nk1 = one;two;three\n", "k1 = one;two\n",
                    [(2, 1, "warning", CHG % "k1", True), (2, 6, "warning", "expecting 2 plurals, found 3", True)], "plural-comment"))
        out.append(("k1 = a\\\n   b\nk1 = c\n", "k1 = ab\n",
                    [(1, 1, "error", DUP % "k1", True), (3, 1, "error", DUP % "k1", True), (3, 1, "warning", CHG % "k1", True)], "continuation-line"))
    if fmt == "dtd":
        out.append(('<!ENTITY a "x">\n<!ENTITY % fooDTD SYSTEM "chrome://foo.dtd">\n%fooDTD;\n<!ENTITY a "y">\n', '<!ENTITY a "y">\n',
                    [(1, 1, "error", DUP % "a", True), (1, 1, "warning", CHG % "a", True), (4, 1, "error", DUP % "a", True)], "parsed-entity"))
    if fmt == "inc":
        out.append(("#define a 1\n\n\n#define a 2\n", None,
                    [(1, 1, "error", DUP % "a", True), (1, 12, "error", 'Unparsed content "\n\n\n" from line 1 column 12 to line 4 column 1', True),
                     (4, 1, "error", DUP % "a", True)], "blank-lines-are-junk"))
        out.append(("#filter emptyLines\n#define a 1\n\n#define b\n#unfilter emptyLines\n", "#define a 1\n#define b x\n",
                    [(4, 1, "warning", CHG % "b", True)], "instructions"))
    if fmt == "dtd":
        # each string is checked against itself with the LINTED file as context: an entity referenced anywhere in the linted
        # file is known, whether or not the reference version of the file mentions it
        out.append(('<!ENTITY a "Welcome to &brandShortName;">\n<!ENTITY b "see &a;">\n', '<!ENTITY a "Welcome">\n<!ENTITY b "see">\n',
                    [(1, 1, "warning", CHG % "a", True), (2, 1, "warning", CHG % "b", True)], "entity-refs-revalued-in-reference"))
        out.append(('<!ENTITY a "Welcome to &brandShortName;">\n<!ENTITY b "plain">\n', '<!ENTITY b "plain">\n',
                    [], "entity-ref-dropped-in-reference"))
    if fmt == "ftl":
        out.append(("k1 = v\n    .title = T1\n", "k1 = v\n    .title = T2\n", [(1, 1, "warning", CHG % "k1", True)], "attribute-changed"))
        out.append(("k1 = v\n    .title = T1\n", "k1 = v\n", [(1, 1, "warning", CHG % "k1", True)], "attribute-added"))
        out.append(("k1 =\n    .title = T1\n", "k1 =\n    .title = T2\n", [(1, 1, "warning", CHG % "k1", True)], "attribute-only-message"))
        out.append(("k1 = multi\n    line\n", "# c\nk1 = multi\n          line\n", [], "re-indented"))
        out.append(("-t1 = v\n    .gender = m\n", "-t1 = v\n    .gender = f\n", [], "term-attributes-ignored"))
        out.append(("# attached\nk1 = v\nk1 = v\n", "k1 = v\n", None, "attached-comment"))
    return [o for o in out if o[2] is not None]


def clean_scratch():
    """remove the run-* directories of the worker processes (never the whole scratch area: mutation copies live there)"""
    try:
        for d in os.listdir(SCRATCH):
            if d.startswith("run-"):
                shutil.rmtree(os.path.join(SCRATCH, d), ignore_errors=True)
    except OSError:
        pass


def describe(items):
    return [{k: v for k, v in it.items()} for it in items]


def finding_of(fmt, msg):
    return None


def classify(v):
    return v.get("finding")


def judge(fmt, info, r):
    """property oracle on the implementation's results; returns None or a message"""
    if r.get("exc") == "Hang":
        return "linting does not terminate"
    if "exc" in r:
        return "linting raised %s: %s" % (r["exc"], r.get("msg"))
    res = r["r"]["results"]
    for u in info["unknown"]:
        if any(g["path"] == u for g in res):
            return "a file without a parser (%s) was linted" % u
    mine = [g for g in res if g["path"] == info["path"]]
    if len(mine) + sum(1 for g in res if g["path"] in info["unknown"]) != len(res):
        return "a result carries a path that was not linted"
    exp = info["expect"] if info.get("expect") is not None else expected_results(fmt, info["cur"], info["ref"])
    bad = match_expected(exp, mine)
    if bad:
        return bad
    descs = [d for d in r["r"]["files"] if d is not None]
    for d in descs:
        bad = check_positions(fmt, d, mine)
        if bad:
            return bad
    return None


def run(ctx):
    from props import c19_round4 as R4
    out = Outcome()
    out.rule = ("per format (properties, dtd, ini, inc, ftl, android): every record list over 2 keys x 2 values + a junk line up to length 3 (quick) / 4 "
                "(thorough), each without reference, with a missing reference path and with every reference derived by re-valuing or dropping one record; "
                "plus seeded random record lists of 1-10 items (5 keys, value palettes with check-violating values, re-spellings, comments, indentation, "
                "separators, quotes, Fluent terms) with references derived by re-valuing / re-spelling / dropping records and by adding an earlier or later "
                "duplicate, files without a parser mixed in, reference paths from lint/util.py; plus parser selection on generated paths and linecol on "
                "generated texts. non-trivial = at least one result; distinct = distinct (format, canonical result list without directory). "
                "Round 4: one key occurring 3-4 times with disagreeing values against references holding it once or twice; ONE L10nLinter.lint call over "
                "sequences of 2-4 files (four .dtd files referencing different entities in every ordered pair and triple, same-format and mixed-format "
                "sequences, files without parser in between, the same three files in all six orders), expected = concatenation of the per-file expectations; "
                "generated TOML projects (1-4 [[paths]] entries with / without reference in every order, overlapping entries, tests, excluded configs, "
                "basepath, working directory) linted by the real cli.main in default / --reference-project / --l10n-reference mode and queried through "
                "the callables of lint/util.py, expected reference file / tests / results / printed lines / exit status by construction; main on prescribed "
                "result lists (all level combinations up to length 3, with and without -W / positions); getChecker on generated paths; KeyedTuple "
                "membership and indexing with keys, objects, unhashable values and ints")
    os.makedirs(SCRATCH, exist_ok=True)
    allcases = []
    for fmt in FORMATS:
        cs = gen_exhaustive(ctx, fmt) + gen_exhaustive_extra(ctx, fmt) + R4.gen_occurrences(ctx, fmt)
        out.count("%s.exhaustive" % fmt, len(cs))
        rnd = gen_random(ctx, fmt, ctx.n(500, 12000))
        out.count("%s.random" % fmt, len(rnd))
        for idx, (items, ref, name) in enumerate(cs + rnd):
            random_part = idx >= len(cs)
            util = {3: "mirror", 5: "l10n_base"}.get(idx % 7) if random_part else None
            case, info = build_case(fmt, idx, items, ref, with_unknown=(random_part and idx % 3 == 0), util=util,
                                    crlf=(random_part and idx % 11 == 4))
            info["items"] = items
            info["refitems"] = ref
            info["name"] = name
            allcases.append((case, info))
        for j, (text, rtext, expect, name) in enumerate(gen_special(fmt)):
            case = {"dir": "s%d" % j, "files": [{"path": FNAME[fmt][0], "text": text, "ref": rtext}], "util": None}
            info = {"fmt": fmt, "path": FNAME[fmt][0], "cur": None, "ref": None, "unknown": [], "expect": expect,
                    "items": [{"kind": "special", "name": name}], "refitems": None, "name": name}
            allcases.append((case, info))
            out.count("%s.special" % fmt)
    res = pool.pmap("impl.lint", "impl_case", [[c] for c, _ in allcases], timeout=6.0, batch=24)
    lines = [(r["r"]["line"] if "r" in r else None) for r in res]
    todo = [l for l in lines if l is not None]
    model = C.run_driver_parallel(todo) if (ctx.model_ok and todo) else []
    mit = iter(model)
    for (case, info), r, line in zip(allcases, res, lines):
        fmt = info["fmt"]
        out.evaluations += 1
        mo = next(mit, None) if line is not None else None
        bad = judge(fmt, info, r)
        if info.get("cur") is not None:
            for x in expected_results(fmt, info["cur"], info["ref"]):
                out.count("expected." + ("junk" if x[3].startswith("Unparsed") else "duplicate" if x[3].startswith("Duplicate")
                                         else "changed" if x[3].startswith("Changes") else "check"))
        if "r" in r:
            canon = r["r"]["canon"]
            short = " | ".join("%s %s %s %s" % (g["lineno"], g["column"], g["level"], g["message"]) for g in r["r"]["results"])
            if r["r"]["results"]:
                out.nontrivial.add((fmt, short))
            out.count("%s.results=%d" % (fmt, min(len(r["r"]["results"]), 6)))
        else:
            canon = r.get("exc")
        if bad:
            inp = {"fmt": fmt, "items": describe(info["items"]), "ref": info["refitems"] if not isinstance(info["refitems"], list) else describe(info["refitems"]),
                   "case": case}
            out.violations.append({"what": "%s: %s" % (fmt, bad), "input": inp, "finding": finding_of(fmt, bad), "op": "lint"})
            out.count("%s.violations" % fmt)
        elif ctx.model_ok and mo is not None and mo != canon:
            out.disagreements.append({"op": "lint", "fmt": fmt, "files": case["files"], "impl": canon, "model": mo})
        if len(out.samples) < 12 and "r" in r and len(r["r"]["results"]) >= 3 and out.distribution.get("sampled." + fmt, 0) < 2:
            out.count("sampled." + fmt)
            out.samples.append({"fmt": fmt, "source": case["files"][-1 if case["files"][0]["path"] in UNKNOWN else 0]["text"],
                                "reference": case["files"][-1 if case["files"][0]["path"] in UNKNOWN else 0]["ref"],
                                "results": r["r"]["results"]})
    run_paths(ctx, out)
    run_linecol(ctx, out)
    run_probes(ctx, out)
    R4.run_all(ctx, out)
    clean_scratch()
    return out


# ---------------------------------------------------------------------------------------------- parser selection, linecol
PATH_TOKENS = ["a", "strings", ".xml", ".dtd", ".properties", ".ini", ".inc", ".ftl", ".po", ".pot", ".txt", "/", "x", "\n", ".bak", "t", "~"]
EXT_WITH_PARSER = (".dtd", ".properties", ".ini", ".inc", ".ftl", ".po", ".pot")


def ref_has_parser(path):
    """independent reference: a supported extension at the end of the path (a final newline is tolerated like `$` does),
    or 'strings' ... '.xml' at the end with no newline in between"""
    p = path[:-1] if path.endswith("\n") else path
    if p.endswith(EXT_WITH_PARSER):
        return True
    if p.endswith(".xml"):
        head = p[:-4]
        i = head.rfind("strings")
        return i >= 0 and "\n" not in head[i:]
    return False


def run_paths(ctx, out):
    rng = ctx.rng("c19.paths")
    paths = []
    L = 3
    for n in range(L + 1):
        for toks in itertools.product(PATH_TOKENS, repeat=n):
            paths.append("".join(toks))
    for _ in range(ctx.n(500, 20000)):
        paths.append("".join(rng.choice(PATH_TOKENS) for _ in range(rng.randrange(4, 8))))
    paths = sorted(set(paths))
    res = pool.pmap("impl.lint", "impl_getparser", [[p] for p in paths], timeout=3.0, batch=400)
    model = C.run_driver_parallel(["c19.getparser %s" % C.enc(p) for p in paths]) if ctx.model_ok else [None] * len(paths)
    for p, r, mo in zip(paths, res, model):
        out.evaluations += 1
        got = r.get("r") if "exc" not in r else "exc:" + r["exc"]
        canon = "none" if got is None else C.enc(got)
        if got is not None:
            out.nontrivial.add(("parser", got))
        out.count("paths.%s" % ("with-parser" if got else "no-parser"))
        if (got is not None) != ref_has_parser(p):
            out.violations.append({"what": "parser selection: %r %s" % (p, "has a parser but no supported extension" if got else "has a supported extension but no parser"),
                                   "input": {"path": p}, "op": "getparser"})
        elif mo is not None and mo != canon:
            out.disagreements.append({"op": "getparser", "path": p, "impl": canon, "model": mo})


def run_linecol(ctx, out):
    rng = ctx.rng("c19.linecol")
    cases = []
    alpha = ["a", "\n", "b ", "\n\n", "é", "\r"]
    for n in range(5):
        for toks in itertools.product(alpha[:3], repeat=n):
            t = "".join(toks)
            for pos in range(-1, len(t) + 2):
                cases.append((t, pos))
    for _ in range(ctx.n(300, 5000)):
        t = "".join(rng.choice(alpha) for _ in range(rng.randrange(0, 12)))
        cases.append((t, rng.randrange(-2, len(t) + 3)))
    res = pool.pmap("impl.lint", "impl_linecol", [[t, p] for t, p in cases], timeout=3.0, batch=400)
    model = C.run_driver_parallel(["c19.linecol %s %d" % (C.enc(t), p) for t, p in cases]) if ctx.model_ok else [None] * len(cases)
    for (t, p), r, mo in zip(cases, res, model):
        out.evaluations += 1
        if "exc" in r:
            out.violations.append({"what": "linecol raised %s" % r["exc"], "input": {"text": t, "pos": p}, "op": "linecol"})
            continue
        got = tuple(r["r"])
        if 0 <= p <= len(t):
            want = ref_linecol(t, p)
            if got != want:
                out.violations.append({"what": "linecol(%d) = %s, expected line/column %s" % (p, got, want), "input": {"text": t, "pos": p}, "op": "linecol"})
                continue
        canon = "%d %d" % got
        if mo is not None and mo != canon:
            out.disagreements.append({"op": "linecol", "text": t, "pos": p, "impl": canon, "model": mo})


PROBES = [
    # excluded by `fits`: a (line, col) tuple handed to a base entity -> TypeError
    {"cls": "base", "text": "one = two\n", "span": [0, 9], "key_span": [0, 3], "val_span": [6, 9], "checks": [["error", "T", [1, 2], "m"]]},
    # excluded by `fits`: a value offset on an entity without a value span -> AssertionError
    {"cls": "base", "text": "one = two\n", "span": [0, 9], "key_span": [0, 3], "val_span": None, "checks": [["error", "V", 1, "m"]]},
    # an earlier result does not survive a later raise
    {"cls": "base", "text": "one = two\n", "span": [0, 9], "key_span": [0, 3], "val_span": None,
     "checks": [["warning", "P", 1, "fine"], ["error", "V", 1, "m"]]},
    # inside the domain: DTD tuples on the first and on a later line, the (0, 0) pseudo position
    {"cls": "dtd", "text": "\n<!ENTITY a \"x\ny\">\n", "span": [1, 19], "key_span": [10, 11], "val_span": [13, 16],
     "checks": [["error", "T", [1, 2], "m1"], ["error", "T", [2, 1], "m2"], ["warning", "T", [0, 0], "m0"]]},
    # negative offsets mean "end of the entity" / "end of the value"
    {"cls": "base", "text": "a\none = two\n", "span": [2, 11], "key_span": [2, 5], "val_span": [8, 11],
     "checks": [["warning", "P", -1, "e"], ["warning", "V", -1, "v"], ["warning", "P", 0, "p0"], ["warning", "V", 2, "v2"]]},
    # an entity position without a value span is fine
    {"cls": "base", "text": "one = two\n", "span": [0, 9], "key_span": [0, 3], "val_span": None, "checks": [["warning", "P", 4, "m"]]},
]


def run_probes(ctx, out):
    res = pool.pmap("impl.lint", "impl_probe", [[p] for p in PROBES], timeout=5.0)
    lines = [r["r"]["line"] for r in res if "r" in r]
    model = C.run_driver(lines) if (ctx.model_ok and lines) else []
    mit = iter(model)
    for p, r in zip(PROBES, res):
        out.evaluations += 1
        if "r" not in r:
            out.disagreements.append({"op": "probe", "spec": p, "impl": r, "model": None})
            continue
        mo = next(mit, None)
        out.count("probe." + r["r"]["canon"].split(" ")[0])
        if r["r"]["canon"].startswith("raise"):
            out.nontrivial.add(("probe", r["r"]["canon"]))
        if mo is not None and mo != r["r"]["canon"]:
            out.disagreements.append({"op": "probe", "spec": p, "impl": r["r"]["canon"], "model": mo})


def replay(payload):
    from props import c19_round4 as R4
    res = []
    for v in payload.get("violations", []):
        i = v["input"]
        if v.get("op") == "lint":
            fmt = i["fmt"]
            ref = i["ref"]
            if i["items"] and i["items"][0].get("kind") == "special":
                sp = [x for x in gen_special(fmt) if x[3] == i["items"][0]["name"]][0]
                info = {"fmt": fmt, "path": FNAME[fmt][0], "cur": None, "ref": None, "unknown": [], "expect": sp[2]}
            else:
                case, info = build_case(fmt, int(i["case"]["dir"][1:]), i["items"], ref,
                                        with_unknown=len(i["case"]["files"]) > 1, util=i["case"].get("util"))
            os.makedirs(SCRATCH, exist_ok=True)
            r = pool.pmap("impl.lint", "impl_case", [[i["case"]]], timeout=10.0)[0]
            res.append({"input": i, "results": r.get("r", {}).get("results") if "r" in r else r, "oracle": judge(fmt, info, r)})
        elif v.get("op") in ("multi", "project", "cliout", "getchecker", "keyed"):
            res.append(R4.replay_one(v))
        elif v.get("op") == "getparser":
            r = pool.pmap("impl.lint", "impl_getparser", [[i["path"]]], timeout=5.0)[0]
            got = r.get("r")
            res.append({"input": i, "parser": got, "oracle": None if (got is not None) == ref_has_parser(i["path"]) else "parser selection differs"})
        elif v.get("op") == "linecol":
            r = pool.pmap("impl.lint", "impl_linecol", [[i["text"], i["pos"]]], timeout=5.0)[0]
            got = tuple(r["r"]) if "r" in r else None
            res.append({"input": i, "linecol": got, "oracle": None if got == ref_linecol(i["text"], i["pos"]) else "linecol differs"})
    clean_scratch()
    return {"violates": any(r["oracle"] for r in res), "cases": res}

"""C08 — Fluent: structural mismatches are errors, text differences never are."""
import itertools
from collections import Counter

from lib import common as C
from lib import pool
from lib.runner import Outcome

ID = "C08"
LEAN_TARGETS = ["CLModel.Props.C08"]
M = "CLModel.Props.C08"
THEOREMS = [
    (M, "C08.check_total", "check never raises: the plural lookup is total on the generated tables"),
    (M, "C08.ftl_error_iff", "an error is yielded iff value presence differs, an attribute name is on one side only, or a style attribute is a single text that parse_css_spec/check_style refuse"),
    (M, "C08.ftl_error_iff_term_reference", "with a term as reference of a message (no visit_Term): error iff the localization has a value, names differ or a bad style"),
    (M, "C08.ftl_error_count", "exactly one error per bad style occurrence, per differing value side, per attribute name in the symmetric difference (obsolete ones at the last occurrence)"),
    (M, "C08.ftl_text_irrelevant", "same value presence, same attribute-name set, no bad style: no error, for all patterns/placeables/variants"),
    (M, "C08.term_never_error", "every result of checking a term is a warning, whatever the reference"),
    (M, "C08.term_ignores_reference", "the reference entry plays no role when the localized entry is a term"),
    (M, "C08.check_sorted_stable", "results = U+FFFD warnings, then a stable sort by position of the visitor messages"),
    (M, "C08.check_message_structure", "the message list of check_message is: duplicate-attribute warnings, per-node messages of the value, per attribute per-node + CSS messages, value/attribute errors, missing-reference warnings"),
    (M, "C08.check_term_structure", "check_term = duplicate-attribute warnings + check_variants of every select expression anywhere in the term (deep)"),
    (M, "C08.ref_slot_names", "the names the reference visitor records for a slot are the references met in that slot's patterns (selectors / term arguments not visited)"),
    (M, "C08.node_messages", "a message/term reference yields one Obsolete-reference warning iff its name is not recorded for the same slot of the reference; a select yields check_variants"),
    (M, "C08.ftl_missing_ref_warnings", "one Missing-reference warning per slot and distinct recorded name of the reference that the localization lacks in the same slot, and nothing else"),
    (M, "C08.ftl_dup_attribute_warnings", "one duplicate warning per attribute occurrence whose name occurs at least twice (multiset)"),
    (M, "C08.ftl_dup_variant_warnings", "one duplicate warning per variant whose key (type + text) occurs at least twice (multiset), then the plural warning"),
    (M, "C08.ftl_plural_warning", "plural warning iff a non-`other` category of the locale is used and some category is missing; one warning, at the first key, sorted distinct missing categories"),
    (M, "C08.plural_lookup", "categories are looked up by the locale, then by its part before the first '-'"),
    (M, "C08.css_models_agree", "the Fluent-side and the DTD-side model of CSSCheckMixin.parse_css_spec return the same map and errors on every text"),
    (M, "C08.css_grammar_accepts", "every spec of the independent grammar CssSpec (props/units read off the generated regex) is parsed without errors into exactly the dict of its declarations"),
    (M, "C08.css_grammar_map_distinct", "with pairwise distinct property names that dict is the list of (property, unit) pairs as written"),
    (M, "C08.css_grammar_not_bad", "a grammatical spec is never `cssBad`"),
    (M, "C08.style_grammar_not_bad", "a style attribute whose value is one grammatical text element is never `badStyle`"),
    (M, "C08.css_spec_errors", "a spec with defective gaps (white space without semicolon / junk) gives the map of all declarations and exactly one error per defective gap"),
    (M, "C08.css_defect_bad", "any such defect makes the style bad (the check yields the error)"),
    (M, "C08.css_missing_semicolon", "two correct blocks with only white space or nothing between them: exactly css-missing-semicolon at the end of the first, style bad"),
    (M, "C08.css_junk_after", "junk after a correct spec: exactly css-bad-content at the end of the last declaration, style bad"),
    (M, "C08.css_junk_before", "junk before a correct spec: exactly css-bad-content at 0, style bad"),
]
PARTIAL = [
    "`badStyle`/`cssBad` in ftl_error_iff is the verdict of the modelled parse_css_spec + check_style (regex level).  It is now related to an "
    "independent grammar by theorems: every CssSpec value is accepted with exactly its declarations (css_grammar_accepts, soundness of the grammar "
    "w.r.t. the code) and the defect classes missing semicolon / touching declarations / junk before, between, after are refused with exactly the "
    "stated error (css_spec_errors and instances).  NOT proved: completeness (`cssBad v = false -> v is in the grammar`) for arbitrary texts, e.g. "
    "`;;` or junk containing m/w/h; that direction is still only checked differentially against the harness's reference grammar `css_reference`",
    "the order of the `Missing attribute:` errors among themselves comes from a Python set iteration and is not modelled (theorems state the set with multiplicity, the harness canonicalises the run)",
    "the contents of the CSS *warning* texts (units mismatch / only in l10n / only in reference, incl. the in-place ref_map.pop across duplicate style attributes) are modelled and "
    "corresponded but have no theorem (the property does not mention them)",
]
TRUSTED = [
    "hand-written model CLModel/Checks/Fluent.lean of checks/fluent.py + CSSCheckMixin + Checker.check + plurals.get_plural "
    "(tied to the Python by the `ftl.check` / `css.parse` / `ftl.plural` correspondence)",
    "the fluent.syntax AST handed to the model is what fluent.syntax 0.19 produced (serialised by harness/impl/fluentcheck.py)",
    "regexes (_css_spec, _css_sep, mochibake), MSGS templates, check_style / Checker.check string constants and plural tables are regenerated from /repo on every run",
    "the plural table itself is taken as given (there is no second source for CLDR data in the sandbox): a wrong table entry is followed by model and oracle alike",
]
ASSUMPTIONS = [
    "the iteration order of a Python set is unspecified: the run of `Missing attribute:` errors (all at position 0) is compared "
    "as the reference's attribute order on both sides",
    "ASTs carry spans (FluentParser(with_spans=True), as compare-locales creates it)",
]
LEVEL_TEXT = ("Lean 4 theorems over an executable transliteration of FluentChecker (the three AST visitors as folds over the exact traversal "
              "order, check_message/check_term, CSS style check, plural lookup, stable sort): for ALL fluent.syntax ASTs and all locales an error is "
              "reported iff value presence differs, an attribute name is on one side only or a style attribute is refused by parse_css_spec, with exactly "
              "one error each; text/placeable/variant differences never give errors; terms only ever give warnings; reference, duplicate and plural "
              "warnings are characterised exactly. The model is tied to the Python by differential runs on FTL generated from a shape grammar and parsed "
              "by the real parser, for every locale of the plural table, and an independent shape-level oracle checks the claims on the implementation")
LEVEL_NOTE = ("trusted: Lean kernel; hand-written model validated by full-result correspondence (severity, position, text, category); the AST is an "
              "input (fluent.syntax is external); `not a parseable CSS spec` is the code's own regex verdict in ftl_error_iff, related to an independent "
              "grammar by css_grammar_accepts / css_spec_errors (soundness and the named defect classes; completeness only in the harness oracle); set iteration order of the Missing-attribute run is canonicalised; plural table taken as given")
TECHNIQUE = "Lean 4 proof over an executable model of the three Fluent visitors + differential correspondence + shape-level oracle"

# ------------------------------------------------------------------------------------------ shapes
# pattern  = [part]
# part     = ("t", text) | ("p", inline) | ("sel", selector inline, [(kind "I"|"U", key, default, pattern)])
# inline   = ("msg", id, attr|None) | ("term", id, args|None) | ("termattr", id, attr, args|None) | ("var", n)
#          | ("str", s) | ("num", s) | ("fun", name, [arg], named) | ("nest", inline) | ("selp", sel part)
# args     = ([arg], named)          arg = inline
CATS = ["zero", "one", "two", "few", "many", "other"]
ATTR_NAMES = ["label", "title", "style", "accesskey"]
MSG_IDS = ["foo", "bar", "brand-name"]
MSG_ATTRS = ["label", "a"]
TERM_IDS = ["brand", "thing"]
TEXTS = ["Hello", "world", "é ü", "�", "width: 3em", "a.b", "-x", "$y", "1", "one", "other text", "label", "=", "]", "[x"]
UNITS = ["ch", "em", "ex", "rem", "px", "cm", "mm", "in", "pc", "pt"]
PROPS = ["width", "height", "min-width", "max-width", "min-height", "max-height"]


def r_inline(e):
    k = e[0]
    if k == "msg":
        return e[1] + ("." + e[2] if e[2] else "")
    if k == "term":
        return "-" + e[1] + (r_args(e[2]) if e[2] is not None else "")
    if k == "termattr":
        return "-" + e[1] + "." + e[2] + (r_args(e[3]) if e[3] is not None else "")
    if k == "var":
        return "$" + e[1]
    if k == "str":
        return '"' + e[1] + '"'
    if k == "num":
        return e[1]
    if k == "fun":
        return e[1] + r_args((e[2], e[3]))
    if k == "nest":
        return "{ " + r_inline(e[1]) + " }"
    if k == "selp":
        return "{ " + r_sel(e[1], 6) + "}"
    raise ValueError(k)


def r_args(a):
    pos, named = a
    items = [r_inline(x) for x in pos]
    if named:
        items.append('case: "x"')
        if named > 1:
            items.append("n: 1")
    return "(" + ", ".join(items) + ")"


def r_sel(part, ind):
    _, sel, variants = part
    out = [r_inline(sel) + " ->"]
    for kind, key, default, pat in variants:
        out.append("\n" + " " * ind + ("*" if default else " ") + "[" + key + "] " + r_pattern(pat, ind + 4))
    out.append("\n" + " " * (ind - 2))
    return "".join(out)


def r_pattern(pat, ind=4):
    out = []
    for p in pat:
        if p[0] == "t":
            out.append(p[1])
        elif p[0] == "p":
            out.append("{ " + r_inline(p[1]) + " }")
        else:
            out.append("{ " + r_sel(p, ind + 2) + "}")
    return "".join(out)


def r_entry(sh):
    out = []
    if sh["comment"]:
        out.append("# about it\n")
    out.append(("-" if sh["kind"] == "term" else "") + sh["id"] + " =")
    if sh["value"] is not None:
        out.append(" " + r_pattern(sh["value"]))
    for name, pat in sh["attrs"]:
        out.append("\n    ." + name + " = " + r_pattern(pat, 8))
    out.append("\n")
    return "".join(out)


def r_file(sh):
    return sh["prefix"] + r_entry(sh)


# ------------------------------------------------------------------------------------------ shape walks (oracle side)
def walk_refs(pat, out):
    """references recorded by the message visitors, in order: selectors and term arguments are not visited"""
    for p in pat:
        if p[0] == "p":
            inl_refs(p[1], out)
        elif p[0] == "sel":
            for _, _, _, vp in p[2]:
                walk_refs(vp, out)


def inl_refs(e, out):
    k = e[0]
    if k == "msg":
        out.append(("msg", e[1] + ("." + e[2] if e[2] else "")))
    elif k == "term":
        out.append(("term", "-" + e[1]))
    elif k == "fun":
        for a in e[2]:
            inl_refs(a, out)
    elif k == "nest":
        inl_refs(e[1], out)
    elif k == "selp":
        for _, _, _, vp in e[1][2]:
            walk_refs(vp, out)


def walk_sels(pat, deep, out):
    """select expressions whose variants are checked: all of them for terms (deep), for messages those not
    inside a selector or inside term arguments"""
    for p in pat:
        if p[0] == "p":
            inl_sels(p[1], deep, out)
        elif p[0] == "sel":
            sel_sels(p, deep, out)


def sel_sels(p, deep, out):
    if deep:
        inl_sels(p[1], deep, out)
    for _, _, _, vp in p[2]:
        walk_sels(vp, deep, out)
    out.append([(kind, key) for kind, key, _, _ in p[2]])


def inl_sels(e, deep, out):
    k = e[0]
    if k == "fun":
        for a in e[2]:
            inl_sels(a, deep, out)
    elif k == "nest":
        inl_sels(e[1], deep, out)
    elif k == "selp":
        sel_sels(e[1], deep, out)
    elif k == "term" and deep and e[2] is not None:
        for a in e[2][0]:
            inl_sels(a, deep, out)
    elif k == "termattr" and deep and e[3] is not None:
        for a in e[3][0]:
            inl_sels(a, deep, out)


def css_reference(text):
    """independent reference for `parseable CSS size spec`: declarations separated by one semicolon each,
    optional final semicolon, white space around the punctuation"""
    ws = " \t\r\n"
    i, n = 0, len(text)

    def skip(i):
        while i < n and text[i] in ws:
            i += 1
        return i

    def decl(i):
        for pre in ("min-", "max-", ""):
            for base in ("width", "height"):
                w = pre + base
                if text.startswith(w, i):
                    j = skip(i + len(w))
                    if j < n and text[j] == ":":
                        j = skip(j + 1)
                        k = j
                        while k < n and text[k] in "0123456789":
                            k += 1
                        ends = [k] if k > j else []          # [0-9]+
                        if k < n and text[k] == ".":          # [0-9]*\.[0-9]+
                            k2 = k + 1
                            while k2 < n and text[k2] in "0123456789":
                                k2 += 1
                            if k2 > k + 1:
                                ends.append(k2)
                        for e in reversed(ends):
                            for u in ("rem", "ch", "em", "ex", "px", "cm", "mm", "in", "pc", "pt"):
                                if text.startswith(u, e):
                                    return e + len(u)
        return None

    i = skip(i)
    if i < n and text[i] == ";":      # an empty first declaration is valid CSS and accepted
        i = skip(i + 1)
    j = decl(i)
    if j is None:
        return False
    while True:
        i = j
        k = skip(i)
        if k == n:
            return True            # trailing white space after the last declaration is fine (no semicolon needed)
        if text[k] != ";":
            return False
        k = skip(k + 1)
        if k == n:
            return True
        j = decl(k)
        if j is None:
            return False


def style_text(pat):
    """the text of a pattern that the parser turns into a single TextElement (adjacent texts merge, outer blanks are trimmed)"""
    if all(p[0] == "t" for p in pat):
        return "".join(p[1] for p in pat).strip(" ")
    return None


FAMILIES = ["Missing message reference: ", "Missing term reference: ", "Obsolete message reference: ",
            "Obsolete term reference: ", 'Attribute "', 'Variant key "', "Plural categories missing: "]


def plural_cats(locale):
    from compare_locales import plurals
    if locale is None:
        return None
    idx = plurals.CATEGORIES_BY_LOCALE.get(locale)
    if idx is None:
        idx = plurals.CATEGORIES_BY_LOCALE.get(locale.split("-")[0])
    return None if idx is None else plurals.CATEGORIES_BY_INDEX[idx]


def expected(ref, l10n, locale):
    """(errors, warnings) as Counters of message texts, from the shapes alone"""
    errs, warns = Counter(), Counter()
    deep = l10n["kind"] == "term"
    if not deep:
        rv, lv = ref["value"] is not None and ref["kind"] == "msg", l10n["value"] is not None
        if rv and not lv:
            errs["Missing value"] += 1
        if lv and not rv:
            errs["Obsolete value"] += 1
        rn = {n for n, _ in ref["attrs"]}
        ln = {n for n, _ in l10n["attrs"]}
        for n in rn - ln:
            errs["Missing attribute: " + n] += 1
        for n in ln - rn:
            errs["Obsolete attribute: " + n] += 1
        for n, pat in l10n["attrs"]:
            if n == "style" and style_text(pat) is not None and not css_reference(style_text(pat)):
                errs["reference is a CSS spec"] += 1
        # references per slot
        slots_r, slots_l = {}, {}
        for sh, slots in ((ref, slots_r), (l10n, slots_l)):
            if sh["value"] is not None:
                walk_refs(sh["value"], slots.setdefault(None, []))
            for n, pat in sh["attrs"]:
                walk_refs(pat, slots.setdefault(n, []))
        for slot, rs in slots_r.items():
            have = {r for _, r in slots_l.get(slot, [])}
            for kind, r in dict.fromkeys(rs):
                if r not in have:
                    warns[("Missing message reference: " if kind == "msg" else "Missing term reference: ") + r] += 1
        for slot, ls in slots_l.items():
            have = {r for _, r in slots_r.get(slot, [])}
            for kind, r in ls:
                if r not in have:
                    warns[("Obsolete message reference: " if kind == "msg" else "Obsolete term reference: ") + r] += 1
    names = Counter(n for n, _ in l10n["attrs"])
    for n, c in names.items():
        if c > 1:
            warns['Attribute "%s" is duplicated' % n] += c
    sels = []
    if l10n["value"] is not None:
        walk_sels(l10n["value"], deep, sels)
    for _, pat in l10n["attrs"]:
        walk_sels(pat, deep, sels)
    cats = plural_cats(locale)
    for keys in sels:
        for (kind, key), c in Counter(keys).items():
            if c > 1:
                warns['Variant key "%s" is duplicated' % key] += c
        if cats:
            given = {key for _, key in keys}
            if given & (set(cats) - {"other"}):
                missing = sorted(set(cats) - given)
                if missing:
                    warns["Plural categories missing: " + ", ".join(missing)] += 1
    return errs, warns


def oracle(ref, l10n, locale, r):
    """property oracle on the implementation's result; returns None or a message"""
    if r.get("exc"):
        return "check raised %s: %s" % (r["exc"], r.get("msg"))
    res = r["res"]
    errs, warns = expected(ref, l10n, locale)
    got_e, got_w = Counter(), Counter()
    for sev, pos, msg, cat in res:
        if cat != "fluent":
            if sev != "warning":
                return "non-fluent check result with severity %r" % sev
            continue
        if sev == "error":
            got_e[msg] += 1
        elif sev == "warning":
            if any(msg.startswith(f) for f in FAMILIES):
                got_w[msg] += 1
        else:
            return "unknown severity %r" % sev
    if l10n["kind"] == "term" and got_e:
        return "term check reports errors: %s" % sorted(got_e)
    if got_e != errs:
        miss = errs - got_e
        extra = got_e - errs
        return "errors differ: expected but not reported %s, reported but not expected %s" % (sorted(miss.elements()), sorted(extra.elements()))
    if got_w != warns:
        miss = warns - got_w
        extra = got_w - warns
        return "warnings differ: expected but not reported %s, reported but not expected %s" % (sorted(miss.elements()), sorted(extra.elements()))
    return None


def finding_of(ref, l10n, locale, r, msg):
    """root-cause predicates of recorded findings: none at present (C08-css-adjacent-declarations was fixed in /repo 6de2763;
    style values with touching declarations stay in the generators as a regression test)"""
    return None


def classify(v):
    return v.get("finding")


# ------------------------------------------------------------------------------------------ generators
class Gen:
    def __init__(self, rng):
        self.r = rng

    def text(self):
        return self.r.choice(TEXTS)

    def css_good(self):
        n = self.r.choice([1, 1, 2, 3])
        ds = []
        for _ in range(n):
            ds.append("%s%s:%s%s%s" % (self.r.choice(PROPS), self.r.choice(["", " "]), self.r.choice(["", " ", "  "]),
                                        self.r.choice(["1", "20", ".5", "1.25", "007"]), self.r.choice(UNITS)))
        s = ds[0]
        for d in ds[1:]:
            s += self.r.choice([";", "; ", " ; ", " ;"]) + d
        return s + self.r.choice(["", "", ";", " ;"])

    def css_bad(self):
        k = self.r.randrange(9)
        g = self.css_good().rstrip("; ")
        if k == 0:
            return self.r.choice(["foo", "width", "width: 10", "width: 10 em", "12em", "WIDTH: 1em", "width: 1vw", "width; 1em", "x",
                                  "width: 1.em", "width: .em", "width: 1.5.em", "width: em", "width: 1 em", "min-: 1em", "width: -1em",
                                  "width: 1e", "width: 1emm", "widht: 1em", "width:: 1em", "width: 1em:", "width. 1em"])
        if k == 1:
            return g + " " + self.css_good()          # missing semicolon
        if k == 2:
            return g + "; foo"
        if k == 3:
            return "x " + g
        if k == 4:
            return g + ";; height: 2px"
        if k == 5:
            return g + " !important"
        if k == 6:
            return g + self.css_good()                # declarations that touch (fixed finding C08-css-adjacent-declarations)
        if k == 7:
            return g + "x"
        return g + ", " + self.css_good()

    def css_soup(self):
        toks = ["width", "height", "min-", "max-", ":", " ", ";", "1", ".5", "em", "px", "rem", "x", "in", "ch", "20", ".", "width:", "1em"]
        return "".join(self.r.choice(toks) for _ in range(self.r.randrange(1, 9))).strip(" ") or "x"

    def ref_inline(self):
        k = self.r.randrange(4)
        if k == 0:
            return ("msg", self.r.choice(MSG_IDS), None)
        if k == 1:
            return ("msg", self.r.choice(MSG_IDS), self.r.choice(MSG_ATTRS))
        if k == 2:
            return ("term", self.r.choice(TERM_IDS), None)
        return ("term", self.r.choice(TERM_IDS), self.args(0))

    def args(self, depth):
        n = self.r.choice([0, 0, 1, 2])
        pos = [self.inline(depth + 1, arg=True) for _ in range(n)]
        if depth < 2 and self.r.random() < 0.25:
            pos.append(("selp", self.sel(depth + 1)))     # a select inside call arguments (visited by TermVisitor everywhere)
        return (pos, self.r.choice([0, 0, 1, 2]))

    def inline(self, depth, arg=False):
        k = self.r.randrange(12)
        if k < 5:
            return self.ref_inline()
        if k == 5:
            return ("var", self.r.choice(["n", "count"]))
        if k == 6:
            return ("str", self.r.choice(["", "x", "�", "a b"]))
        if k == 7:
            return ("num", self.r.choice(["1", "3.14", "-2"]))
        if k == 8 and depth < 2:
            return ("fun", self.r.choice(["NUMBER", "DATETIME", "FOO"]), self.args(depth)[0], self.r.choice([0, 1]))
        if k == 9 and depth < 2:
            return ("nest", self.inline(depth + 1))
        if k == 10 and depth < 2 and arg:
            return ("selp", self.sel(depth + 1))
        if k == 11 and arg:
            # a term attribute is only legal as a selector or as a call argument; it is never recorded as a reference
            return ("termattr", self.r.choice(TERM_IDS), "case", None)
        return self.ref_inline()

    def selector(self, depth):
        k = self.r.randrange(7)
        if k < 2:
            return ("var", "n")
        if k == 2:
            return ("fun", "NUMBER", [("var", "n")], 1)
        if k == 3:
            return ("fun", "FOO", self.args(depth + 1)[0], 0)     # may hold references/selects that are NOT visited
        if k == 4:
            return ("termattr", self.r.choice(TERM_IDS), "case", None)
        if k == 5:
            return ("termattr", self.r.choice(TERM_IDS), "case", self.args(depth + 1))
        return self.r.choice([("num", "1"), ("str", "x")])

    def keys(self, cats):
        n = self.r.choice([1, 2, 2, 3, 3, 4])
        pool_ = list(cats) * 3 + CATS + ["0", "1", "1.0", "masculine", "a"]
        ks = []
        for _ in range(n):
            if ks and self.r.random() < 0.2:
                ks.append(self.r.choice(ks))
            else:
                ks.append(self.r.choice(pool_))
        return ks

    def sel(self, depth):
        ks = self.keys(self.cats)
        d = self.r.randrange(len(ks))
        vs = []
        for i, k in enumerate(ks):
            vs.append(("U" if k[0] in "0123456789" else "I", k, i == d, self.pattern(depth + 1, small=True)))
        return ("sel", self.selector(depth), vs)

    def pattern(self, depth=0, small=False):
        n = self.r.choice([1, 1, 2] if small else [1, 2, 2, 3])
        parts = []
        for i in range(n):
            k = self.r.randrange(10)
            if k < 4 or (parts and parts[-1][0] != "t" and k < 6):
                parts.append(("t", self.text() + (" " if self.r.random() < 0.5 else "")))
            elif k < 8:
                parts.append(("p", self.inline(depth)))
            elif depth < 2:
                parts.append(self.sel(depth))
            else:
                parts.append(("p", self.ref_inline()))
        # a pattern must not start with something that would be parsed differently; all our texts are safe inline
        if parts[0][0] == "t" and not parts[0][1].strip():
            parts[0] = ("t", "x")
        return parts

    def style_pattern(self, mode=None):
        mode = mode or self.r.choice(["good", "good", "bad", "soup", "complex", "plain"])
        if mode == "good":
            return [("t", self.css_good())]
        if mode == "bad":
            return [("t", self.css_bad())]
        if mode == "soup":
            return [("t", self.css_soup())]
        if mode == "complex":
            return [("t", self.css_good() + " "), ("p", ("var", "w"))]
        return self.pattern(1, small=True)

    def attr(self, name):
        return (name, self.style_pattern() if name == "style" else self.pattern(1, small=True))

    def entry(self, kind, ident, cats):
        self.cats = cats
        value = self.pattern() if (kind == "term" or self.r.random() < 0.7) else None
        n = self.r.choice([0, 1, 1, 2, 2, 3])
        attrs = [self.attr(self.r.choice(ATTR_NAMES)) for _ in range(n)]
        if value is None and not attrs:
            attrs = [self.attr(self.r.choice(ATTR_NAMES))]
        return {"kind": kind, "id": ident, "value": value, "attrs": attrs, "comment": self.r.random() < 0.3,
                "prefix": self.r.choice(["", "", "first = one\n\n", "\n\n", "### resource\n\nx = y\n"])}

    def derive(self, ref, cats):
        """a localization of `ref`: same structure with new texts, then a few structural edits"""
        self.cats = cats
        l = {"kind": ref["kind"], "id": ref["id"], "comment": self.r.random() < 0.3,
             "prefix": self.r.choice(["", "", "other = thing\n", "\n"])}

        def relocalize(pat, style=False):
            if style:
                return self.style_pattern()
            keep = []
            walk_refs(pat, keep)
            new = self.pattern(1, small=True)
            for kind, rname in keep:
                if self.r.random() < 0.75:
                    if kind == "msg":
                        i, _, a = rname.partition(".")
                        new.append(("p", ("msg", i, a or None)))
                    else:
                        new.append(("p", ("term", rname[1:], None)))
                    if self.r.random() < 0.3:
                        new.append(("t", " " + self.text()))
            return new

        l["value"] = None if ref["value"] is None else relocalize(ref["value"])
        l["attrs"] = [(n, relocalize(p, n == "style")) for n, p in ref["attrs"]]
        for _ in range(self.r.choice([0, 0, 0, 1, 1, 2])):
            k = self.r.randrange(7)
            if k == 0 and ref["kind"] == "msg":
                l["value"] = None if l["value"] is not None else self.pattern()
            elif k == 1 and l["attrs"]:
                del l["attrs"][self.r.randrange(len(l["attrs"]))]
            elif k == 2:
                l["attrs"].insert(self.r.randrange(len(l["attrs"]) + 1), self.attr(self.r.choice(ATTR_NAMES)))
            elif k == 3 and l["attrs"]:
                n = self.r.choice(l["attrs"])[0]
                l["attrs"].insert(self.r.randrange(len(l["attrs"]) + 1), self.attr(n))
            elif k == 4 and l["attrs"]:
                self.r.shuffle(l["attrs"])
            elif k == 5:
                l["attrs"].append(self.attr("style"))
            elif k == 6 and l["value"] is not None:
                l["value"] = self.pattern()
        if l["value"] is None and not l["attrs"]:
            l["value"] = self.pattern()
        return l


def all_locales():
    from compare_locales import plurals
    return sorted(plurals.CATEGORIES_BY_LOCALE)


EXTRA_LOCALES = [None, "en-US", "xx", "sr-Latn", "de-AT-x", "zh-Hant", "", "x-y"]


def structural_pairs(ctx):
    """bounded-exhaustive part: value presence x attribute name sequences (with duplicates and style) on both sides"""
    L = 2 if ctx.tier == "quick" else 3
    names = ["label", "title", "style"]
    seqs = [s for n in range(L + 1) for s in itertools.product(names, repeat=n)]
    shapes = [(v, s) for v in (True, False) for s in seqs if v or s]
    styles = ["width: 20em", "width 20em", "min-width: 1ch; height: 2px", "height: 1emwidth: 2em"]
    cases = []
    i = 0
    for rv, rs in shapes:
        for lv, ls in shapes:
            def mk(v, s, side, i=i):
                attrs = []
                for j, n in enumerate(s):
                    if n == "style":
                        attrs.append((n, [("t", styles[(i + j + (1 if side else 0)) % (2 if side == 0 else len(styles))])]))
                    else:
                        attrs.append((n, [("t", "%s %d" % ("ref" if side == 0 else "l10n", j))]))
                return {"kind": "msg", "id": "msg", "value": [("t", "value %d" % side)] if v else None, "attrs": attrs,
                        "comment": False, "prefix": "" if i % 3 else "x = y\n"}
            cases.append((mk(rv, rs, 0), mk(lv, ls, 1), ["de", "pl", None][i % 3]))
            i += 1
    return cases


def plural_cases(ctx):
    """all locales of the plural table x key sets over the CLDR categories (+ a number / other identifier)"""
    rng = ctx.rng("c08", "plural")
    subsets = [s for n in range(1, 7) for s in itertools.combinations(CATS, n)]
    cases = []
    per = ctx.n(6, 63)
    for loc in all_locales() + EXTRA_LOCALES:
        chosen = subsets if per >= len(subsets) else rng.sample(subsets, per)
        for ks in chosen:
            ks = list(ks)
            if rng.random() < 0.3:
                ks.insert(rng.randrange(len(ks) + 1), rng.choice(["1", "0", "masculine"]))
            if rng.random() < 0.2:
                ks.append(rng.choice(ks))
            rng.shuffle(ks)
            d = rng.randrange(len(ks))
            vs = [("U" if k[0] in "01" else "I", k, i == d, [("t", "v%d" % i)]) for i, k in enumerate(ks)]
            kind = "term" if rng.random() < 0.25 else "msg"
            l = {"kind": kind, "id": "msg", "value": [("t", "n "), ("sel", ("var", "n"), vs)], "attrs": [], "comment": False, "prefix": ""}
            r = {"kind": kind, "id": "msg", "value": [("t", "x")], "attrs": [], "comment": False, "prefix": ""}
            cases.append((r, l, loc))
    return cases


def random_cases(ctx):
    rng = ctx.rng("c08", "random")
    g = Gen(rng)
    locs = all_locales()
    cases = []
    for i in range(ctx.n(5000, 120000)):
        loc = locs[i % len(locs)] if rng.random() < 0.9 else rng.choice(EXTRA_LOCALES)
        cats = plural_cats(loc) or ("one", "other")
        kind = "term" if rng.random() < 0.15 else "msg"
        ref = g.entry(kind, "msg", cats)
        if rng.random() < 0.75:
            l10n = g.derive(ref, cats)
        else:
            l10n = g.entry(kind, "msg", cats)
        if kind == "msg" and rng.random() < 0.02:
            ref = dict(ref, kind="term", value=ref["value"] or g.pattern())     # a term as reference of a message
        cases.append((ref, l10n, loc))
    return cases


def key_of(sh):
    return ("-" if sh["kind"] == "term" else "") + sh["id"]


def run_cases(ctx, out, cases, tag):
    args = [[r_file(r), r_file(l), key_of(r), key_of(l), loc] for r, l, loc in cases]
    res = pool.pmap("impl.fluentcheck", "run_case", args, timeout=5.0, batch=64)
    todo = []
    for (r, l, loc), a, x in zip(cases, args, res):
        if "r" not in x:
            out.violations.append({"what": "check crashed/hung: %s %s" % (x.get("exc"), x.get("msg")),
                                   "input": {"ref": a[0], "l10n": a[1], "locale": loc}, "finding": None})
            continue
        x = x["r"]
        if "skip" in x:
            out.count("%s.skipped.%s" % (tag, x["skip"]))
            continue
        todo.append((r, l, loc, a, x))
    model = C.run_driver_parallel([t[4]["line"] for t in todo]) if ctx.model_ok else [None] * len(todo)
    for (r, l, loc, a, x), mo in zip(todo, model):
        out.evaluations += 1
        out.count("%s.cases" % tag)
        bad = oracle(r, l, loc, x)
        canon = x["canon"]
        if x["res"]:
            sevs = {s for s, _, _, c in x["res"] if c == "fluent"}
            out.nontrivial.add(canon.replace(" ", "")[:4000])
            out.count("%s.with-%s" % (tag, "+".join(sorted(sevs)) or "encodings-only"))
            for s, _, m, c in x["res"]:
                kind = "encodings" if c != "fluent" else m.split(":")[0].split('"')[0].strip()
                out.count("msgkind." + ("css-warning" if (" only in " in kind or kind.startswith("units for")) else kind))
        else:
            out.count("%s.clean" % tag)
        if bad:
            out.violations.append({"what": bad, "input": {"ref": a[0], "l10n": a[1], "locale": loc, "ref_shape": r, "l10n_shape": l},
                                   "result": x["res"], "finding": finding_of(r, l, loc, x, bad)})
        elif mo is not None and mo != canon:
            out.disagreements.append({"op": "ftl.check", "ref": a[0], "l10n": a[1], "locale": loc, "impl": canon, "model": mo})
        if len(out.samples) < 8 and x["res"] and len(x["res"]) >= 3 and out.distribution.get("sampled." + tag, 0) < 3:
            out.count("sampled." + tag)
            out.samples.append({"ref": a[0], "l10n": a[1], "locale": loc, "result": x["res"]})


def css_cases(ctx, out):
    """parse_css_spec: model vs implementation on generated style values; the reference grammar vs the implementation"""
    rng = ctx.rng("c08", "css")
    g = Gen(rng)
    texts = []
    for _ in range(ctx.n(1500, 30000)):
        texts.append(rng.choice([g.css_good, g.css_bad, g.css_soup])())
        if rng.random() < 0.15:      # trailing / leading white space (cannot occur in a Fluent TextElement, only here)
            texts.append(rng.choice(["", " ", "\n"]) + texts[-1] + rng.choice([" ", "\n", "\t", " \r\n", "  "]))
    toks = ["width", "height", "min-", ":", " ", ";", "1", ".", "5", "em", "px", "\n", "x"]
    L = 4 if ctx.tier == "quick" else 5
    for n in range(L + 1):
        for t in itertools.product(toks, repeat=n):
            texts.append("".join(t))
    texts = list(dict.fromkeys(texts))
    res = pool.pmap("impl.fluentcheck", "css_case", [[t] for t in texts], timeout=5.0, batch=256)
    model = C.run_driver_parallel(["css.parse " + C.enc(t) for t in texts]) if ctx.model_ok else [None] * len(texts)
    for t, x, mo in zip(texts, res, model):
        out.evaluations += 1
        out.count("css.cases")
        if "r" not in x:
            out.violations.append({"what": "parse_css_spec crashed: %s" % x.get("exc"), "input": {"css": t}, "finding": None})
            continue
        canon = x["r"]
        out.count("css." + ("spec" if canon.startswith("{") else "none") + ("+errors" if canon.endswith("]") else ""))
        if canon != "None None":
            out.nontrivial.add("css|" + canon + "|" + t[:60])
        # oracle: accepted by parse_css_spec/check_style  <=>  the reference grammar accepts
        accepted = canon.startswith("{") and canon.endswith(" None")
        if accepted != css_reference(t):
            fid = None
            out.violations.append({"what": "parse_css_spec %s %r, the reference grammar says %s" % (
                "accepts" if accepted else "refuses", t, "not a CSS size spec" if accepted else "a CSS size spec"),
                "input": {"css": t}, "result": canon, "finding": fid})
        elif mo is not None and mo != canon:
            out.disagreements.append({"op": "css.parse", "text": t, "impl": canon, "model": mo})


def locale_cases(ctx, out):
    locs = all_locales() + EXTRA_LOCALES + [l + "-XX" for l in all_locales()[:40]] + ["-", "-de", "de-"]
    res = pool.pmap("impl.fluentcheck", "plural_case", [[l] for l in locs], timeout=5.0, batch=256)
    model = C.run_driver_parallel(["ftl.plural " + ("-" if l is None else C.enc(l)) for l in locs]) if ctx.model_ok else [None] * len(locs)
    for l, x, mo in zip(locs, res, model):
        out.evaluations += 1
        if "r" in x and mo is not None and x["r"] != mo:
            out.disagreements.append({"op": "ftl.plural", "locale": l, "impl": x["r"], "model": mo})


def run(ctx):
    out = Outcome()
    out.rule = ("(1) all pairs of messages over value present/absent x attribute-name sequences over {label,title,style} up to length 2 "
                "(quick) / 3 (thorough), duplicates included, style values good/bad; (2) every locale of the plural table (+ unknown, "
                "regional, None) x key sets over the six CLDR categories (6 sampled sets per locale quick, all 63 thorough), messages and terms; "
                "(3) seeded random reference/localization pairs from the shape grammar (references to messages/terms/attributes in values, "
                "attributes, function arguments, selectors, term arguments; nested selects; duplicate attributes and variant keys; style "
                "attributes good/bad/complex; terms; comments and preceding entries), localization derived from the reference by re-texting + "
                "structural edits; (4) parse_css_spec on generated and exhaustive token strings. non-trivial = the check reports something; "
                "distinct = distinct canonical result lists")
    run_cases(ctx, out, structural_pairs(ctx), "structural")
    run_cases(ctx, out, plural_cases(ctx), "plural")
    run_cases(ctx, out, random_cases(ctx), "random")
    css_cases(ctx, out)
    locale_cases(ctx, out)
    return out


def replay(payload):
    res = []
    for v in payload.get("violations", []):
        i = v["input"]
        if "ref_shape" not in i:
            continue

        def fix(sh):      # JSON turned tuples into lists
            def tup(x):
                return tuple(tup(y) for y in x) if isinstance(x, list) else x
            sh = dict(sh)
            sh["value"] = None if sh["value"] is None else [tup(p) for p in sh["value"]]
            sh["attrs"] = [(n, [tup(p) for p in pat]) for n, pat in sh["attrs"]]
            return sh
        r, l = fix(i["ref_shape"]), fix(i["l10n_shape"])
        x = pool.pmap("impl.fluentcheck", "run_case", [[i["ref"], i["l10n"], key_of(r), key_of(l), i["locale"]]], timeout=10.0)[0]
        bad = oracle(r, l, i["locale"], x["r"]) if "r" in x and "skip" not in x["r"] else "crashed"
        res.append({"input": {"ref": i["ref"], "l10n": i["l10n"], "locale": i["locale"]}, "oracle": bad,
                    "finding": finding_of(r, l, i["locale"], x["r"], bad) if bad and bad != "crashed" else None})
    return {"violates": any(r["oracle"] for r in res), "cases": res}

"""C08 — Fluent: structural mismatches are errors, text differences never are."""
import itertools
from collections import Counter

from lib import common as C
from lib import pool
from lib.runner import Outcome

ID = "C08"
LEAN_TARGETS = ["CLModel.Props.C08"]
M = "CLModel.Props.C08"
THEOREMS = [
    (M, "C08.check_total", "check never raises: the plural lookup is total on the generated tables"),
    (M, "C08.ftl_error_iff", "an error is yielded iff value presence differs, an attribute name is on one side only, or a style attribute is a single text that parse_css_spec/check_style refuse"),
    (M, "C08.ftl_error_iff_term_reference", "with a term as reference of a message (no visit_Term): error iff the localization has a value, names differ or a bad style"),
    (M, "C08.ftl_error_count", "exactly one error per bad style occurrence, per differing value side, per attribute name in the symmetric difference (obsolete ones at the last occurrence)"),
    (M, "C08.ftl_text_irrelevant", "same value presence, same attribute-name set, no bad style: no error, for all patterns/placeables/variants"),
    (M, "C08.term_never_error", "every result of checking a term is a warning, whatever the reference"),
    (M, "C08.term_ignores_reference", "the reference entry plays no role when the localized entry is a term"),
    (M, "C08.check_sorted_stable", "results = U+FFFD warnings, then a stable sort by position of the visitor messages"),
    (M, "C08.check_message_structure", "the message list of check_message is: duplicate-attribute warnings, per-node messages of the value, per attribute per-node + CSS messages, value/attribute errors, missing-reference warnings"),
    (M, "C08.check_term_structure", "check_term = duplicate-attribute warnings + check_variants of every select expression anywhere in the term (deep)"),
    (M, "C08.ref_slot_names", "the names the reference visitor records for a slot are the references met in that slot's patterns (selectors / term arguments not visited)"),
    (M, "C08.node_messages", "a message/term reference yields one Obsolete-reference warning iff its name is not recorded for the same slot of the reference; a select yields check_variants"),
    (M, "C08.ftl_missing_ref_warnings", "one Missing-reference warning per slot and distinct recorded name of the reference that the localization lacks in the same slot, and nothing else"),
    (M, "C08.ftl_dup_attribute_warnings", "one duplicate warning per attribute occurrence whose name occurs at least twice (multiset)"),
    (M, "C08.ftl_dup_variant_warnings", "one duplicate warning per variant whose key (type + text) occurs at least twice (multiset), then the plural warning"),
    (M, "C08.ftl_plural_warning", "plural warning iff a non-`other` category of the locale is used and some category is missing; one warning, at the first key, sorted distinct missing categories"),
    (M, "C08.plural_lookup", "categories are looked up by the locale, then by its part before the first '-'"),
    (M, "C08.css_models_agree", "the Fluent-side and the DTD-side model of CSSCheckMixin.parse_css_spec return the same map and errors on every text"),
    (M, "C08.css_grammar_accepts", "every spec of the independent grammar CssSpec (props/units read off the generated regex) is parsed without errors into exactly the dict of its declarations"),
    (M, "C08.css_grammar_map_distinct", "with pairwise distinct property names that dict is the list of (property, unit) pairs as written"),
    (M, "C08.css_grammar_not_bad", "a grammatical spec is never `cssBad`"),
    (M, "C08.style_grammar_not_bad", "a style attribute whose value is one grammatical text element is never `badStyle`"),
    (M, "C08.css_spec_errors", "a spec with defective gaps (white space without semicolon / junk) gives the map of all declarations and exactly one error per defective gap"),
    (M, "C08.css_defect_bad", "any such defect makes the style bad (the check yields the error)"),
    (M, "C08.css_missing_semicolon", "two correct blocks with only white space or nothing between them: exactly css-missing-semicolon at the end of the first, style bad"),
    (M, "C08.css_junk_after", "junk after a correct spec: exactly css-bad-content at the end of the last declaration, style bad"),
    (M, "C08.css_junk_before", "junk before a correct spec: exactly css-bad-content at 0, style bad"),
    # round 4
    (M, "C08.check_message_text_blind", "check_message returns the same message list when every TextElement / StringLiteral of the localization (and, independently, of the reference) is replaced by arbitrary text; only the single text of a style attribute is structure"),
    (M, "C08.check_term_text_blind", "check_term returns the same list when every text of the term is replaced"),
    (M, "C08.check_text_blind", "FluentChecker.check, any locale: re-texted pair and original pair give the same results except for the U+FFFD scan of the source text"),
    (M, "C08.untranslated_copy_same_verdicts", "a message checked against itself (lint; verbatim copy in compare) gets exactly the messages of any re-texted copy: identical-to-reference is no special case"),
    (M, "C08.same_skeleton_same_verdicts", "two localizations with the same skeleton (everything but texts) get the same messages against any reference"),
    (M, "C08.self_check_structure", "check(entity, entity) = duplicate-attribute warnings + check_variants of every visited select + the style verdicts: no value/attribute error, no reference warning, but not empty in general"),
    (M, "C08.raw_methods_raise", "check_message on a Term / check_term on a Message raise RuntimeError (visit_Term / visit_Message), and only then"),
    (M, "C08.check_dispatch_total", "FluentChecker.check dispatches on the entry type, so the two RuntimeError branches are unreachable through it"),
    (M, "C08.checker_history_irrelevant", "one FluentChecker instance over any sequence of set_reference / check calls: every check result is that of a fresh checker of the same locale; the instance changes by set_reference only"),
    (M, "C08.checker_verdict_independent", "the verdict for a pair after any history on the instance is check(locale, pair)"),
    (M, "C08.missing_attr_order_irrelevant", "whatever order the set iteration gives the Missing-attribute errors, the sorted result is a permutation and identical outside that run"),
    (M, "C08.finish_is_sort", "what check does with the message list is that stable sort plus the shift to entry-relative positions"),
    (M, "C08.css_warning_text", "text of the CSS warning of check_style: only-in-reference (reverse reference order), only-in-l10n (reverse l10n order), unit mismatches (l10n order), joined by ', '; ref_map afterwards = the properties not named"),
    (M, "C08.css_warning_members", "the parts of that text as a set"),
    (M, "C08.css_maps_are_dicts", "every map parse_css_spec returns and the reference visitor's css_styles is non-empty with distinct keys"),
    (M, "C08.css_pop_across_styles", "several style attributes: each is compared with the reference map as popped by the accepted styles before it; without a reference map each with a fresh empty map"),
    (M, "C08.maybe_style_spec", "maybe_style: silent without a declaration in the reference, else check_style of the reference's map and the parsed localization, category css, error iff the localized value is no CSS spec"),
    (M, "C08.entity_equals_refl", "FluentEntity.equals(e, e) is true"),
    (M, "C08.equal_entities_same_verdicts", "two localized messages that FluentEntity.equals calls equal (same AST up to spans/comments: other white space, other comment) get the same severities and texts in the same order from check_message, against any reference"),
    (M, "C08.equal_entities_same_results", "… and the same multiset of (severity, text) from check (the sort by position may order them differently)"),
    (M, "C08.verbatim_copy_verdicts", "a localization equal to the reference gets, up to positions, the reference's self-check: empty only if the reference's own shape is clean for the locale"),
    (M, "C08.equal_terms_same_verdicts", "terms with the same value and attributes up to spans get the same warnings up to positions (FluentTerm.equals alone ignores attributes and does not suffice: witness)"),
]
PARTIAL = [
    "`badStyle`/`cssBad` in ftl_error_iff is the verdict of the modelled parse_css_spec + check_style (regex level).  It is related to an "
    "independent grammar by theorems: every CssSpec value is accepted with exactly its declarations (css_grammar_accepts, soundness of the grammar "
    "w.r.t. the code) and the defect classes missing semicolon / touching declarations / junk before, between, after are refused with exactly the "
    "stated error (css_spec_errors and instances).  NOT proved: completeness (`cssBad v = false -> v is in the grammar`) for arbitrary texts, e.g. "
    "`;;` or junk containing m/w/h; that direction is still only checked differentially against the harness's reference grammar `css_reference` "
    "(whose only separators are space, tab, CR, LF and whose only digits are 0-9; the style alphabets now hold NBSP, U+3000, VT, FF, U+2003 …, non-ASCII digits)",
    "the order of the `Missing attribute:` / `Obsolete attribute:` errors among themselves comes from Python set iterations (not sorted in the code, hash dependent: "
    "observed to vary with PYTHONHASHSEED).  The model fixes one order; missing_attr_order_irrelevant proves that any other order of the run changes the "
    "sorted result only inside the run, ftl_error_count gives the run as a duplicate-free list = multiset; the harness compares the run as a multiset and "
    "checks on the real compare/lint REPORT that nothing else depends on PYTHONHASHSEED.  (The Obsolete run is sorted apart by `check`: distinct positions.)",
    "text-blindness (check_text_blind & co) is stated with the spans as they are, span-blindness (equal_entities_same_verdicts & co) up to positions and, "
    "through `check`, as a multiset (the sort by position can reorder); the two are not combined into ONE statement about a localization that is re-texted "
    "AND re-laid-out (they compose: re-text first, then apply the span theorem to the result), and which position each message gets is only in the "
    "structure theorems / the correspondence",
    "css_warning_text needs `ref_map` / `l10n_map` to have distinct keys (negation witness in Props: with a duplicate key `pop` removes one pair only); "
    "css_maps_are_dicts proves that every map the code builds has",
]
TRUSTED = [
    "hand-written model CLModel/Checks/Fluent.lean + FluentExt.lean of checks/fluent.py + CSSCheckMixin + Checker + plurals.get_plural + FluentEntity.equals "
    "(tied to the Python by the `ftl.check` / `css.parse` / `ftl.plural` / `c08.rawmsg` / `c08.rawterm` / `c08.seq` / `c08.maybestyle` / `c08.styleseq` / `c08.equals` correspondences)",
    "the fluent.syntax AST handed to the model is what fluent.syntax 0.19 produced (serialised by harness/impl/fluentcheck.py)",
    "regexes (_css_spec, _css_sep, mochibake), MSGS templates, check_style / Checker.check string constants and plural tables are regenerated from /repo on every run",
    "the plural table itself is taken as given (there is no second source for CLDR data in the sandbox): a wrong table entry is followed by model and oracle alike",
    "`BaseNode.equals` of fluent.syntax (external) is modelled by `entityEquals` for the node types the parser produces; comments are not part of the model's AST "
    "(they are ignored by FluentEntity.equals; the correspondence confirms it on copies that differ in comments only)",
]
ASSUMPTIONS = [
    "the iteration order of a Python set is unspecified: the run of `Missing attribute:` errors (all at position 0) is compared "
    "as the reference's attribute order on both sides; in the unsorted lists of check_message (c08.rawmsg) also the `Obsolete attribute:` run",
    "ASTs carry spans (FluentParser(with_spans=True), as compare-locales creates it)",
    "a FluentChecker object has no attributes beyond those Checker.__init__ sets (locale, extra_tests, reference); the visitors are created per check_message / check_term call",
]
LEVEL_TEXT = ("Lean 4 theorems over an executable transliteration of FluentChecker (the three AST visitors as folds over the exact traversal "
              "order, check_message/check_term also as raw public methods, CSS style check incl. maybe_style and the in-place pop, plural lookup, stable sort, "
              "FluentEntity.equals, one checker instance over a sequence of calls): for ALL fluent.syntax ASTs and all locales an error is "
              "reported iff value presence differs, an attribute name is on one side only or a style attribute is refused by parse_css_spec, with exactly "
              "one error each; the whole checker is blind to the texts of TextElements/StringLiterals on both sides (also for the untranslated copy, "
              "whose self-check is characterised); terms only ever give warnings; reference, duplicate, plural and CSS warnings are characterised exactly; "
              "history on a checker instance and the order of set iterations do not influence verdicts. The model is tied to the Python by differential runs on "
              "FTL generated from a shape grammar and parsed by the real parser (every reference also as identical / re-texted / re-laid-out copy), for every "
              "locale of the plural table, through single calls, raw methods and sequences on one instance, and an independent shape-level oracle checks the claims "
              "on the implementation, on the compare/lint report and across PYTHONHASHSEED values")
LEVEL_NOTE = ("trusted: Lean kernel; hand-written model validated by full-result correspondence (severity, position, text, category); the AST is an "
              "input (fluent.syntax is external); `not a parseable CSS spec` is the code's own regex verdict in ftl_error_iff, related to an independent "
              "grammar by css_grammar_accepts / css_spec_errors (soundness and the named defect classes; completeness only in the harness oracle); set iteration "
              "order of the Missing-attribute run is canonicalised (and proved irrelevant outside the run); plural table taken as given")
TECHNIQUE = "Lean 4 proof over an executable model of the three Fluent visitors + differential correspondence + shape-level oracle"

# ------------------------------------------------------------------------------------------ shapes
# pattern  = [part]
# part     = ("t", text) | ("p", inline) | ("sel", selector inline, [(kind "I"|"U", key, default, pattern)])
# inline   = ("msg", id, attr|None) | ("term", id, args|None) | ("termattr", id, attr, args|None) | ("var", n)
#          | ("str", s) | ("num", s) | ("fun", name, [arg], named) | ("nest", inline) | ("selp", sel part)
# args     = ([arg], named)          arg = inline
CATS = ["zero", "one", "two", "few", "many", "other"]
ATTR_NAMES = ["label", "title", "style", "accesskey"]
MSG_IDS = ["foo", "bar", "brand-name"]
MSG_ATTRS = ["label", "a"]
TERM_IDS = ["brand", "thing"]
TEXTS = ["Hello", "world", "é ü", "�", "width: 3em", "a.b", "-x", "$y", "1", "one", "other text", "label", "=", "]", "[x"]
UNITS = ["ch", "em", "ex", "rem", "px", "cm", "mm", "in", "pc", "pt"]
PROPS = ["width", "height", "min-width", "max-width", "min-height", "max-height"]


def r_inline(e, lay=0):
    k = e[0]
    if k == "msg":
        return e[1] + ("." + e[2] if e[2] else "")
    if k == "term":
        return "-" + e[1] + (r_args(e[2], lay) if e[2] is not None else "")
    if k == "termattr":
        return "-" + e[1] + "." + e[2] + (r_args(e[3], lay) if e[3] is not None else "")
    if k == "var":
        return "$" + e[1]
    if k == "str":
        return '"' + e[1] + '"'
    if k == "num":
        return e[1]
    if k == "fun":
        return e[1] + r_args((e[2], e[3]), lay)
    if k == "nest":
        return OPEN[lay] + r_inline(e[1], lay) + CLOSE[lay]
    if k == "selp":
        return OPEN[lay] + r_sel(e[1], 6, lay) + "}"
    raise ValueError(k)


# layouts: the SAME AST (modulo spans) is written with different white space.  0 = the layout of rounds 1-3;
# 1 = tight placeables `{x}`, no blank after commas / colons of call arguments, attributes indented by 2, two
# blanks after `=`, variants indented two columns deeper; 2 = wide placeables `{   x   }`, attributes indented by 7.
OPEN = ["{ ", "{", "{   "]
CLOSE = [" }", "}", "   }"]
ATTR_IND = ["    ", "  ", "       "]
AFTER_EQ = [" ", "  ", " "]
VAR_EXTRA = [0, 2, 1]


def r_args(a, lay=0):
    pos, named = a
    items = [r_inline(x, lay) for x in pos]
    if named:
        items.append('case: "x"' if lay != 1 else 'case:"x"')
        if named > 1:
            items.append("n: 1" if lay != 1 else "n:1")
    return "(" + (", " if lay != 1 else ",").join(items) + ")"


def r_sel(part, ind, lay=0):
    _, sel, variants = part
    out = [r_inline(sel, lay) + (" ->" if lay != 1 else "  ->")]
    for kind, key, default, pat in variants:
        out.append("\n" + " " * (ind + VAR_EXTRA[lay]) + ("*" if default else " ") + "[" + key + "] " + r_pattern(pat, ind + 4, lay))
    out.append("\n" + " " * (ind - 2))
    return "".join(out)


def r_pattern(pat, ind=4, lay=0):
    out = []
    for p in pat:
        if p[0] == "t":
            out.append(p[1])
        elif p[0] == "p":
            out.append(OPEN[lay] + r_inline(p[1], lay) + CLOSE[lay])
        else:
            out.append(OPEN[lay] + r_sel(p, ind + 2, lay) + "}")
    return "".join(out)


def r_entry(sh):
    lay = sh.get("layout", 0)
    out = []
    if sh["comment"]:
        out.append("# about it\n" if sh["comment"] is True else sh["comment"])
    out.append(("-" if sh["kind"] == "term" else "") + sh["id"] + " =")
    if sh["value"] is not None:
        out.append(AFTER_EQ[lay] + r_pattern(sh["value"], 4, lay))
    for name, pat in sh["attrs"]:
        out.append("\n" + ATTR_IND[lay] + "." + name + " =" + AFTER_EQ[lay] + r_pattern(pat, 8, lay))
    out.append("\n")
    return "".join(out)


def r_file(sh):
    return sh["prefix"] + r_entry(sh) + sh.get("suffix", "")


# ------------------------------------------------------------------------------------------ shape walks (oracle side)
def walk_refs(pat, out):
    """references recorded by the message visitors, in order: selectors and term arguments are not visited"""
    for p in pat:
        if p[0] == "p":
            inl_refs(p[1], out)
        elif p[0] == "sel":
            for _, _, _, vp in p[2]:
                walk_refs(vp, out)


def inl_refs(e, out):
    k = e[0]
    if k == "msg":
        out.append(("msg", e[1] + ("." + e[2] if e[2] else "")))
    elif k == "term":
        out.append(("term", "-" + e[1]))
    elif k == "fun":
        for a in e[2]:
            inl_refs(a, out)
    elif k == "nest":
        inl_refs(e[1], out)
    elif k == "selp":
        for _, _, _, vp in e[1][2]:
            walk_refs(vp, out)


def walk_sels(pat, deep, out):
    """select expressions whose variants are checked: all of them for terms (deep), for messages those not
    inside a selector or inside term arguments"""
    for p in pat:
        if p[0] == "p":
            inl_sels(p[1], deep, out)
        elif p[0] == "sel":
            sel_sels(p, deep, out)


def sel_sels(p, deep, out):
    if deep:
        inl_sels(p[1], deep, out)
    for _, _, _, vp in p[2]:
        walk_sels(vp, deep, out)
    out.append([(kind, key) for kind, key, _, _ in p[2]])


def inl_sels(e, deep, out):
    k = e[0]
    if k == "fun":
        for a in e[2]:
            inl_sels(a, deep, out)
    elif k == "nest":
        inl_sels(e[1], deep, out)
    elif k == "selp":
        sel_sels(e[1], deep, out)
    elif k == "term" and deep and e[2] is not None:
        for a in e[2][0]:
            inl_sels(a, deep, out)
    elif k == "termattr" and deep and e[3] is not None:
        for a in e[3][0]:
            inl_sels(a, deep, out)


# The ONLY separators of the size-spec grammar are these four ASCII characters (the white space CSS itself knows besides
# form feed, and what the code's explicit classes `[ \t\r\n]` list).  Nothing else that Unicode or `str.isspace()` / the
# regex class `\s` calls white space separates anything: NBSP, U+3000, VT, FF, U+2003, U+2028, U+0085, U+001C-1F … are
# ordinary (bad) content, and only the ASCII digits 0-9 are digits.
CSS_WS = " \t\r\n"
CSS_DIGITS = "0123456789"
# white space in the sense of `\s` / str.isspace() that is NOT a separator, and look-alikes that are not even that
UNI_WS = ["\u00a0", "\u3000", "\x0b", "\x0c", "\u2003", "\u2009", "\u2028", "\u2029", "\u1680", "\u202f", "\u205f", "\x85", "\x1c", "\x1f",
          "\u200b", "\ufeff"]
UNI_DIGITS = ["\u0661", "\uff11", "\u00b2", "\u0967"]


def css_reference(text):
    """independent reference for `parseable CSS size spec`: declarations separated by one semicolon each,
    optional final semicolon, white space around the punctuation"""
    ws = CSS_WS
    i, n = 0, len(text)

    def skip(i):
        while i < n and text[i] in ws:
            i += 1
        return i

    def decl(i):
        for pre in ("min-", "max-", ""):
            for base in ("width", "height"):
                w = pre + base
                if text.startswith(w, i):
                    j = skip(i + len(w))
                    if j < n and text[j] == ":":
                        j = skip(j + 1)
                        k = j
                        while k < n and text[k] in CSS_DIGITS:
                            k += 1
                        ends = [k] if k > j else []          # [0-9]+
                        if k < n and text[k] == ".":          # [0-9]*\.[0-9]+
                            k2 = k + 1
                            while k2 < n and text[k2] in CSS_DIGITS:
                                k2 += 1
                            if k2 > k + 1:
                                ends.append(k2)
                        for e in reversed(ends):
                            for u in ("rem", "ch", "em", "ex", "px", "cm", "mm", "in", "pc", "pt"):
                                if text.startswith(u, e):
                                    return e + len(u)
        return None

    i = skip(i)
    if i < n and text[i] == ";":      # an empty first declaration is valid CSS and accepted
        i = skip(i + 1)
    j = decl(i)
    if j is None:
        return False
    while True:
        i = j
        k = skip(i)
        if k == n:
            return True            # trailing white space after the last declaration is fine (no semicolon needed)
        if text[k] != ";":
            return False
        k = skip(k + 1)
        if k == n:
            return True
        j = decl(k)
        if j is None:
            return False


def style_text(pat):
    """the text of a pattern that the parser turns into a single TextElement (adjacent texts merge, outer blanks are trimmed)"""
    if all(p[0] == "t" for p in pat):
        return "".join(p[1] for p in pat).strip(" ")
    return None


FAMILIES = ["Missing message reference: ", "Missing term reference: ", "Obsolete message reference: ",
            "Obsolete term reference: ", 'Attribute "', 'Variant key "', "Plural categories missing: "]


def plural_cats(locale):
    from compare_locales import plurals
    if locale is None:
        return None
    idx = plurals.CATEGORIES_BY_LOCALE.get(locale)
    if idx is None:
        idx = plurals.CATEGORIES_BY_LOCALE.get(locale.split("-")[0])
    return None if idx is None else plurals.CATEGORIES_BY_INDEX[idx]


def expected(ref, l10n, locale):
    """(errors, warnings) as Counters of message texts, from the shapes alone"""
    errs, warns = Counter(), Counter()
    deep = l10n["kind"] == "term"
    if not deep:
        rv, lv = ref["value"] is not None and ref["kind"] == "msg", l10n["value"] is not None
        if rv and not lv:
            errs["Missing value"] += 1
        if lv and not rv:
            errs["Obsolete value"] += 1
        rn = {n for n, _ in ref["attrs"]}
        ln = {n for n, _ in l10n["attrs"]}
        for n in rn - ln:
            errs["Missing attribute: " + n] += 1
        for n in ln - rn:
            errs["Obsolete attribute: " + n] += 1
        for n, pat in l10n["attrs"]:
            if n == "style" and style_text(pat) is not None and not css_reference(style_text(pat)):
                errs["reference is a CSS spec"] += 1
        # references per slot
        slots_r, slots_l = {}, {}
        for sh, slots in ((ref, slots_r), (l10n, slots_l)):
            if sh["value"] is not None:
                walk_refs(sh["value"], slots.setdefault(None, []))
            for n, pat in sh["attrs"]:
                walk_refs(pat, slots.setdefault(n, []))
        for slot, rs in slots_r.items():
            have = {r for _, r in slots_l.get(slot, [])}
            for kind, r in dict.fromkeys(rs):
                if r not in have:
                    warns[("Missing message reference: " if kind == "msg" else "Missing term reference: ") + r] += 1
        for slot, ls in slots_l.items():
            have = {r for _, r in slots_r.get(slot, [])}
            for kind, r in ls:
                if r not in have:
                    warns[("Obsolete message reference: " if kind == "msg" else "Obsolete term reference: ") + r] += 1
    names = Counter(n for n, _ in l10n["attrs"])
    for n, c in names.items():
        if c > 1:
            warns['Attribute "%s" is duplicated' % n] += c
    sels = []
    if l10n["value"] is not None:
        walk_sels(l10n["value"], deep, sels)
    for _, pat in l10n["attrs"]:
        walk_sels(pat, deep, sels)
    cats = plural_cats(locale)
    for keys in sels:
        for (kind, key), c in Counter(keys).items():
            if c > 1:
                warns['Variant key "%s" is duplicated' % key] += c
        if cats:
            given = {key for _, key in keys}
            if given & (set(cats) - {"other"}):
                missing = sorted(set(cats) - given)
                if missing:
                    warns["Plural categories missing: " + ", ".join(missing)] += 1
    return errs, warns


def oracle(ref, l10n, locale, r):
    """property oracle on the implementation's result; returns None or a message"""
    if r.get("exc"):
        return "check raised %s: %s" % (r["exc"], r.get("msg"))
    res = r["res"]
    errs, warns = expected(ref, l10n, locale)
    got_e, got_w = Counter(), Counter()
    for sev, pos, msg, cat in res:
        if cat != "fluent":
            if sev != "warning":
                return "non-fluent check result with severity %r" % sev
            continue
        if sev == "error":
            got_e[msg] += 1
        elif sev == "warning":
            if any(msg.startswith(f) for f in FAMILIES):
                got_w[msg] += 1
        else:
            return "unknown severity %r" % sev
    if l10n["kind"] == "term" and got_e:
        return "term check reports errors: %s" % sorted(got_e)
    if got_e != errs:
        miss = errs - got_e
        extra = got_e - errs
        return "errors differ: expected but not reported %s, reported but not expected %s" % (sorted(miss.elements()), sorted(extra.elements()))
    if got_w != warns:
        miss = warns - got_w
        extra = got_w - warns
        return "warnings differ: expected but not reported %s, reported but not expected %s" % (sorted(miss.elements()), sorted(extra.elements()))
    return None


def finding_of(ref, l10n, locale, r, msg):
    """root-cause predicates of recorded findings: none at present (C08-css-adjacent-declarations was fixed in /repo 6de2763;
    style values with touching declarations stay in the generators as a regression test)"""
    return None


def classify(v):
    return v.get("finding")


# ------------------------------------------------------------------------------------------ generators
class Gen:
    def __init__(self, rng):
        self.r = rng

    def text(self):
        return self.r.choice(TEXTS)

    def css_good(self):
        n = self.r.choice([1, 1, 2, 3])
        ds = []
        for _ in range(n):
            ds.append("%s%s:%s%s%s" % (self.r.choice(PROPS), self.r.choice(["", " "]), self.r.choice(["", " ", "  "]),
                                        self.r.choice(["1", "20", ".5", "1.25", "007"]), self.r.choice(UNITS)))
        s = ds[0]
        for d in ds[1:]:
            s += self.r.choice([";", "; ", " ; ", " ;"]) + d
        return s + self.r.choice(["", "", ";", " ;"])

    def css_bad(self):
        k = self.r.randrange(9)
        g = self.css_good().rstrip("; ")
        if k == 0:
            return self.r.choice(["foo", "width", "width: 10", "width: 10 em", "12em", "WIDTH: 1em", "width: 1vw", "width; 1em", "x",
                                  "width: 1.em", "width: .em", "width: 1.5.em", "width: em", "width: 1 em", "min-: 1em", "width: -1em",
                                  "width: 1e", "width: 1emm", "widht: 1em", "width:: 1em", "width: 1em:", "width. 1em"])
        if k == 1:
            return g + " " + self.css_good()          # missing semicolon
        if k == 2:
            return g + "; foo"
        if k == 3:
            return "x " + g
        if k == 4:
            return g + ";; height: 2px"
        if k == 5:
            return g + " !important"
        if k == 6:
            return g + self.css_good()                # declarations that touch (fixed finding C08-css-adjacent-declarations)
        if k == 7:
            return g + "x"
        return g + ", " + self.css_good()

    def css_uws(self):
        """a correct spec in which ONE gap (before / between / after the tokens `prop` `:` `number unit` `;`) holds a character
        that `\\s` would accept but the grammar does not, or the number holds a non-ASCII digit that `\\d` would accept"""
        if self.r.random() < 0.15:
            return "%s: %s%s%s" % (self.r.choice(PROPS), self.r.choice(["", "1"]), self.r.choice(UNI_DIGITS), self.r.choice(UNITS))
        n = self.r.choice([1, 2, 2, 3])
        pieces = []
        for i in range(n):
            pieces += [self.r.choice(PROPS), ":", self.r.choice(["1", "20", ".5", "1.25"]) + self.r.choice(UNITS)]
            if i < n - 1 or self.r.random() < 0.4:
                pieces.append(";")
        k = self.r.randrange(len(pieces) + 1)
        u = self.r.choice(UNI_WS)
        out = []
        for i in range(len(pieces) + 1):
            gap = self.r.choice(["", "", " "])
            if i == k:
                gap = self.r.choice([u, u + " ", " " + u, gap + u + gap])
            out.append(gap)
            if i < len(pieces):
                out.append(pieces[i])
        return "".join(out).strip(" ") or "x"

    def css_soup(self):
        toks = ["width", "height", "min-", "max-", ":", " ", ";", "1", ".5", "em", "px", "rem", "x", "in", "ch", "20", ".", "width:", "1em"]
        return "".join(self.r.choice(toks) for _ in range(self.r.randrange(1, 9))).strip(" ") or "x"

    def ref_inline(self):
        k = self.r.randrange(4)
        if k == 0:
            return ("msg", self.r.choice(MSG_IDS), None)
        if k == 1:
            return ("msg", self.r.choice(MSG_IDS), self.r.choice(MSG_ATTRS))
        if k == 2:
            return ("term", self.r.choice(TERM_IDS), None)
        return ("term", self.r.choice(TERM_IDS), self.args(0))

    def args(self, depth):
        n = self.r.choice([0, 0, 1, 2])
        pos = [self.inline(depth + 1, arg=True) for _ in range(n)]
        if depth < 2 and self.r.random() < 0.25:
            pos.append(("selp", self.sel(depth + 1)))     # a select inside call arguments (visited by TermVisitor everywhere)
        return (pos, self.r.choice([0, 0, 1, 2]))

    def inline(self, depth, arg=False):
        k = self.r.randrange(12)
        if k < 5:
            return self.ref_inline()
        if k == 5:
            return ("var", self.r.choice(["n", "count"]))
        if k == 6:
            return ("str", self.r.choice(["", "x", "�", "a b"]))
        if k == 7:
            return ("num", self.r.choice(["1", "3.14", "-2"]))
        if k == 8 and depth < 2:
            return ("fun", self.r.choice(["NUMBER", "DATETIME", "FOO"]), self.args(depth)[0], self.r.choice([0, 1]))
        if k == 9 and depth < 2:
            return ("nest", self.inline(depth + 1))
        if k == 10 and depth < 2 and arg:
            return ("selp", self.sel(depth + 1))
        if k == 11 and arg:
            # a term attribute is only legal as a selector or as a call argument; it is never recorded as a reference
            return ("termattr", self.r.choice(TERM_IDS), "case", None)
        return self.ref_inline()

    def selector(self, depth):
        k = self.r.randrange(7)
        if k < 2:
            return ("var", "n")
        if k == 2:
            return ("fun", "NUMBER", [("var", "n")], 1)
        if k == 3:
            return ("fun", "FOO", self.args(depth + 1)[0], 0)     # may hold references/selects that are NOT visited
        if k == 4:
            return ("termattr", self.r.choice(TERM_IDS), "case", None)
        if k == 5:
            return ("termattr", self.r.choice(TERM_IDS), "case", self.args(depth + 1))
        return self.r.choice([("num", "1"), ("str", "x")])

    def keys(self, cats):
        n = self.r.choice([1, 2, 2, 3, 3, 4])
        pool_ = list(cats) * 3 + CATS + ["0", "1", "1.0", "masculine", "a"]
        ks = []
        for _ in range(n):
            if ks and self.r.random() < 0.2:
                ks.append(self.r.choice(ks))
            else:
                ks.append(self.r.choice(pool_))
        return ks

    def sel(self, depth):
        ks = self.keys(self.cats)
        d = self.r.randrange(len(ks))
        vs = []
        for i, k in enumerate(ks):
            vs.append(("U" if k[0] in "0123456789" else "I", k, i == d, self.pattern(depth + 1, small=True)))
        return ("sel", self.selector(depth), vs)

    def pattern(self, depth=0, small=False):
        n = self.r.choice([1, 1, 2] if small else [1, 2, 2, 3])
        parts = []
        for i in range(n):
            k = self.r.randrange(10)
            if k < 4 or (parts and parts[-1][0] != "t" and k < 6):
                parts.append(("t", self.text() + (" " if self.r.random() < 0.5 else "")))
            elif k < 8:
                parts.append(("p", self.inline(depth)))
            elif depth < 2:
                parts.append(self.sel(depth))
            else:
                parts.append(("p", self.ref_inline()))
        # a pattern must not start with something that would be parsed differently; all our texts are safe inline
        if parts[0][0] == "t" and not parts[0][1].strip():
            parts[0] = ("t", "x")
        return parts

    def style_pattern(self, mode=None):
        mode = mode or self.r.choice(["good", "good", "bad", "soup", "complex", "plain", "uws"])
        if mode == "uws":
            return [("t", self.css_uws())]
        if mode == "good":
            return [("t", self.css_good())]
        if mode == "bad":
            return [("t", self.css_bad())]
        if mode == "soup":
            return [("t", self.css_soup())]
        if mode == "complex":
            return [("t", self.css_good() + " "), ("p", ("var", "w"))]
        return self.pattern(1, small=True)

    def attr(self, name):
        return (name, self.style_pattern() if name == "style" else self.pattern(1, small=True))

    def entry(self, kind, ident, cats):
        self.cats = cats
        value = self.pattern() if (kind == "term" or self.r.random() < 0.7) else None
        n = self.r.choice([0, 1, 1, 2, 2, 3])
        attrs = [self.attr(self.r.choice(ATTR_NAMES)) for _ in range(n)]
        if value is None and not attrs:
            attrs = [self.attr(self.r.choice(ATTR_NAMES))]
        return {"kind": kind, "id": ident, "value": value, "attrs": attrs, "comment": self.r.random() < 0.3,
                "prefix": self.r.choice(["", "", "first = one\n\n", "\n\n", "### resource\n\nx = y\n"])}

    def derive(self, ref, cats):
        """a localization of `ref`: same structure with new texts, then a few structural edits"""
        self.cats = cats
        l = {"kind": ref["kind"], "id": ref["id"], "comment": self.r.random() < 0.3,
             "prefix": self.r.choice(["", "", "other = thing\n", "\n"])}

        def relocalize(pat, style=False):
            if style:
                return self.style_pattern()
            keep = []
            walk_refs(pat, keep)
            new = self.pattern(1, small=True)
            for kind, rname in keep:
                if self.r.random() < 0.75:
                    if kind == "msg":
                        i, _, a = rname.partition(".")
                        new.append(("p", ("msg", i, a or None)))
                    else:
                        new.append(("p", ("term", rname[1:], None)))
                    if self.r.random() < 0.3:
                        new.append(("t", " " + self.text()))
            return new

        l["value"] = None if ref["value"] is None else relocalize(ref["value"])
        l["attrs"] = [(n, relocalize(p, n == "style")) for n, p in ref["attrs"]]
        for _ in range(self.r.choice([0, 0, 0, 1, 1, 2])):
            k = self.r.randrange(7)
            if k == 0 and ref["kind"] == "msg":
                l["value"] = None if l["value"] is not None else self.pattern()
            elif k == 1 and l["attrs"]:
                del l["attrs"][self.r.randrange(len(l["attrs"]))]
            elif k == 2:
                l["attrs"].insert(self.r.randrange(len(l["attrs"]) + 1), self.attr(self.r.choice(ATTR_NAMES)))
            elif k == 3 and l["attrs"]:
                n = self.r.choice(l["attrs"])[0]
                l["attrs"].insert(self.r.randrange(len(l["attrs"]) + 1), self.attr(n))
            elif k == 4 and l["attrs"]:
                self.r.shuffle(l["attrs"])
            elif k == 5:
                l["attrs"].append(self.attr("style"))
            elif k == 6 and l["value"] is not None:
                l["value"] = self.pattern()
        if l["value"] is None and not l["attrs"]:
            l["value"] = self.pattern()
        return l


def all_locales():
    from compare_locales import plurals
    return sorted(plurals.CATEGORIES_BY_LOCALE)


EXTRA_LOCALES = [None, "en-US", "xx", "sr-Latn", "de-AT-x", "zh-Hant", "", "x-y"]


def structural_pairs(ctx):
    """bounded-exhaustive part: value presence x attribute name sequences (with duplicates and style) on both sides"""
    L = 2 if ctx.tier == "quick" else 3
    names = ["label", "title", "style"]
    seqs = [s for n in range(L + 1) for s in itertools.product(names, repeat=n)]
    shapes = [(v, s) for v in (True, False) for s in seqs if v or s]
    styles = ["width: 20em", "width 20em", "min-width: 1ch; height: 2px", "height: 1emwidth: 2em"]
    cases = []
    i = 0
    for rv, rs in shapes:
        for lv, ls in shapes:
            def mk(v, s, side, i=i):
                attrs = []
                for j, n in enumerate(s):
                    if n == "style":
                        attrs.append((n, [("t", styles[(i + j + (1 if side else 0)) % (2 if side == 0 else len(styles))])]))
                    else:
                        attrs.append((n, [("t", "%s %d" % ("ref" if side == 0 else "l10n", j))]))
                return {"kind": "msg", "id": "msg", "value": [("t", "value %d" % side)] if v else None, "attrs": attrs,
                        "comment": False, "prefix": "" if i % 3 else "x = y\n"}
            cases.append((mk(rv, rs, 0), mk(lv, ls, 1), ["de", "pl", None][i % 3]))
            i += 1
    return cases


def plural_cases(ctx):
    """all locales of the plural table x key sets over the CLDR categories (+ a number / other identifier)"""
    rng = ctx.rng("c08", "plural")
    subsets = [s for n in range(1, 7) for s in itertools.combinations(CATS, n)]
    cases = []
    per = ctx.n(6, 63)
    for loc in all_locales() + EXTRA_LOCALES:
        chosen = subsets if per >= len(subsets) else rng.sample(subsets, per)
        for ks in chosen:
            ks = list(ks)
            if rng.random() < 0.3:
                ks.insert(rng.randrange(len(ks) + 1), rng.choice(["1", "0", "masculine"]))
            if rng.random() < 0.2:
                ks.append(rng.choice(ks))
            rng.shuffle(ks)
            d = rng.randrange(len(ks))
            vs = [("U" if k[0] in "01" else "I", k, i == d, [("t", "v%d" % i)]) for i, k in enumerate(ks)]
            kind = "term" if rng.random() < 0.25 else "msg"
            l = {"kind": kind, "id": "msg", "value": [("t", "n "), ("sel", ("var", "n"), vs)], "attrs": [], "comment": False, "prefix": ""}
            r = {"kind": kind, "id": "msg", "value": [("t", "x")], "attrs": [], "comment": False, "prefix": ""}
            cases.append((r, l, loc))
    return cases


def random_cases(ctx):
    rng = ctx.rng("c08", "random")
    g = Gen(rng)
    locs = all_locales()
    cases = []
    for i in range(ctx.n(5000, 120000)):
        loc = locs[i % len(locs)] if rng.random() < 0.9 else rng.choice(EXTRA_LOCALES)
        cats = plural_cats(loc) or ("one", "other")
        kind = "term" if rng.random() < 0.15 else "msg"
        ref = g.entry(kind, "msg", cats)
        if rng.random() < 0.75:
            l10n = g.derive(ref, cats)
        else:
            l10n = g.entry(kind, "msg", cats)
        if kind == "msg" and rng.random() < 0.02:
            ref = dict(ref, kind="term", value=ref["value"] or g.pattern())     # a term as reference of a message
        cases.append((ref, l10n, loc))
    return cases


def key_of(sh):
    return ("-" if sh["kind"] == "term" else "") + sh["id"]


def run_cases(ctx, out, cases, tag):
    """cases: (ref shape, l10n shape, locale[, same object]) -> the implementation's result per case (None if skipped)"""
    cases = [c if len(c) == 4 else (c[0], c[1], c[2], False) for c in cases]
    args = [[r_file(r), r_file(l), key_of(r), key_of(l), loc, same] for r, l, loc, same in cases]
    res = pool.pmap("impl.fluentcheck", "run_case", args, timeout=5.0, batch=64)
    todo = []
    results = [None] * len(cases)
    for i, ((r, l, loc, same), a, x) in enumerate(zip(cases, args, res)):
        if "r" not in x:
            out.violations.append({"what": "check crashed/hung: %s %s" % (x.get("exc"), x.get("msg")),
                                   "input": {"ref": a[0], "l10n": a[1], "locale": loc}, "finding": None})
            continue
        x = x["r"]
        if "skip" in x:
            out.count("%s.skipped.%s" % (tag, x["skip"]))
            continue
        results[i] = x
        todo.append((r, l, loc, a, x))
    lines = [t[4]["line"] for t in todo] + [t[4]["eqline"] for t in todo if "eqline" in t[4]]
    model = C.run_driver_parallel(lines) if ctx.model_ok else [None] * len(lines)
    eq_model = iter(model[len(todo):])
    for (r, l, loc, a, x), mo in zip(todo, model):
        out.evaluations += 1
        out.count("%s.cases" % tag)
        bad = oracle(r, l, loc, x)
        canon = x["canon"]
        if x["res"]:
            sevs = {s for s, _, _, c in x["res"] if c == "fluent"}
            out.nontrivial.add(canon.replace(" ", "")[:4000])
            out.count("%s.with-%s" % (tag, "+".join(sorted(sevs)) or "encodings-only"))
            for s, _, m, c in x["res"]:
                kind = "encodings" if c != "fluent" else m.split(":")[0].split('"')[0].strip()
                out.count("msgkind." + ("css-warning" if (" only in " in kind or kind.startswith("units for")) else kind))
        else:
            out.count("%s.clean" % tag)
        if bad:
            out.violations.append({"what": bad, "input": {"ref": a[0], "l10n": a[1], "locale": loc, "ref_shape": r, "l10n_shape": l},
                                   "result": x["res"], "finding": finding_of(r, l, loc, x, bad)})
        elif mo is not None and mo != canon:
            out.disagreements.append({"op": "ftl.check", "ref": a[0], "l10n": a[1], "locale": loc, "impl": canon, "model": mo})
        if "eqline" in x:
            em = next(eq_model)
            out.count("equals.%s" % x["equals"])
            if em is not None and em != str(x["equals"]):
                out.disagreements.append({"op": "c08.equals", "ref": a[0], "l10n": a[1], "impl": str(x["equals"]), "model": em})
        if len(out.samples) < 8 and x["res"] and len(x["res"]) >= 3 and out.distribution.get("sampled." + tag, 0) < 3:
            out.count("sampled." + tag)
            out.samples.append({"ref": a[0], "l10n": a[1], "locale": loc, "result": x["res"]})
    return results


def css_cases(ctx, out):
    """parse_css_spec: model vs implementation on generated style values; the reference grammar vs the implementation"""
    rng = ctx.rng("c08", "css")
    g = Gen(rng)
    texts = []
    for _ in range(ctx.n(1500, 30000)):
        texts.append(rng.choice([g.css_good, g.css_bad, g.css_soup])())
        if rng.random() < 0.15:      # trailing / leading white space (cannot occur in a Fluent TextElement, only here)
            texts.append(rng.choice(["", " ", "\n"]) + texts[-1] + rng.choice([" ", "\n", "\t", " \r\n", "  "]))
    toks = ["width", "height", "min-", ":", " ", ";", "1", ".", "5", "em", "px", "\n", "x"]
    L = 4 if ctx.tier == "quick" else 5
    for n in range(L + 1):
        for t in itertools.product(toks, repeat=n):
            texts.append("".join(t))
    texts = list(dict.fromkeys(texts))
    res = pool.pmap("impl.fluentcheck", "css_case", [[t] for t in texts], timeout=5.0, batch=256)
    model = C.run_driver_parallel(["css.parse " + C.enc(t) for t in texts]) if ctx.model_ok else [None] * len(texts)
    for t, x, mo in zip(texts, res, model):
        out.evaluations += 1
        out.count("css.cases")
        if "r" not in x:
            out.violations.append({"what": "parse_css_spec crashed: %s" % x.get("exc"), "input": {"css": t}, "finding": None})
            continue
        canon = x["r"]
        out.count("css." + ("spec" if canon.startswith("{") else "none") + ("+errors" if canon.endswith("]") else ""))
        if canon != "None None":
            out.nontrivial.add("css|" + canon + "|" + t[:60])
        # oracle: accepted by parse_css_spec/check_style  <=>  the reference grammar accepts
        accepted = canon.startswith("{") and canon.endswith(" None")
        if accepted != css_reference(t):
            fid = None
            out.violations.append({"what": "parse_css_spec %s %r, the reference grammar says %s" % (
                "accepts" if accepted else "refuses", t, "not a CSS size spec" if accepted else "a CSS size spec"),
                "input": {"css": t}, "result": canon, "finding": fid})
        elif mo is not None and mo != canon:
            out.disagreements.append({"op": "css.parse", "text": t, "impl": canon, "model": mo})


def locale_cases(ctx, out):
    locs = all_locales() + EXTRA_LOCALES + [l + "-XX" for l in all_locales()[:40]] + ["-", "-de", "de-"]
    res = pool.pmap("impl.fluentcheck", "plural_case", [[l] for l in locs], timeout=5.0, batch=256)
    model = C.run_driver_parallel(["ftl.plural " + ("-" if l is None else C.enc(l)) for l in locs]) if ctx.model_ok else [None] * len(locs)
    for l, x, mo in zip(locs, res, model):
        out.evaluations += 1
        if "r" in x and mo is not None and x["r"] != mo:
            out.disagreements.append({"op": "ftl.plural", "locale": l, "impl": x["r"], "model": mo})


# ------------------------------------------------------------------------------------------ round 4: copies
MARK = "~"          # occurs in no generated text: a re-texted element always differs from the original


def retext_pattern(pat, rng, changed):
    """the same pattern with every text part replaced (blanks at the ends kept: they decide how the parser joins / trims)"""
    out = []
    for p in pat:
        if p[0] == "t":
            core = p[1].strip(" ")
            lead = p[1][:len(p[1]) - len(p[1].lstrip(" "))] if core else ""
            trail = p[1][len(p[1].rstrip(" ")):] if core else p[1]
            new = rng.choice(TEXTS) if rng.random() < 0.7 else core[::-1]
            if new and new[0] in "[*.":          # keep a continuation line from looking like a variant / attribute
                new = "x" + new
            out.append(("t", lead + new + MARK + trail))
            changed.append(1)
        elif p[0] == "p":
            out.append(("p", retext_inline(p[1], rng, changed)))
        else:
            out.append(retext_sel(p, rng, changed))
    return out


def retext_sel(p, rng, changed):
    return ("sel", retext_inline(p[1], rng, changed), [(kind, key, d, retext_pattern(vp, rng, changed)) for kind, key, d, vp in p[2]])


def retext_inline(e, rng, changed):
    k = e[0]
    if k == "fun":
        return ("fun", e[1], [retext_inline(a, rng, changed) for a in e[2]], e[3])
    if k == "nest":
        return ("nest", retext_inline(e[1], rng, changed))
    if k == "selp":
        return ("selp", retext_sel(e[1], rng, changed))
    if k == "term" and e[2] is not None:
        return ("term", e[1], ([retext_inline(a, rng, changed) for a in e[2][0]], e[2][1]))
    if k == "termattr" and e[3] is not None:
        return ("termattr", e[1], e[2], ([retext_inline(a, rng, changed) for a in e[3][0]], e[3][1]))
    return e


def copies_of(ref, rng):
    """the three untranslated / re-texted / re-laid-out copies of a reference shape, as localizations:
    (a) identical source, (b) every text element of the value and of the non-style attributes replaced (nothing else),
    (c) same AST, other comment / preceding entries / white-space layout.  A `style` attribute keeps its text in all
    three: there the text IS the structure that is checked."""
    a = dict(ref)
    changed = []
    b = dict(ref)
    b["value"] = None if ref["value"] is None else retext_pattern(ref["value"], rng, changed)
    b["attrs"] = [(n, pat if n == "style" else retext_pattern(pat, rng, changed)) for n, pat in ref["attrs"]]
    c = dict(ref)
    c["layout"] = rng.choice([1, 2])
    c["comment"] = rng.choice([False, True, "# another\n# comment\n", "#\n"]) if not ref["comment"] else rng.choice([False, "# else\n"])
    c["prefix"] = rng.choice(["", "\n\n\n", "zzz = first\n", "## group\n\n", "-t = term\n    .a = b\n"])
    c["suffix"] = rng.choice(["", "\n", "\n# trailing comment\n", "after = it\n"])
    return a, (b if changed else None), c


def with_copies(cases, rng, limit):
    """for the first `limit` distinct reference shapes of a family: (ref, copy, locale) for the copies (a) — also as ONE
    object on both sides, the linter's call —, (b), (c).  The expected findings of (a), (b), (c) are computed from the
    shapes like everywhere else and are asserted to coincide: text, comments and layout are no input of `expected`."""
    seen = set()
    out = []
    for r, _, loc in cases:
        k = (r_file(r), loc)
        if k in seen:
            continue
        seen.add(k)
        if len(seen) > limit:
            break
        a, b, c = copies_of(r, rng)
        group = [(r, a, loc, False), (r, a, loc, True), (r, c, loc, False)] + ([(r, b, loc, False)] if b else [])
        exp = [expected(r, x[1], loc) for x in group]
        if any(e != exp[0] for e in exp):
            raise RuntimeError("oracle construction: expected findings of the copies of one reference differ")
        out += group
    return out


def directed_copy_refs():
    """en-US style references whose SHAPE needs a verdict in the target locale even when copied verbatim"""
    def sel(keys, default):
        d = max(i for i, k in enumerate(keys) if k == default)       # exactly one default variant
        return ("sel", ("var", "n"), [("U" if k[0] in "0123456789" else "I", k, i == d, [("t", "%s items" % k)]) for i, k in enumerate(keys)])

    def msg(value, attrs, kind="msg"):
        return {"kind": kind, "id": "msg", "value": value, "attrs": attrs, "comment": False, "prefix": ""}
    one_other = [("t", "You have "), sel(["one", "other"], "other")]
    refs = [
        msg(one_other, []),                                                             # English plural copied
        msg([sel(["one"], "one")], []),                                                 # `other` missing
        msg([sel(["one", "one", "other"], "other")], []),                                # duplicated variant key
        msg([sel(["1", "1", "other"], "other")], []),                                    # duplicated number key
        msg([("t", "v")], [("label", [("t", "a")]), ("label", [("t", "b")])]),           # duplicated attribute
        msg([("t", "v")], [("style", [("t", "wide")])]),                                 # style that is no CSS spec, both sides
        msg([("t", "v")], [("style", [("t", "width: 1em height: 2px")])]),
        msg([("t", "v")], [("style", [("t", "width: 1em")]), ("style", [("t", "height: 2em; width: 3px")])]),   # two styles
        msg(None, [("title", one_other), ("title", [sel(["few", "few"], "few")])]),
        msg(one_other + [("p", ("msg", "foo", None)), ("p", ("term", "brand", None))], [("label", [("p", ("msg", "foo", "a"))])]),
        msg(one_other + [("p", ("term", "brand", ([("selp", sel(["one", "two"], "two"))], 0)))], [], kind="term"),
        msg([("t", "x "), ("p", ("msg", "nope", None))], [("a", [("t", "y")]), ("a", [sel(["zero", "zero"], "zero")])], kind="term"),
    ]
    return refs


def directed_copies(ctx):
    rng = ctx.rng("c08", "directed-copies")
    locs = all_locales()
    if ctx.tier == "quick":
        locs = sorted(set(rng.sample(locs, 30) + ["ru", "pl", "ar", "cy", "ja", "lt", "ga-IE", "sl", "en-US", "fr"]))
    cases = [(r, r, loc) for loc in locs + [None, "xx", "sr-Latn"] for r in directed_copy_refs()]
    return with_copies(cases, rng, len(cases))


# ------------------------------------------------------------------------------------------ round 4: other streams
def dupstyle_cases(ctx):
    """several `style` attributes in one message, on one or both sides: `reference.css_styles` is popped from in place by
    every check_style call, and the reference visitor keeps the LAST style attribute's map"""
    rng = ctx.rng("c08", "dupstyle")
    g = Gen(rng)
    g.cats = ("one", "other")
    cases = []
    for i in range(ctx.n(400, 6000)):
        def styles(n):
            return [("style", g.style_pattern(rng.choice(["good", "good", "good", "bad", "complex", "uws"]))) for _ in range(n)]
        def mix(attrs):
            attrs = list(attrs)
            for _ in range(rng.choice([0, 0, 1])):
                attrs.insert(rng.randrange(len(attrs) + 1), g.attr(rng.choice(["label", "title"])))
            return attrs
        ref = {"kind": "msg", "id": "msg", "value": [("t", "v")], "attrs": mix(styles(rng.choice([0, 1, 1, 2]))), "comment": False, "prefix": ""}
        l10n = {"kind": "msg", "id": "msg", "value": [("t", "w")], "attrs": mix(styles(rng.choice([1, 2, 2, 3]))), "comment": False, "prefix": ""}
        cases.append((ref, l10n, ["de", "pl", None][i % 3]))
    return cases


def canon_raw(canon):
    """`visitor.messages` before the sort: the runs of `Obsolete attribute:` / `Missing attribute:` errors come out of Python set
    iterations (`l10n_attrs - ref_attrs`, `ref_attrs - l10n_attrs`); inside such a run the order is not specified — sorted
    (position, text) on both sides"""
    parts = canon.split(" | ")
    if parts[0] != "ok":
        return canon
    items = [p_.split(" ") for p_ in parts[1:]]

    def fam(it):
        t = C.dec(it[2])
        return 1 if t.startswith("Obsolete attribute: ") else 2 if t.startswith("Missing attribute: ") else 0
    i = 0
    while i < len(items):
        j = i
        while j < len(items) and fam(items[j]) and fam(items[j]) == fam(items[i]):
            j += 1
        if j > i + 1:
            items[i:j] = sorted(items[i:j], key=lambda it: (int(it[1]), C.dec(it[2])))
        i = max(j, i + 1)
    return " | ".join(["ok"] + [" ".join(it) for it in items])


def raw_cases(ctx, out):
    """check_message / check_term called directly with entries of either type (the defensive RuntimeError branches)"""
    rng = ctx.rng("c08", "raw")
    g = Gen(rng)
    locs = all_locales()
    args = []
    for i in range(ctx.n(400, 5000)):
        loc = rng.choice(locs) if rng.random() < 0.9 else rng.choice(EXTRA_LOCALES)
        cats = plural_cats(loc) or ("one", "other")
        rk, lk = rng.choice(["msg", "msg", "term"]), rng.choice(["msg", "term"])
        ref = g.entry(rk, "msg", cats)
        l10n = g.derive(ref, cats) if rk == lk and rng.random() < 0.5 else g.entry(lk, "msg", cats)
        args.append([r_file(ref), r_file(l10n), key_of(ref), key_of(l10n), loc, "message"])
        args.append([r_file(ref), r_file(l10n), key_of(ref), key_of(l10n), loc, "term"])
    res = pool.pmap("impl.fluentcheck", "raw_case", args, timeout=5.0, batch=64)
    todo = [(a, x["r"]) for a, x in zip(args, res) if "r" in x and "skip" not in x["r"]]
    for a, x in zip(args, res):
        if "r" not in x:
            out.violations.append({"what": "check_message/check_term crashed the worker: %s" % x.get("exc"), "input": {"ref": a[0], "l10n": a[1]}, "finding": None})
    model = C.run_driver_parallel([x["line"] for _, x in todo]) if ctx.model_ok else [None] * len(todo)
    for (a, x), mo in zip(todo, model):
        out.evaluations += 1
        out.count("raw.%s.%s" % (a[5], "raises-" + x["exc"] if x.get("exc") else "ok"))
        l10n_is_term = a[3].startswith("-")
        # the only raise there may be is the defensive one, and exactly for the wrong entry type
        want_exc = (a[5] == "message") == l10n_is_term
        if bool(x.get("exc")) != want_exc or (x.get("exc") and x["exc"] != "RuntimeError"):
            out.violations.append({"what": "check_%s on a %s: %s" % (a[5], "term" if l10n_is_term else "message", x.get("exc") or "no exception"),
                                   "input": {"ref": a[0], "l10n": a[1], "locale": a[4]}, "finding": None})
        elif mo is not None and canon_raw(mo) != canon_raw(x["canon"]):
            out.disagreements.append({"op": x["line"].split(" ")[0], "ref": a[0], "l10n": a[1], "locale": a[4], "impl": x["canon"], "model": mo})
        if not x.get("exc") and x.get("n"):
            out.nontrivial.add("raw|" + x["canon"][:2000])


def seq_cases(ctx, out):
    """SEQUENCES of entity pairs through ONE FluentChecker (compare / lint use one instance per file) vs fresh checkers"""
    rng = ctx.rng("c08", "seq")
    g = Gen(rng)
    locs = all_locales()
    args, shapes = [], []
    for i in range(ctx.n(250, 4000)):
        loc = rng.choice(locs) if rng.random() < 0.9 else rng.choice(EXTRA_LOCALES)
        cats = plural_cats(loc) or ("one", "other")
        cases, shp = [], []
        g.cats = cats
        shared = None
        if rng.random() < 0.35:      # ONE reference with a `style`, several localizations of it (a tool that holds its reference)
            shared = {"kind": "msg", "id": "msg", "value": [("t", "v")], "comment": False, "prefix": "",
                      "attrs": [("style", g.style_pattern("good")), g.attr("label")] + ([("style", g.style_pattern("good"))] if rng.random() < 0.3 else [])}
        for j in range(rng.choice([2, 3, 3, 4, 6])):
            kind = "term" if rng.random() < 0.2 else "msg"
            ref = g.entry(kind, "msg", cats)
            k = rng.randrange(5)
            if shared is not None:
                l10n = dict(shared, value=[("t", "w%d" % j)],
                            attrs=[("style", g.style_pattern(rng.choice(["good", "good", "good", "bad"]))) for _ in range(rng.choice([1, 1, 2]))] + [g.attr("label")])
                cases.append([r_file(shared), r_file(l10n), "msg", "msg", False])
                shp.append((shared, l10n))
                continue
            same = False
            if k == 0:
                l10n, same = ref, rng.random() < 0.5
            elif k == 1 and cases:
                ref, l10n = shp[-1][0], g.derive(shp[-1][0], cats)          # the same reference again, another localization
            else:
                l10n = g.derive(ref, cats) if rng.random() < 0.8 else g.entry(kind, "msg", cats)
            cases.append([r_file(ref), r_file(l10n), key_of(ref), key_of(l10n), same])
            shp.append((ref, l10n))
        setrefs = {}
        for j in range(len(cases)):
            if rng.random() < 0.25:
                setrefs[str(j)] = rng.sample(["msg", "-msg", "foo", "brand-name", "x"], rng.randrange(0, 4))
        args.append([cases, loc, setrefs])
        shapes.append(shp)
    res = pool.pmap("impl.fluentcheck", "seq_case", args, timeout=10.0, batch=16)
    todo = []
    for a, shp, x in zip(args, shapes, res):
        if "r" not in x:
            out.violations.append({"what": "sequence of checks crashed/hung: %s" % x.get("exc"), "input": {"cases": a[0], "locale": a[1]}, "finding": None})
            continue
        todo.append((a, shp, x["r"]))
    model = C.run_driver_parallel([x["line"] for _, _, x in todo]) if ctx.model_ok else [None] * len(todo)
    for (a, shp, x), mo in zip(todo, model):
        out.evaluations += len(x["one"])
        out.count("seq.sequences")
        out.count("seq.calls", len(x["one"]))
        if x["one"] != x["fresh"] or not x["locale_kept"]:
            j = next((j for j, (p, q) in enumerate(zip(x["one"], x["fresh"])) if p != q), None)
            out.violations.append({"what": "the verdict of a check depends on what the FluentChecker instance checked before (call %s of the sequence)" % j,
                                   "input": {"cases": a[0], "locale": a[1], "setrefs": a[2]}, "one_instance": x["one"], "fresh": x["fresh"], "finding": None})
        elif len(x["one"]) == len(shp):
            bad = None
            for (ref, l10n), r_ in zip(shp, x["res"]):
                bad = bad or (oracle(ref, l10n, a[1], {"res": r_}) if r_ is not None else "check raised")
            if bad:
                out.violations.append({"what": "in a sequence through one checker: " + bad, "input": {"cases": a[0], "locale": a[1]}, "finding": None})
            elif mo is not None and mo != x["canon"]:
                out.disagreements.append({"op": "c08.seq", "cases": a[0], "locale": a[1], "impl": x["canon"], "model": mo})
        elif mo is not None and mo != x["canon"]:
            out.disagreements.append({"op": "c08.seq", "cases": a[0], "locale": a[1], "impl": x["canon"], "model": mo})
        if any(o != "ok" for o in x["one"]):
            out.nontrivial.add("seq|" + x["canon"].replace(" ", "")[:3000])


def css_warning_reference(ref_value, l10n_values):
    """independent computation of what check_style yields when it is called for each of `l10n_values` with ONE map of the
    reference value that it pops from (None = this call gives the error `reference is a CSS spec`)"""
    def decls(v):
        out = {}
        for d in v.replace("\n", " ").replace("\t", " ").replace("\r", " ").split(";"):
            d = d.strip(" ")
            if d:
                prop, _, val = d.partition(":")
                unit = val.strip(" ").lstrip("0123456789.")
                out[prop.strip(" ")] = unit
        return out
    left = decls(ref_value) if css_reference(ref_value) else {}
    res = []
    for v in l10n_values:
        if not css_reference(v):
            res.append(None)
            continue
        front, back = [], []
        for prop, unit in decls(v).items():
            if prop not in left:
                front.insert(0, "%s only in l10n" % prop)
            else:
                ru = left.pop(prop)
                if ru != unit:
                    back.append("units for %s don't match (%s != %s)" % (prop, unit, ru))
        for prop in left:
            front.insert(0, "%s only in reference" % prop)
        res.append(", ".join(front + back))
    return res


def style_cases(ctx, out):
    """maybe_style(ref, l10n) and check_style sequences on one ref_map: model vs implementation, and the texts of the CSS
    warnings against an independent computation"""
    rng = ctx.rng("c08", "style")
    g = Gen(rng)

    def val():
        return rng.choice([g.css_good, g.css_good, g.css_good, g.css_bad, g.css_uws, g.css_soup])()
    pairs = [[val(), val()] for _ in range(ctx.n(1200, 20000))]
    for v in ["width: 1em", "width: 1em; height: 2px", "height: 2px; width: 1em", "width: 1px; width: 2em", "min-width: 3ch"]:
        for w in ["width: 1em", "width: 2px", "height: 1em", "width: 1em; height: 2px; max-width: 3in", "width: 1px; width: 2em", "", "x"]:
            pairs.append([v, w])
    res = pool.pmap("impl.fluentcheck", "style_case", pairs, timeout=5.0, batch=256)
    model = C.run_driver_parallel(["c08.maybestyle %s %s" % (C.enc(a), C.enc(b)) for a, b in pairs]) if ctx.model_ok else [None] * len(pairs)
    for (a, b), x, mo in zip(pairs, res, model):
        out.evaluations += 1
        if "r" not in x or x["r"].get("exc"):
            out.violations.append({"what": "maybe_style raised/crashed: %s" % (x.get("exc") or x["r"].get("exc")), "input": {"ref": a, "l10n": b}, "finding": None})
            continue
        x = x["r"]
        out.count("maybe_style." + ("silent" if not x["res"] else x["res"][0][0]))
        # by construction: nothing unless the reference is a spec; then an error iff the l10n value is not, else the warning text
        if not css_reference(a):
            want = None         # maybe_style takes whatever declarations it finds in the reference (its errors are dropped): model only
        else:
            w = css_warning_reference(a, [b])[0]
            want = [["error", 0, "reference is a CSS spec", "css"]] if w is None else ([["warning", 0, w, "css"]] if w else [])
        if want is not None and x["res"] != want:
            if [t[0] for t in x["res"]] != [t[0] for t in want] and ("error" in [t[0] for t in x["res"]] + [t[0] for t in want]):
                out.violations.append({"what": "maybe_style(%r, %r): expected %s, got %s" % (a, b, want, x["res"]), "input": {"ref": a, "l10n": b}, "finding": None})
            else:      # the text of a CSS warning is not part of the property: correspondence level
                out.disagreements.append({"op": "c08.maybestyle/reference", "ref": a, "l10n": b, "impl": x["res"], "expected": want})
        elif mo is not None and mo != x["canon"]:
            out.disagreements.append({"op": "c08.maybestyle", "ref": a, "l10n": b, "impl": x["canon"], "model": mo})
        if x["res"]:
            out.nontrivial.add("style|" + x["res"][0][2])
    seqs = [[g.css_good(), [val() for _ in range(rng.choice([2, 2, 3, 4]))]] for _ in range(ctx.n(600, 10000))]
    res = pool.pmap("impl.fluentcheck", "check_style_seq", seqs, timeout=5.0, batch=256)
    model = C.run_driver_parallel(["c08.styleseq %s %d %s" % (C.enc(a), len(vs), " ".join(C.enc(v) for v in vs)) for a, vs in seqs]) if ctx.model_ok else [None] * len(seqs)
    for (a, vs), x, mo in zip(seqs, res, model):
        out.evaluations += 1
        out.count("styleseq.cases")
        if "r" not in x:
            out.violations.append({"what": "check_style sequence crashed: %s" % x.get("exc"), "input": {"ref": a, "l10n": vs}, "finding": None})
            continue
        canon = x["r"]["canon"] + " ## " + x["r"]["left"]
        want = css_warning_reference(a, vs)
        got = []
        for part in x["r"]["canon"].split(" || "):
            f = part.split(" | ")[1:]
            if not f:
                got.append("")
            else:
                sev, _, txt, _ = f[0].split(" ")
                got.append(None if C.dec(sev) == "error" else C.dec(txt))
        if [w is None for w in want] != [w is None for w in got]:
            out.violations.append({"what": "check_style on one ref_map: errors expected for calls %s, reported for %s" % (
                [i for i, w in enumerate(want) if w is None], [i for i, w in enumerate(got) if w is None]), "input": {"ref": a, "l10n": vs}, "finding": None})
        elif want != got:
            out.disagreements.append({"op": "c08.styleseq/reference", "ref": a, "l10n": vs, "impl": got, "expected": want})
        elif mo is not None and mo != canon:
            out.disagreements.append({"op": "c08.styleseq", "ref": a, "l10n": vs, "impl": canon, "model": mo})
        out.nontrivial.add("styleseq|" + canon[:500])


REPORT_ATTRS = ["label", "title", "accesskey", "aria-label", "placeholder", "tooltiptext", "value", "style"]
HASHSEEDS = ["0", "1", "2", "3"]


def strip_where(text):
    i = text.rfind(" at line ")
    return text[:i] if i >= 0 else text


def canon_report(rep):
    """the report with everything the property fixes: per message its severity and text (multiset), the summary; the ORDER
    of the `Missing attribute:` errors among themselves is not fixed by the property (Python set iteration) and is left out
    by sorting the details"""
    return (sorted((c, t) for c, t in rep["details"]), sorted(rep["summary"].items(), key=str), sorted(map(tuple, rep["lint"])))


# scratch files of the report stream live in a directory PRIVATE to this run of the check: a shared path was removed
# by a concurrently running C08 check, whose workers then failed to write their files (false alarm, fixed)
import os as _os
_os.environ.setdefault("C08_SCRATCH", "/tmp/wt/c08/scratch-%d" % _os.getpid())

def clean_scratch():
    """remove the files the workers wrote for compare / lint"""
    import os
    import shutil
    scratch = os.environ["C08_SCRATCH"]            # private to this run (set at import, inherited by the workers)
    shutil.rmtree(scratch, ignore_errors=True)
    try:
        os.rmdir(os.path.dirname(scratch))          # only if nothing else (a scratch copy of the code) lives there
    except OSError:
        pass


def report_cases(ctx, out):
    """ContentComparer.compare + toJSON and the linter, the whole run repeated in processes with different PYTHONHASHSEED:
    what the property fixes of the REPORT (which errors / warnings, for which entity, the counts) must not depend on it;
    and the messages of the report must be those of `check` on the pair"""
    rng = ctx.rng("c08", "report")
    g = Gen(rng)
    cases = []
    for i in range(ctx.n(120, 2500)):
        loc = rng.choice(["ru", "pl", "de", "ar", "ja", "en-GB", "cy"])
        cats = plural_cats(loc) or ("one", "other")
        g.cats = cats
        k = rng.randrange(4)
        if k < 2:       # many attribute names on one side only: the set iterations of visit_Message
            names = rng.sample(REPORT_ATTRS, rng.randrange(2, 8))
            ref = {"kind": "msg", "id": "msg", "value": [("t", "v")] if rng.random() < 0.8 else None,
                   "attrs": [g.attr(n) for n in names], "comment": rng.random() < 0.3, "prefix": ""}
            keep = [n for n in names if rng.random() < 0.3]
            extra = rng.sample(REPORT_ATTRS, rng.randrange(0, 5))
            l10n = {"kind": "msg", "id": "msg", "value": [("t", "w")] if rng.random() < 0.8 else None,
                    "attrs": [g.attr(n) for n in keep + extra], "comment": False, "prefix": ""}
            if l10n["value"] is None and not l10n["attrs"]:
                l10n["value"] = [("t", "w")]
        else:
            kind = "term" if rng.random() < 0.2 else "msg"
            ref = g.entry(kind, "msg", cats)
            l10n = ref if k == 2 and rng.random() < 0.5 else g.derive(ref, cats)
        l10n = dict(l10n, prefix=rng.choice(["", "", "other = thing\n", "junk line\n\n", "  \n", "# c\n\n", "### r\n"]),
                    suffix=rng.choice(["", "", "\n\n", "more junk {\n", "-t = x\n"]))
        cases.append((ref, l10n, loc))
    args = [[r_file(r), r_file(l), loc] for r, l, loc in cases]
    seeds = HASHSEEDS[:3] if ctx.tier == "quick" else HASHSEEDS
    runs = [pool.pmap("impl.fluentcheck", "report_case", args, timeout=10.0, batch=32, env={"PYTHONHASHSEED": h}) for h in seeds]
    direct = pool.pmap("impl.fluentcheck", "run_case", [[a[0], a[1], key_of(r), key_of(l), a[2]] for a, (r, l, _) in zip(args, cases)], timeout=5.0, batch=64)
    clean_scratch()
    for i, (a, (r, l, loc)) in enumerate(zip(args, cases)):
        reps = [run[i].get("r") for run in runs]
        out.evaluations += len(seeds)
        out.count("report.cases")
        if any(rep is None for rep in reps) and any("exc" in (run[i] or {}) and (run[i] or {}).get("exc") in ("FileNotFoundError", "PermissionError", "OSError")
                                                  and "scratch" in str((run[i] or {}).get("msg", "")) for run in runs):
            raise RuntimeError("C08 report stream: the adapter could not write its scratch files: %r" % [run[i] for run in runs][:2])
        if any(rep is None or "exc" in rep for rep in reps):
            bad = next(rep for rep in reps if rep is None or "exc" in rep)
            out.violations.append({"what": "compare raised/crashed on a Fluent file pair: %s" % (bad and bad.get("exc")), "input": {"ref": a[0], "l10n": a[1], "locale": loc}, "finding": None})
            continue
        if any(rep["hashseed"] != h for rep, h in zip(reps, seeds)):
            raise RuntimeError("PYTHONHASHSEED did not reach the worker")
        canon = [canon_report(rep) for rep in reps]
        if any(c != canon[0] for c in canon):
            j = next(j for j, c in enumerate(canon) if c != canon[0])
            out.violations.append({"what": "the report (messages as a multiset, summary, lint results) depends on PYTHONHASHSEED: seed %s vs seed %s" % (seeds[0], seeds[j]),
                                   "input": {"ref": a[0], "l10n": a[1], "locale": loc}, "reports": [reps[0], reps[j]], "finding": None})
            continue
        if any(rep["details"] != reps[0]["details"] for rep in reps):
            out.count("report.order-of-missing-attributes-varies-with-hashseed")
            diff = next(rep for rep in reps if rep["details"] != reps[0]["details"])
            pre = "Missing attribute: "
            if [d for d in diff["details"] if not d[1].startswith(pre)] != [d for d in reps[0]["details"] if not d[1].startswith(pre)]:
                out.violations.append({"what": "the order of report lines other than the `Missing attribute:` run depends on PYTHONHASHSEED",
                                       "input": {"ref": a[0], "l10n": a[1], "locale": loc}, "reports": [reps[0], diff], "finding": None})
                continue
        # the report's messages for the pair are those of check(ref, l10n)
        d = direct[i].get("r")
        if d and "skip" not in d and d.get("res") is not None:
            want = sorted((s, m) for s, _, m, _ in d["res"])
            got = sorted((c, strip_where(t)) for c, t in reps[0]["details"] if t.endswith(" for " + key_of(l)) and c in ("error", "warning"))
            if want != got:
                out.violations.append({"what": "the report of compare does not show the verdicts of check: check %s, report %s" % (want, got),
                                       "input": {"ref": a[0], "l10n": a[1], "locale": loc}, "finding": None})
            elif want:
                out.nontrivial.add("report|" + repr(canon[0][0])[:1500])
            sm = reps[0]["summary"].get(str(loc), {})
            nerr = sum(1 for c, _ in reps[0]["details"] if c == "error")
            nwarn = sum(1 for c, _ in reps[0]["details"] if c == "warning")
            if (sm.get("errors", 0), sm.get("warnings", 0)) != (nerr, nwarn):
                out.violations.append({"what": "summary counts %s/%s differ from the %d errors / %d warnings listed" % (sm.get("errors"), sm.get("warnings"), nerr, nwarn),
                                       "input": {"ref": a[0], "l10n": a[1], "locale": loc}, "finding": None})


def run(ctx):
    out = Outcome()
    out.rule = ("(1) all pairs of messages over value present/absent x attribute-name sequences over {label,title,style} up to length 2 "
                "(quick) / 3 (thorough), duplicates included, style values good/bad; (2) every locale of the plural table (+ unknown, "
                "regional, None) x key sets over the six CLDR categories (6 sampled sets per locale quick, all 63 thorough), messages and terms; "
                "(3) seeded random reference/localization pairs from the shape grammar (references to messages/terms/attributes in values, "
                "attributes, function arguments, selectors, term arguments; nested selects; duplicate attributes and variant keys; style "
                "attributes good/bad/complex/with Unicode white space or non-ASCII digits in one gap; terms; comments and preceding entries), "
                "localization derived from the reference by re-texting + structural edits; (4) parse_css_spec on generated and exhaustive token strings; "
                "(5) for the distinct references of (1)-(3) and a directed family of references whose shape needs a verdict in the target locale: the "
                "identical copy (also as one object on both sides), a copy with every text element replaced, a copy in another white-space/comment layout; "
                "(6) 0-2 style attributes in the reference x 1-3 in the localization; (7) check_message/check_term called directly with all entry-type "
                "combinations; (8) sequences of 2-6 pairs with set_reference calls through ONE checker vs fresh checkers; (9) maybe_style pairs and "
                "check_style sequences on one ref_map; (10) compare + lint reports of file pairs under 3 (quick) / 4 PYTHONHASHSEED values. "
                "non-trivial = the check reports something; distinct = distinct canonical result lists")
    sp, pc, rc = structural_pairs(ctx), plural_cases(ctx), random_cases(ctx)
    run_cases(ctx, out, sp, "structural")
    run_cases(ctx, out, pc, "plural")
    run_cases(ctx, out, rc, "random")
    css_cases(ctx, out)
    locale_cases(ctx, out)
    # round 4
    rng = ctx.rng("c08", "copies")
    copies = (with_copies(sp, rng, ctx.n(60, 400)) + with_copies([(l, l, loc) for _, l, loc in pc], rng, ctx.n(400, 4000))
              + with_copies(rc, rng, ctx.n(1000, 20000)) + directed_copies(ctx))
    run_cases(ctx, out, copies, "copies")
    run_cases(ctx, out, dupstyle_cases(ctx), "dupstyle")
    raw_cases(ctx, out)
    seq_cases(ctx, out)
    style_cases(ctx, out)
    report_cases(ctx, out)
    return out


def replay(payload):
    res = []
    for v in payload.get("violations", []):
        i = v["input"]
        if "cases" in i:          # a sequence through one checker
            x = pool.pmap("impl.fluentcheck", "seq_case", [[i["cases"], i["locale"], i.get("setrefs", {})]], timeout=20.0)[0]
            bad = "crashed" if "r" not in x else ("one instance and fresh checkers differ" if x["r"]["one"] != x["r"]["fresh"] else None)
            res.append({"input": i, "oracle": bad, "finding": None})
            continue
        if "css" in i:            # parse_css_spec against the reference grammar
            x = pool.pmap("impl.fluentcheck", "css_case", [[i["css"]]], timeout=10.0)[0]
            canon = x.get("r")
            acc = bool(canon) and canon.startswith("{") and canon.endswith(" None")
            res.append({"input": i, "oracle": None if canon is not None and acc == css_reference(i["css"]) else "parse_css_spec and the reference grammar differ",
                        "finding": None})
            continue
        if "ref_shape" not in i and "ref" in i and "l10n" in i and isinstance(i["l10n"], str) and "locale" in i:      # the report under several hash seeds
            reps = [pool.pmap("impl.fluentcheck", "report_case", [[i["ref"], i["l10n"], i["locale"]]], timeout=20.0, env={"PYTHONHASHSEED": h})[0].get("r")
                    for h in HASHSEEDS]
            bad = None
            if any(r_ is None or "exc" in r_ for r_ in reps):
                bad = "compare raised/crashed"
            elif any(canon_report(r_) != canon_report(reps[0]) for r_ in reps):
                bad = "the report depends on PYTHONHASHSEED"
            else:
                pre = "Missing attribute: "
                if any([d for d in r_["details"] if not d[1].startswith(pre)] != [d for d in reps[0]["details"] if not d[1].startswith(pre)] for r_ in reps):
                    bad = "order outside the Missing-attribute run depends on PYTHONHASHSEED"
            res.append({"input": i, "oracle": bad, "finding": None})
            continue
        if "ref_shape" not in i:
            continue

        def fix(sh):      # JSON turned tuples into lists
            def tup(x):
                return tuple(tup(y) for y in x) if isinstance(x, list) else x
            sh = dict(sh)
            sh["value"] = None if sh["value"] is None else [tup(p) for p in sh["value"]]
            sh["attrs"] = [(n, [tup(p) for p in pat]) for n, pat in sh["attrs"]]
            return sh
        r, l = fix(i["ref_shape"]), fix(i["l10n_shape"])
        x = pool.pmap("impl.fluentcheck", "run_case", [[i["ref"], i["l10n"], key_of(r), key_of(l), i["locale"]]], timeout=10.0)[0]
        bad = oracle(r, l, i["locale"], x["r"]) if "r" in x and "skip" not in x["r"] else "crashed"
        res.append({"input": {"ref": i["ref"], "l10n": i["l10n"], "locale": i["locale"]}, "oracle": bad,
                    "finding": finding_of(r, l, i["locale"], x["r"], bad) if bad and bad != "crashed" else None})
    clean_scratch()
    return {"violates": any(r["oracle"] for r in res), "cases": res}

"""C04 — l10n-merge output is complete, clean and otherwise untouched."""
import json
import os

from lib import common as C
from lib import pool
from lib.runner import Outcome
from gen import records as R

ID = "C04"
LEAN_TARGETS = ["CLModel.Props.C04"]
M = "CLModel.Props.C04"
THEOREMS = [
    (M, "C04.merge_text_spec", "CAN_SKIP formats with skips: written text = l10n text with the sorted skip spans cut out, plus the trailing reference block iff CAN_MERGE"),
    (M, "C04.trailing_spec", "the trailing block is a newline, the missing reference entries, then the reference entries of the non-junk skips, each newline-terminated"),
    (M, "C04.chunks_sublist", "cutting sorted, disjoint spans out of the text yields a subsequence of the l10n text"),
    (M, "C04.skip_only_text", "skip-only formats: the staged text is exactly the cut localized text"),
    (M, "C04.skip_only_no_english", "without CAN_MERGE the staged text is a subsequence of the localized text: no reference text enters"),
    (M, "C04.clean_is_identical", "no skips and nothing missing: the l10n file is copied verbatim (byte-identical), for every capability set that stages at all"),
    (M, "C04.copy_only", "CAN_COPY formats: byte copy of the l10n file iff clean, else of the reference"),
    (M, "C04.no_merge_file_no_effect", "no merge path or CAN_NONE: nothing is written"),
    (M, "C04.strategy_table", "the capability constants and per-format strategies are the ones generated from the source (dtd/properties/ini merge, ftl/po/android skip, inc copy)"),
    (M, "C04.android_duplicates_witness", "negation witness (finding F5): a single skip with span (None, None) writes the whole text twice and removes nothing; two such skips raise TypeError"),
    (M, "C04.dup_skip_appends_twice_witness", "negation witness (F13, fixed in /repo): the same entity listed twice in skips would be appended twice"),
    (M, "C04.append_reparses_properties_partial", "re-parse, clean append (.properties): l10n = printed safe records `key=value` (with or without final newline), nothing cut, "
        "missing reference entries appended: staged text = l10n + newline + entries, and its walk yields exactly the localized records then the reference records, no junk"),
    (M, "C04.cut_reparses_properties_partial", "re-parse, junk cut (.properties): a garbage line between printed records is ONE junk entry spanning exactly the line with its newline "
        "(garbage locality); cutting that span (plus appending missing entries) stages the printed records without it, which parse to exactly the records, no junk"),
    (M, "C04.skip_entity_reparses_properties_partial", "re-parse, entity cut (.properties): skipping the span the walk reports for one record (key=value without its newline) and appending its "
        "reference entry stages a text that parses to the kept records, the missing records and the reference record, no junk"),
    (M, "C04.printed_splices_stable", "the decidable predicate SpliceStable (every cut starts at a line start or keeps its line end; kept text does not end in an odd run of backslashes "
        "when entries are appended) holds for the three splices above"),
    (M, "C04.f4_unstable_witness", "negation witness (finding F4): for l10n `a=X\\` + missing `b=B` SpliceStable is false and the walk of the staged text has ONE entity: `b` is swallowed as a continuation line"),
    (M, "C04.f4_even_run_witness", "with an even run of backslashes SpliceStable holds and the appended entry is parsed"),
    (M, "C04.f14_unstable_witness", "negation witness (finding F14): ini `[Strings]\\⏎; c⏎k=v`: the junk span (9,11) starts mid-line and ends with the line end, SpliceStable is false, "
        "and the staged text has a NEW junk entry (the comment line fused onto the section line)"),
    (M, "C04.append_reparses_ini_partial", "re-parse, clean append (.ini): `[name]` + printed ini records (value = anything but newline) + appended reference entries parse to the section, "
        "the localized records and the reference records, no junk; no backslash hypothesis needed"),
    # ---- round 4: bytes
    (M, "C04.clean_bytes_identical", "BYTES: no skips and nothing missing: the staged file is the l10n file byte for byte, whatever the bytes are (CRLF, CR, BOM, ill-formed UTF-8, NUL), for every capability set that stages"),
    (M, "C04.copy_only_bytes", "BYTES: CAN_COPY (.inc, unknown types, add/remove): the l10n bytes iff clean, else the reference bytes"),
    (M, "C04.append_bytes_prefix", "BYTES: nothing cut, entries appended: staged = l10n BYTES ++ encode(trailing block): the localized part is not re-encoded"),
    (M, "C04.append_bytes_prefix_total", "… and the block always encodes when the reference entries are decoded text (scalar values)"),
    (M, "C04.skip_bytes_spec", "BYTES: something cut: staged = encode(chunks(readFile(l10n bytes)) [++ trailing]) with readFile = UTF-8/replace + universal newlines"),
    (M, "C04.encode_readFile_total", "the decoder only yields scalar values: the strict encoder never raises on decoded text (no UnicodeEncodeError in merge)"),
    (M, "C04.skip_only_bytes", "BYTES, skip-only formats: the staged file encodes a subsequence of the decoded l10n text and always encodes"),
    (M, "C04.encode_readFile_id_iff", "a rewrite is the identity on bytes, encode(readFile b) = b, IFF b is the UTF-8 encoding of a CR-free text (well-formed UTF-8 without CR)"),
    (M, "C04.readFile_encode", "readFile(encode t) = t for CR-free encodable text"),
    (M, "C04.rewrite_not_identity_witness", "negation witnesses: CRLF -> LF, FF -> U+FFFD, lone CR -> LF, truncated E2 82 at EOF -> one U+FFFD; BOM and NUL survive"),
    (M, "C04.crlf_rewrite_witness", "the same CRLF file is staged untouched when clean and LF-normalised as soon as one span is cut"),
    # ---- round 4: quiet levels
    (M, "C04.compareMerge_verdicts_only", "compare+merge at ANY quiet level: staged bytes and missing/report counts are those of the entries the filters' verdicts select (error merged, warning counted as report, ignore dropped)"),
    (M, "C04.merged_bytes_quiet_independent", "two runs that differ only in the quiet level stage the same bytes (Observer model's notify return value composed with the merge model)"),
    (M, "C04.compareMerge_returns", "… and both return (no exception from the observers) for files without a legacy module"),
    (M, "C04.no_filter_merges_all", "Observer(filter=None): every missing entity is merged, at every quiet level"),
    # ---- round 4: several cuts, DTD, .inc, Android
    (M, "C04.merge_cuts_any_order", "ALL formats: l10n text = kept and (non-empty) cut pieces, skips = ANY permutation of the cut spans: the chunk loop writes exactly the kept pieces (+ block in file order for mergeable formats)"),
    (M, "C04.merge_skip_order_irrelevant", "two orders of the same skips give the same outcome, for every capability value"),
    (M, "C04.multi_cut_reparses_properties_partial", "several cuts (.properties): records, records with check errors, garbage lines (each followed by a record or EOF): one junk entry per garbage line (locality), "
        "every skip is a reported span, and for ANY order of the skips the staged text = kept records (blank line per cut record) + newline + missing + replaced reference records; parses to exactly these, no junk"),
    (M, "C04.multi_cut_reparses_dtd_partial", "DTD: printed entities `<!ENTITY k \"v\">`, any number of whole-entity cuts in any order and/or appended missing entities: staged text parses to exactly the kept, missing and replaced entities, no junk"),
    (M, "C04.f17_unstable_witness", "negation witness (finding F17): DTD value opened with an apostrophe and never closed: the appended entity is swallowed (ONE entity 0..29)"),
    (M, "C04.inc_staging_reparses_partial", ".inc (CAN_COPY): a localization with any skip/missing entry is staged as the reference BYTES; if these encode a CR-free printed list of #define records the staged file parses to exactly them"),
    (M, "C04.android_merge_spec", "Android, complete: no skip -> byte copy (missing strings not added); only junk skips (span (0,0)) -> whole text written back; one entity skip (span None) -> text written TWICE; >= 2 skips with an entity -> TypeError"),
    (M, "C04.android_bytes_spec", "Android on bytes: the junk case re-encodes the decoded text, the entity case doubles it"),
    # ---- round 5: sessions (one comparer, a sequence of jobs)
    (M, "C04.session_step_stateless", "ONE step of the comparer state machine (state = observers + merge stage): whatever the state, what a compare/add/remove job stages is jobOut(job, project filters); the parser is looked up per NAME in the generated __constructors table"),
    (M, "C04.session_merge_is_pointwise", "SESSION = POINTWISE: the outcomes of a sequence of jobs on ONE comparer are the stateless per-job outcomes, no state is carried between files"),
    (M, "C04.session_filters_fixed", "no job changes the project filters of the comparer's observers"),
    (M, "C04.session_stage_is_fold", "the merge stage after a session = the initial stage with every staged outcome written at its job's merge path, in job order; nothing else is created, changed or removed"),
    (M, "C04.session_returns", "a session over files without a legacy module always returns: the observers never raise"),
    (M, "C04.session_equals_fresh", "job i of a session stages exactly what the same job stages on a fresh comparer of its own (any quiet level)"),
    (M, "C04.session_job_independent_of_history", "the same job after two different histories (comparers with the same filters) stages the same"),
    (M, "C04.session_job_file_kept", "pairwise distinct merge paths: what a job staged is at its path at the end of the session byte for byte, whatever ran before or after"),
    (M, "C04.session_order_irrelevant", "pairwise distinct merge paths: any two orders of the same jobs leave the same file at every path (unknown notes.xml before or after Android strings.xml)"),
    (M, "C04.parser_by_name_witness", "what the generated table says for look-alike names: strings.xml / strings-more.xml / res/values/strings.xml Android; notes.xml, values.xml, extra.xml, strings.xml.orig, foo.properties.orig, unknown.txt, README no parser; .properties/.inc/.ini/.pot by extension (decide)"),
    (M, "C04.cached_session_spec", "the regression CLASS as a model: a comparer that remembers parser lookups under key(name) stages, per job, the stateless function fed with what the memory answers"),
    (M, "C04.cached_session_eq_of_sufficient_key", "the cache is sound if it is keyed by everything the result depends on: key a = key b -> getParser agrees on a, b implies the remembering comparer IS the real one"),
    (M, "C04.name_key_sufficient", "the whole name is such a key"),
    (M, "C04.ext_key_insufficient_witness", "negation witness: the file extension is NOT: notes.xml / strings-more.xml share .xml and differ in getParser"),
    (M, "C04.ext_cache_breaks_session_witness", "the missed regression in the model (decide): keyed by extension, [notes.xml, missing strings-more.xml] stages ENGLISH for the Android file, [strings.xml, notes.xml, missing extra.xml] re-encodes notes.xml CRLF->LF and stages nothing for extra.xml; the real model copies verbatim / stages nothing / stages the reference"),
]
PARTIAL = [
    "re-parse claims (staged file re-compares with no junk / nothing missing / localized values kept) are PROVED only for the printed classes of C02 "
    "(`.properties`: safe records `key=value`, no comments/escapes/continuation lines/other layouts, plus garbage lines; `.ini`: `[name]` + records `key=value`, append only; "
    "`.dtd`: `<!ENTITY k \"v\">` lines without `&` and `\"` in values, whole-entity cuts and appends, no junk cuts; `.inc`: the staged reference). Round 4 removed the "
    "ONE-cut restriction: any number of junk/entity cuts in any order (`sortSkips` of a permutation is proved). The known findings F4/F14/F17 are kernel-checked inputs "
    "on which the claim fails. NOT proved: arbitrary localized texts satisfying SpliceStable (comments, escapes, continuation lines), ini cuts, DTD junk cuts, "
    "'no check errors' of the re-comparison (checks are C06/C07); these are decided by executing the real code (oracle), "
    "which also replays the theorem classes (`thm-*` cases: predicted staged text and predicted entities compared with the real run)",
    "bytes: the decoder/encoder pair is a model of CPython's UTF-8 codec (errors='replace') and universal newlines, tied by the `c04.decode`/`c04.encode` streams, not proved "
    "against CPython; `compareMerge` covers the missing-entity branch of `compare` (not the obsolete/changed/check branches, whose skips are inputs of the model)",
]
TRUSTED = [
    "hand-written model CLModel/Compare/Merge.lean of ContentComparer.merge (tied by the `merge` correspondence on the arguments the real code passes)",
    "hand-written model CLModel/Compare/MergeBytes.lean: UTF-8 decoder (errors=replace) + universal newlines + strict encoder around the text model, and the "
    "missing-entity loop composed with the Observer model (tied by c04.decode / c04.encode / c04.mergeb on real files and direct merge calls, c04.qmerge on real comparisons with quiet 0-4 and filters)",
    "file system effects are observed with sys.addaudithook + directory listings + input hashes (oracle side), not modelled",
    "hand-written model CLModel/Compare/MergeSession.lean: the comparer as a state machine over compare/add/remove jobs (observers, files and directories of the merge "
    "stage), parser chosen per name by the generated table; tied by c04.session (staged bytes of every job of a real session on ONE comparer, final stage, directories, "
    "missing/report counters; the per-job entity inputs come from an independent parse and a fresh comparer) and c04.capsof (getParser on look-alike names)",
]
ASSUMPTIONS = ["reference validates without errors and warnings against itself; localization has no duplicate keys (cases violating the precondition are skipped and counted)"]
LEVEL_TEXT = ("Lean 4 theorems about the splice algorithm of l10n-merge for ALL texts/skip lists (text spec, subsequence property for skip-only "
              "formats, byte-identical staging of clean files, copy-only strategy, capability table regenerated from the source), now on BYTES "
              "(decode -> splice -> encode; clean files byte-identical for all byte strings; encode.decode = id iff well-formed UTF-8 without CR) and composed with the "
              "Observer model (staged bytes independent of the quiet level, only error-verdict strings merged); any number of cuts in any order; the model is "
              "tied to ContentComparer.merge by replaying the exact arguments of real runs and by direct calls on files with CRLF/CR/BOM/ill-formed bytes; for printed "
              ".properties/.ini/.dtd/.inc texts the staged text is proved to re-parse to exactly the expected entities without junk; Android is characterised completely; "
              "the end-to-end claims (re-compare is clean and complete, per-key values, inputs untouched, nothing written outside the merge path, also through "
              "compareProjects with a merge stage) are decided on the real code per generated case; round 5: the comparer as a state machine over "
              "SEQUENCES of jobs - what a job stages is proved independent of the comparer's state and history (session = pointwise, stage = fold, order "
              "irrelevant, a parser memory is sound iff keyed by what getParser depends on; the extension is not), tied by whole real sessions on one comparer")
LEVEL_NOTE = ("trusted: Lean kernel, merge / byte-merge / observer model correspondences, parser model correspondence (C01/C02), audit-hook observation; re-parse stability is proved "
              "for printed .properties (any cuts), .dtd (entity cuts, appends), .ini (append), .inc (copy) texts only; F4/F14/F17 are kernel-checked negations, F5 is characterised exactly (android_merge_spec); "
              "observed outside the property text: --clobber-merge raises TypeError (unhashable Matcher) on the unchanged tree")
TECHNIQUE = "Lean 4 proof over a model of the merge splice + differential correspondence + end-to-end oracle on real merges"

FORMATS = ["properties", "dtd", "ini", "inc", "ftl", "po", "android"]


def gen_cases(ctx):
    rng = ctx.rng("c04")
    cases = []
    per = ctx.n(400, 6000)
    for fmt in FORMATS:
        for i in range(per):
            recs, kinds = R.gen_reference(fmt, rng)
            ref = R.print_file(fmt, recs)
            r = rng.random()
            if r < 0.15:
                l10n, plan = R.derive_l10n(fmt, recs, kinds, rng, clean=True)
                tag = "clean"
            elif r < 0.8:
                l10n, plan = R.derive_l10n(fmt, recs, kinds, rng)
                tag = "edited"
            else:
                l10n, plan = R.derive_l10n(fmt, recs, kinds, rng)
                l10n = R.mutate_raw(l10n, rng, rng.randrange(1, 3))
                tag = "mutated"
            cases.append({"fmt": fmt, "ref": ref, "l10n": l10n, "mode": "compare", "tag": tag})
        for i in range(max(2, per // 15)):
            recs, kinds = R.gen_reference(fmt, rng)
            cases.append({"fmt": fmt, "ref": R.print_file(fmt, recs), "l10n": None, "mode": "add", "tag": "missing-file"})
        for i in range(max(2, per // 30)):
            # directed: the localization ends in the middle of an escape / quote / tag and lacks the last records
            recs, kinds = R.gen_reference(fmt, rng, n=rng.randrange(2, 5))
            keep = recs[:rng.randrange(1, len(recs))]
            l10n = R.print_file(fmt, [(k, "L10N " + v if kinds[j] is None else v, c) for j, (k, v, c) in enumerate(keep)], trailing_newline=False)
            tail = rng.choice(["\\", "\\\\\\", "\\\\", " ", "\n\n", ""])
            if fmt != "android":
                l10n += tail
            cases.append({"fmt": fmt, "ref": R.print_file(fmt, recs), "l10n": l10n, "mode": "compare", "tag": "directed-tail"})
    cases.extend(theorem_class_cases(rng, max(12, per // 8)))
    cases.extend(theorem_multi_cases(ctx.rng("c04-multi"), max(16, per // 12)))
    for i in range(max(3, per // 10)):
        recs, kinds = R.gen_reference("unknown", rng) if False else ([("k%d" % j, "v", None) for j in range(3)], None)
        txt = R.print_file("unknown", recs)
        cases.append({"fmt": "unknown", "ref": txt, "l10n": txt + "localized\n", "mode": "compare", "tag": "unknown-type"})
        cases.append({"fmt": "unknown", "ref": txt, "l10n": None, "mode": "add", "tag": "unknown-missing"})
    return cases


THM_WORDS = ["alpha", "beta gamma", "x", "two  blanks", "100 percent", "a=b", "hash # inside", "bang!", "colon: here", ""]
THM_GARBAGE = ["garbage", "just some words without separator", "%%%", "\\u0041 x"]


def theorem_class_cases(rng, n):
    """the class of C04.append_/cut_/skip_entity_reparses_properties_partial and append_reparses_ini_partial: records printed `key=value`,
    one per line; the staged text and the parsed entities are predicted by construction (independently of the Lean model)"""
    out = []
    for i in range(n):
        fmt = "ini" if i % 4 == 3 else "properties"
        shape = "append" if fmt == "ini" else ["append", "cut", "skip-entity"][i % 4 % 3]
        nrec = rng.randrange(1, 6)
        keys = ["%s%d" % (rng.choice(["first", "second.label", "third-x", "k"]), j) for j in range(nrec)]
        vals = [rng.choice(THM_WORDS) for _ in keys]
        if fmt == "ini":
            vals = [v if rng.random() < 0.7 else v + rng.choice([" ", "\\", " \\ "]) for v in vals]     # blanks / backslashes at the end are fine in ini
        bad = None
        if shape == "skip-entity":
            bad = rng.randrange(nrec)
            vals[bad] = "%S and %S"
        head = "[Strings]\n" if fmt == "ini" else ""
        ref = head + "".join("%s=%s\n" % kv for kv in zip(keys, vals))
        kept = [j for j in range(nrec) if j == bad or rng.random() < 0.6]
        if shape != "cut" and len(kept) == nrec and bad is None:
            kept = kept[:-1]                                  # something must be appended in the append shape
        lvals = {j: ("%d und" if j == bad else ("L " + vals[j]).rstrip() if fmt != "ini" else "L " + vals[j]) for j in kept}
        lines = ["%s=%s" % (keys[j], lvals[j]) for j in kept]
        final_nl = rng.random() < 0.7 or shape != "append" or not lines
        exp_lines = [l for j, l in zip(kept, lines) if j != bad]
        if shape == "cut":
            g = rng.choice(THM_GARBAGE)
            pos = rng.randrange(len(lines) + 1)
            lines.insert(pos, g)
        l10n = head + "".join(l + "\n" for l in lines)
        if not final_nl:
            l10n = l10n[:-1]
        if shape == "skip-entity":
            kept_text = head + "".join(("\n" if j == bad else "%s=%s\n" % (keys[j], lvals[j])) for j in kept)
        elif shape == "cut":
            kept_text = head + "".join(l + "\n" for l in exp_lines)
        else:
            kept_text = l10n
        tail = ["%s=%s\n" % (keys[j], vals[j]) for j in range(nrec) if j not in kept or j == bad]
        ents = [[keys[j], lvals[j]] for j in kept if j != bad]
        out.append({"fmt": fmt, "ref": ref, "l10n": l10n, "mode": "compare", "tag": "thm-" + shape + ("-ini" if fmt == "ini" else ""),
                    "expect": {"kept": kept_text, "tail": tail, "entities": ents, "staged": bool(tail) or shape != "append"}})
    return out


def check_expect(case, v, merged, mp):
    """theorem class: the real staged text / real parse against the prediction by construction"""
    exp = case["expect"]
    bad = []
    if not exp["staged"]:
        return bad
    want_head = exp["kept"] + "\n"
    if not merged.startswith(want_head) or sorted(merged[len(want_head):].splitlines(True)) != sorted(exp["tail"]):
        bad.append(("theorem class: staged text %r differs from the predicted %r + permutation of %r" % (merged[:300], want_head, exp["tail"]), None))
        return bad
    tail_now = merged[len(want_head):].splitlines(True)
    want_ents = exp["entities"] + [l[:-1].split("=", 1) for l in tail_now]
    got = [[e[0], e[1]] for e in mp["entities"]]
    if got != want_ents or mp["junk"]:
        bad.append(("theorem class: staged text parses to %r junk %r, predicted %r without junk" % (got, mp["junk"], want_ents), None))
    return bad


def keystr(k):
    return json.dumps(k, ensure_ascii=False)


def summary_of(rep):
    s = rep.get("summary", {})
    return s.get("xx", {}) if s else {}


def flat_details(rep):
    out = []

    def walk(d):
        if isinstance(d, list):
            out.extend(d)
        elif isinstance(d, dict):
            for v in d.values():
                walk(v)
    walk(rep.get("details", {}))
    return out


def oracle(case, r):
    """returns list of (message, finding-id|None)"""
    fmt, mode = case["fmt"], case["mode"]
    if "exc" in r:
        fid = None
        if fmt == "po" and r["exc"] == "TypeError":
            fid = "F2-po-tuple-keys"
        if fmt == "android" and r["exc"] == "TypeError" and any("sort" in w or "merge" in w for w in r.get("where", [])):
            fid = "F5-android-no-spans"
        return [("comparison with merge raised %s: %s at %s" % (r["exc"], r.get("msg"), r.get("where")), fid)]
    v = r["r"]
    bad = []
    if not v["inputs_unchanged"]:
        bad.append(("an input file was modified", None))
    root = v["root"]
    for ev in v["events"]:
        for p in ev[1:]:
            if p.startswith(root) and not p.startswith(os.path.join(root, "merge")) and ev[0] != "shutil.copyfile":
                bad.append(("write outside the merge path: %s" % ev, None))
            if ev[0] == "shutil.copyfile" and len(ev) >= 3 and not ev[2].startswith(os.path.join(root, "merge")):
                bad.append(("copy to a target outside the merge path: %s" % ev, None))
            if not p.startswith(root) and ev[0] not in ("shutil.copyfile",) and not p.startswith("/dev/"):
                bad.append(("file system write outside the test root: %s" % ev, None))
    for p in v["new_paths"]:
        if not p.startswith("merge"):
            bad.append(("new path outside the merge dir: %s" % p, None))
    merged = v["merged"]
    if mode == "add":
        expect_copy = fmt in ("properties", "dtd", "ini", "inc", "unknown")
        if expect_copy and not v.get("merged_is_ref"):
            bad.append(("missing file not staged from the reference", None))
        if not expect_copy and merged is not None:
            bad.append(("missing file of a skip-only format was staged (English would enter)", None))
        return bad
    if fmt == "unknown":
        if not v.get("merged_is_l10n"):
            bad.append(("file of unknown type not copied verbatim", None))
        return bad
    if not v.get("ref_clean", True):
        return [("PRECONDITION", None)]
    lp = v.get("l10n_parse") or {"entities": [], "junk": []}
    rp = v.get("ref_parse") or {"entities": [], "junk": []}
    lkeys = [keystr(e[0]) for e in lp["entities"]]
    if len(lkeys) != len(set(lkeys)):
        return [("PRECONDITION", None)]
    rkeys = [keystr(e[0]) for e in rp["entities"]]
    errkeys = {keystr(k) for k in v.get("l10n_error_keys", [])}
    lval = {keystr(e[0]): e[1] for e in lp["entities"]}
    rval = {keystr(e[0]): e[1] for e in rp["entities"]}
    req0 = case.get("required")
    clean = not lp["junk"] and not errkeys and all(k in lval for k in rkeys if req0 is None or k in req0)
    if merged is None:
        bad.append(("no merge file was staged", None))
        return bad
    if fmt == "inc":
        if clean and not v["merged_is_l10n"]:
            bad.append(("clean .inc localization not staged as a byte copy", None))
        if not clean and not v["merged_is_ref"]:
            bad.append((".inc with problems not staged as a byte copy of the reference", None))
        return bad
    if clean and not v["merged_is_l10n"]:
        bad.append(("complete, clean localization not staged byte-identical", None))
    # root causes of recorded findings
    fid = None
    if fmt == "android" and any(call.get("skips") for call in v.get("merge_calls", [])[-1:]):
        fid = "F5-android-no-spans"      # something had to be cut out, and Android entries have no spans
    if fmt == "properties":
        for call in v.get("merge_calls", [])[-1:]:
            cont = call.get("contents") or ""
            body, off = [], 0
            for s0, e0, isj, ra in sorted([x for x in call.get("skips", []) if x[0] is not None], key=lambda x: x[0]):
                body.append(cont[off:s0])
                off = e0
            body.append(cont[off:])
            body = "".join(body)
            appended = bool(call.get("missing")) or any(not x[2] for x in call.get("skips", []))
            if appended and (len(body) - len(body.rstrip("\\"))) % 2 == 1:
                # the kept text ends in an odd run of backslashes: the appended newline is swallowed as a line continuation
                fid = "F4-properties-trailing-backslash"
    for call in v.get("merge_calls", [])[-1:]:
        cont = call.get("contents") or ""
        for s0, e0, isj, ra in call.get("skips", []):
            if s0 is not None and 0 < s0 < e0 <= len(cont) and cont[s0 - 1] != "\n" and cont[e0 - 1] == "\n" and e0 < len(cont):
                # the cut starts in the middle of a line and swallows its line end: the next line is fused to the previous text
                fid = fid or "F14-cut-fuses-lines"
    if fid is None and fmt in R.MERGEABLE:
        # the appended reference block is swallowed by an entry that starts in the kept localized text
        for call in v.get("merge_calls", [])[-1:]:
            cont = call.get("contents") or ""
            appended = bool(call.get("missing")) or any(not x[2] for x in call.get("skips", []))
            if appended:
                kept, off = 0, 0
                for s0, e0, isj, ra in sorted([x for x in call.get("skips", []) if x[0] is not None], key=lambda x: x[0]):
                    kept += max(0, s0 - off)
                    off = max(off, e0)
                kept += max(0, len(cont) - off)
                for e in (v.get("merged_parse") or {}).get("entities", []):
                    sp = e[3] if len(e) > 3 else None
                    if sp and sp[0] < kept < sp[1]:
                        fid = "F17-entry-spans-splice-boundary"
    if fid in ("F4-properties-trailing-backslash", "F14-cut-fuses-lines", "F17-entry-spans-splice-boundary"):
        # these findings are about what a CORRECT splice does to the parse; if the staged bytes are not the
        # specified splice (cut spans + "\n" + newline-terminated reference entries) it is a different defect
        for call in v.get("merge_calls", [])[-1:]:
            cont = call.get("contents") or ""
            body, off = [], 0
            for s0, e0, isj, ra in sorted([x for x in call.get("skips", []) if x[0] is not None], key=lambda x: x[0]):
                body.append(cont[off:s0])
                off = e0
            body.append(cont[off:])
            ens = lambda t: t if t.endswith("\n") else t + "\n"
            tr = ""
            if call.get("missing") or call.get("skips"):
                tr = "".join(ens(t) for t in ["\n"] + [m or "" for m in call.get("missing", [])] +
                             [ra or "" for s0, e0, isj, ra in sorted(call.get("skips", []), key=lambda x: (x[0] is None, x[0])) if not isj])
            spec = "".join(body) + tr
            if merged.encode("latin-1").decode("utf-8", "replace") != spec:
                fid = None
    if "report2_exc" in v:
        f2 = "F2-po-tuple-keys" if fmt == "po" else fid
        bad.append(("re-comparison of the staged file raised %s" % v["report2_exc"], f2))
        return bad
    rep2 = v.get("report2")
    mp = v.get("merged_parse") or {"entities": [], "junk": []}
    if case.get("expect") is not None:
        bad.extend(check_expect(case, v, merged, mp))
    if case.get("expect_exact") is not None:
        bad.extend(check_expect_exact(case, v, merged, mp))
    s2 = summary_of(rep2) if rep2 else {}
    if mp["junk"] or any("Unparsed content" in str(d.get("error", "")) for d in flat_details(rep2 or {})):
        bad.append(("staged file has unparsed content: %r" % (mp["junk"][:1],), fid))
    if s2.get("errors", 0) > 0 and not mp["junk"]:
        errs = [d["error"] for d in flat_details(rep2) if "error" in d]
        bad.append(("staged file re-compares with errors: %r" % errs[:2], fid))
    mval = {}
    for e in mp["entities"]:
        mval.setdefault(keystr(e[0]), []).append(e[1])
    required = case.get("required")          # keys the filters want (verdict "error"); None = all
    if fmt in R.MERGEABLE:
        if s2.get("missing", 0) > 0:
            bad.append(("staged file of a mergeable format still has missing strings", fid))
        for k in rkeys:
            if required is not None and k not in lval and k not in required:
                continue                     # the filter does not ask for this string: it need not be merged
            exp = lval[k] if (k in lval and k not in errkeys) else rval[k]
            got = mval.get(k)
            if got is None:
                bad.append(("reference key %s absent from the staged file" % k, fid))
            elif got != [exp]:
                bad.append(("key %s staged with %r, expected %r" % (k, got, exp), fid))
    else:
        for k in lkeys:
            if k not in errkeys:
                if mval.get(k) != [lval[k]]:
                    bad.append(("error-free localized entry %s not kept (got %r)" % (k, mval.get(k)), fid))
        for k in mval:
            if k not in lval:
                bad.append(("skip-only format gained entry %s not in the localization" % k, fid))
            elif k in errkeys:
                bad.append(("entry %s with check errors was kept" % k, fid))
    return bad


def model_line(call):
    if call["contents"] is None:
        contents = ""
    else:
        contents = call["contents"]
    toks = ["merge", "1" if call["merge_file"] else "0", str(call["caps"]), C.enc(contents), str(len(call["skips"]))]
    for s, e, isj, ra in call["skips"]:
        toks += [str(-1 if s is None else s), str(-1 if e is None else e), "1" if isj else "0", C.enc(ra or "")]
    toks.append(str(len(call["missing"])))
    for m in call["missing"]:
        toks.append(C.enc(m or ""))
    return " ".join(toks)


def expected_model(case, v, call):
    """what the real run staged, in the canonical form of the model's Outcome"""
    merged = v["merged"]
    if merged is None:
        return "nothing"
    mb = merged.encode("latin-1")
    l10b = None if case["l10n"] is None else case["l10n"].encode("utf-8")
    refb = case["ref"].encode("utf-8")
    if l10b is not None and mb == l10b:
        return "copy-l10n"
    if mb == refb:
        return "copy-ref"
    if l10b is not None and mb.startswith(l10b) and not call["skips"]:
        return "copy-l10n+ " + C.enc(mb[len(l10b):].decode("utf-8", "replace"))
    return "written " + C.enc(mb.decode("utf-8", "replace"))


# ================================================================= round 4: branches no generated pair reaches otherwise

def run_special(ctx, out):
    """read errors (a path that is a directory), references with duplicates / junk (warning branches of `compare`):
    executed for the tie (impl_coverage); judged only on what the property states for them: no exception escapes, the
    inputs stay untouched, nothing appears outside the merge path"""
    rng = ctx.rng("c04-special")
    cases = []
    for fmt in ["properties", "dtd", "ini", "inc", "ftl", "po", "android"]:
        recs, kinds = R.gen_reference(fmt, rng, n=3)
        ref = R.print_file(fmt, recs)
        cases.append((fmt, ref, ref, "compare", {"ref_is_dir": True}, True, "ref-unreadable"))
        cases.append((fmt, ref, ref, "compare", {"l10n_is_dir": True}, True, "l10n-unreadable"))
        cases.append((fmt, ref, None, "add", {"ref_is_dir": True}, fmt in ("ftl", "po", "android"), "add-ref-unreadable"))
        if fmt in ("properties", "ini", "dtd"):
            dup = R.print_file(fmt, recs + [recs[0]]) + R.GARBAGE[fmt][0]
            cases.append((fmt, dup, R.print_file(fmt, recs[1:]), "compare", {}, True, "ref-dup-junk"))
    res = pool.pmap("impl.merge", "impl_compare_merge", [[f, r, l, m, False, wm, o] for f, r, l, m, o, wm, t in cases], timeout=10.0, batch=4)
    for (f, rt, lt, m, o, wm, tag), r in zip(cases, res):
        out.evaluations += 1
        out.count("special.%s" % tag)
        inp = {"fmt": f, "ref": rt, "l10n": lt, "mode": m, "opts": o, "tag": tag}
        if "exc" in r:
            if tag == "ref-dup-junk":
                continue            # precondition (clean reference) not met
            out.violations.append({"what": "%s %s: raised %s: %s" % (f, tag, r["exc"], r.get("msg")), "input": inp, "finding": None})
            continue
        v = r["r"]
        for msg in generic_fs_oracle(v)[:2]:
            out.violations.append({"what": "%s %s: %s" % (f, tag, msg), "input": inp, "finding": None})
        if tag.endswith("unreadable") and tag != "add-ref-unreadable":
            if v["merged"] is not None:
                out.violations.append({"what": "%s %s: a file was staged although an input could not be read" % (f, tag), "input": inp, "finding": None})
            if not any("error" in d for d in flat_details(v["report"])):
                out.disagreements.append({"op": "read-error-report", "case": inp, "impl": json.dumps(v["report"])[:300]})


# =============================================================================================== round 4: bytes

BYTE_SHAPES = ["crlf", "cr", "mixed", "bom", "bad-utf8", "latin1", "trunc", "nul", "surrogate"]
BAD_SEQS = [b"\xff", b"\xc3", b"\x80", b"\xc0\xaf", b"\xe2\x82", b"\xf0\x9f\x98", b"\xf5", b"\xe9"]


def to_latin(b):
    return b.decode("latin-1")


def byte_variant(text, shape, rng):
    """the UTF-8 bytes of `text` with one class of byte-level peculiarity"""
    b = text.encode("utf-8")
    if shape == "crlf":
        return b.replace(b"\n", b"\r\n")
    if shape == "cr":
        return b.replace(b"\n", b"\r")
    if shape == "mixed":
        return b"".join(rng.choice([b"\n", b"\r\n", b"\r"]) if bytes([c]) == b"\n" else bytes([c]) for c in b)
    if shape == "bom":
        return b"\xef\xbb\xbf" + b
    if shape == "trunc":
        return b + rng.choice([b"\xe2\x82", b"\xc3", b"\xf0\x9f"])
    if shape == "nul":
        seq = b"\x00"
    elif shape == "surrogate":
        seq = b"\xed\xa0\x80"
    elif shape == "latin1":
        if "ö".encode() in b and rng.random() < 0.6:
            return b.replace("ö".encode(), b"\xf6")
        seq = b"\xe9"
    else:
        seq = rng.choice(BAD_SEQS)
    # inside a value if there is one (after an '=' or a quote), else anywhere
    spots = [i + 1 for i, c in enumerate(b) if c in (0x3d, 0x22, 0x3e)] or list(range(len(b) + 1))
    pos = rng.choice(spots) if rng.random() < 0.8 else rng.randrange(len(b) + 1)
    return b[:pos] + seq + b[pos:]


def gen_byte_cases(ctx):
    rng = ctx.rng("c04-bytes")
    cases = []
    per = ctx.n(54, 600)
    for fmt in FORMATS:
        for i in range(per):
            recs, kinds = R.gen_reference(fmt, rng)
            ref = R.print_file(fmt, recs)
            clean = rng.random() < 0.5
            l10n, plan = R.derive_l10n(fmt, recs, kinds, rng, clean=clean)
            shape = BYTE_SHAPES[i % len(BYTE_SHAPES)]
            lb = byte_variant(l10n, shape, rng)
            if rng.random() < 0.3:
                lb = lb.replace(b"\r\n", b"\n").replace(b"\n", b"\r\n")        # combined with CRLF line ends
            rb = ref.encode("utf-8")
            if rng.random() < 0.25:
                rb = byte_variant(ref, rng.choice(["crlf", "bom", "mixed"]), rng)
            cases.append({"fmt": fmt, "ref": to_latin(rb), "l10n": to_latin(lb), "mode": "compare", "bytes": True,
                          "tag": "bytes-%s-%s" % (shape, "clean" if clean else "edited")})
    for i in range(max(4, per // 6)):
        txt = "k%d: v\n" % i
        b = byte_variant(txt * 2, BYTE_SHAPES[i % len(BYTE_SHAPES)], rng)
        cases.append({"fmt": "unknown", "ref": to_latin(txt.encode()), "l10n": to_latin(b), "mode": "compare", "bytes": True,
                      "tag": "bytes-unknown"})
    return cases


def py_decode(latin):
    """what Parser.readFile must produce, computed independently (CPython codec + a regex)"""
    import re
    return re.sub("\r\n?", "\n", latin.encode("latin-1").decode("utf-8", "replace"))


def mergeb_line(call, l10n_latin, ref_latin, mf=True):
    toks = ["c04.mergeb", "1" if mf else "0", str(call["caps"]), C.enc(l10n_latin), C.enc(ref_latin), str(len(call["skips"]))]
    for s0, e0, isj, ra in call["skips"]:
        toks += [str(-1 if s0 is None else s0), str(-1 if e0 is None else e0), "1" if isj else "0", C.enc(ra or "")]
    toks.append(str(len(call["missing"])))
    for m in call["missing"]:
        toks.append(C.enc(m or ""))
    return " ".join(toks)


def fileout(merged_latin, exc=None):
    if exc:
        return exc
    return "nofile" if merged_latin is None else "bytes " + C.enc(merged_latin)


def generic_fs_oracle(v):
    """inputs untouched, nothing written outside <root>/merge (direct calls and byte cases)"""
    bad = []
    if not v["inputs_unchanged"]:
        bad.append("an input file was modified")
    root = v["root"]
    for ev in v["events"]:
        for p in ev[1:]:
            if p.startswith(root) and not p.startswith(os.path.join(root, "merge")) and ev[0] != "shutil.copyfile":
                bad.append("write outside the merge path: %s" % ev)
        if ev[0] == "shutil.copyfile" and len(ev) >= 3 and not ev[2].startswith(os.path.join(root, "merge")):
            bad.append("copy to a target outside the merge path: %s" % ev)
    for p in v["new_paths"]:
        if not p.startswith("merge"):
            bad.append("new path outside the merge dir: %s" % p)
    return bad


def run_bytes(ctx, out):
    """files with CRLF / CR / BOM / ill-formed UTF-8 / NUL on disk: the property oracle on bytes, and the byte-level model"""
    cases = gen_byte_cases(ctx)
    res = pool.pmap("impl.merge", "impl_compare_merge",
                    [[c["fmt"], c["ref"], c["l10n"], c["mode"], True] for c in cases], timeout=10.0, batch=8)
    lines, expect, idx = [], [], []
    for i, (c, r) in enumerate(zip(cases, res)):
        out.evaluations += 1
        out.count("%s.%s" % (c["fmt"], c["tag"]))
        bad = oracle(c, r)
        if bad and bad[0][0] == "PRECONDITION":
            out.count("precondition-not-met")
            continue
        for msg, fid in bad[:3]:
            out.violations.append({"what": "%s (bytes on disk): %s" % (c["fmt"], msg), "input": c, "finding": fid})
            out.count("violation." + (fid or "NEW"))
        if "r" not in r:
            continue
        v = r["r"]
        calls = v["merge_calls"]
        if calls:
            call = calls[-1]
            if call["skips"] or call["missing"]:
                out.nontrivial.add((c["fmt"], "bytes", v["merged"]))
            # what the parser saw must be the independent decoding of the bytes on disk
            if call["contents"] is not None and call["contents"] != py_decode(c["l10n"]):
                out.disagreements.append({"op": "readFile", "case": c, "impl": call["contents"][:200], "model": py_decode(c["l10n"])[:200]})
            if all(x is not None for x in call["missing"]) and all(x[3] is not None for x in call["skips"]):
                lines.append(mergeb_line(call, c["l10n"], c["ref"], call["merge_file"]))
                expect.append(fileout(v["merged"]))
                idx.append(i)
    model = C.run_driver_parallel(lines) if (ctx.model_ok and lines) else []
    for l, e, m, i in zip(lines, expect, model, idx):
        if e != m:
            out.disagreements.append({"op": "c04.mergeb", "case": cases[i], "impl": e[:300], "model": m[:300]})
    out.contracts["mergeb_replays"] = len(lines)


# ========================================================================================== round 4: quiet + filters

VERDICT_CHAR = {"error": "e", "warning": "w", "ignore": "i"}


def combine(vs):
    """ObserverList.notify: ignore if all ignore, error if any error, else the (single) other answer"""
    if all(x == "ignore" for x in vs):
        return "ignore"
    return "error" if "error" in vs else "warning"


def gen_quiet_cases(ctx):
    rng = ctx.rng("c04-quiet")
    cases = []
    per = ctx.n(40, 500)
    for fmt in ["properties", "dtd", "ini", "inc", "ftl", "android"]:
        for i in range(per):
            recs, kinds = R.gen_reference(fmt, rng, n=rng.randrange(2, 7))
            ref = R.print_file(fmt, recs)
            l10n, plan = R.derive_l10n(fmt, recs, kinds, rng, allow_junk=rng.random() < 0.5)
            if i % 5 == 4:      # several strings missing, nothing else wrong
                keep = [j for j in range(len(recs)) if rng.random() < 0.5]
                l10n = R.print_file(fmt, [(recs[j][0], "L10N " + recs[j][1] if kinds[j] is None else recs[j][1], recs[j][2]) for j in keep])
            nobs = 1 if rng.random() < 0.75 else 2
            tables = []
            for j in range(nobs):
                if rng.random() < 0.2:
                    tables.append(None)               # Observer(filter=None)
                else:
                    tables.append({k: rng.choice(["error", "error", "error", "warning", "ignore"]) for k, _, _ in recs})
            q = rng.choice([1, 2, 2, 3, 4]) if i % 6 else 0
            cases.append({"fmt": fmt, "ref": ref, "l10n": l10n, "mode": "compare", "tag": "quiet%d" % q,
                          "quiet": q, "verdicts": tables, "keys": [k for k, _, _ in recs]})
        for i in range(max(2, per // 10)):
            # missing FILE with a filter verdict for the file itself
            recs, kinds = R.gen_reference(fmt, rng)
            cases.append({"fmt": fmt, "ref": R.print_file(fmt, recs), "l10n": None, "mode": "add", "tag": "quiet-missing-file",
                          "quiet": rng.randrange(0, 5), "verdicts": [{}], "file_verdict": rng.choice(["error", "ignore", "warning"]),
                          "keys": []})
    return cases


def key_verdict(case, k):
    vs = [(t.get(k, "error") if t is not None else "error") for t in case["verdicts"]]
    return combine(vs)


def run_quiet(ctx, out):
    cases = gen_quiet_cases(ctx)
    args = []
    for c in cases:
        opts = {"quiet": c["quiet"], "verdicts": c["verdicts"], "baseline": True}
        if "file_verdict" in c:
            opts["file_verdict"] = c["file_verdict"]
        args.append([c["fmt"], c["ref"], c["l10n"], c["mode"], False, True, opts])
    res = pool.pmap("impl.merge", "impl_compare_merge", args, timeout=10.0, batch=8)
    lines, expect, idx = [], [], []
    for i, (c, r) in enumerate(zip(cases, res)):
        out.evaluations += 1
        out.count("%s.%s" % (c["fmt"], c["tag"]))
        c["required"] = {keystr(k) for k in c["keys"] if key_verdict(c, k) == "error"}
        bad = oracle(c, r)
        if bad and bad[0][0] == "PRECONDITION":
            out.count("precondition-not-met")
            continue
        for msg, fid in bad[:3]:
            out.violations.append({"what": "%s (quiet=%d, filters): %s" % (c["fmt"], c["quiet"], msg),
                                   "input": {k: (sorted(x) if isinstance(x, set) else x) for k, x in c.items()}, "finding": fid})
            out.count("violation." + (fid or "NEW"))
        if "r" not in r:
            continue
        v = r["r"]
        # the Lean theorem merged_bytes_quiet_independent, on the real code: same staged bytes as with quiet = 0
        if "merged_q0_exc" not in v and v.get("merged_q0") != v["merged"]:
            what = "%s: the staged file depends on the quiet level (quiet=%d: %r, quiet=0: %r)" % (
                c["fmt"], c["quiet"], (v["merged"] or "")[:120], (v.get("merged_q0") or "")[:120])
            # a file that lacks strings the filters ask for is a violation of the property (reported above); the bare
            # dependence is reported as a disagreement with the model
            out.disagreements.append({"op": "quiet-independence", "case": {k: x for k, x in c.items() if k != "required"}, "impl": what})
        if c["mode"] != "compare" or c["fmt"] == "inc":
            if c["mode"] == "add":
                out.nontrivial.add((c["fmt"], "add", c.get("file_verdict"), v["merged"] is None))
            continue
        calls = v["merge_calls"]
        if not calls or v.get("ref_parse") is None or v.get("l10n_parse") is None:
            continue
        call = calls[-1]
        lkeys = {keystr(e[0]) for e in v["l10n_parse"]["entities"]}
        rents = v["ref_parse"]["entities"]
        if len({keystr(e[0]) for e in rents}) != len(rents) or any(not isinstance(e[0], str) for e in rents):
            continue
        ents = [(e[0], e[2]) for e in rents if keystr(e[0]) not in lkeys]
        if ents and any(key_verdict(c, k) != "error" for k, _ in ents):
            out.nontrivial.add((c["fmt"], "quiet", c["quiet"], v["merged"]))
        if any(x[3] is None for x in call["skips"]):
            continue
        spec = "".join("n" if t is None else "f" for t in c["verdicts"])
        toks = ["c04.qmerge", str(c["quiet"]), spec, C.enc(R.FNAME[c["fmt"]]), str(call["caps"]), C.enc(to_latin(c["l10n"].encode("utf-8"))),
                C.enc(to_latin(c["ref"].encode("utf-8"))), str(len(ents))]
        for k, ra in ents:
            vs = "".join(VERDICT_CHAR[(t.get(k, "error") if t is not None else "error")] for t in c["verdicts"])
            toks += [C.enc(k), vs, C.enc(ra)]
        toks.append(str(len(call["skips"])))
        for s0, e0, isj, ra in call["skips"]:
            toks += [str(-1 if s0 is None else s0), str(-1 if e0 is None else e0), "1" if isj else "0", C.enc(ra or "")]
        so = (v.get("summary_obs") or [{}])[0]
        lines.append(" ".join(toks))
        expect.append("%s | missing=%d report=%d" % (fileout(v["merged"]), so.get("missing", 0), so.get("report", 0)))
        idx.append(i)
    model = C.run_driver_parallel(lines) if (ctx.model_ok and lines) else []
    for l, e, m, i in zip(lines, expect, model, idx):
        if e != m:
            out.disagreements.append({"op": "c04.qmerge", "case": {k: x for k, x in cases[i].items() if k != "required"},
                                      "impl": e[:300], "model": m[:300]})
    out.contracts["qmerge_replays"] = len(lines)


# ==================================================================================== round 4: direct calls of merge()

def gen_direct_cases(ctx):
    rng = ctx.rng("c04-direct")
    cases = []
    n = ctx.n(420, 5000)
    snippets = ["a=1\n", "b = zwei\n", "# c\n", "öffnen=文字\n", "junk line\n", "<!ENTITY k \"v\">\n", "last=no newline"]
    for i in range(n):
        fmt = rng.choice(FORMATS)
        text = "".join(rng.choice(snippets) for _ in range(rng.randrange(0, 5)))
        lb = text.encode("utf-8")
        if rng.random() < 0.6:
            lb = byte_variant(text, rng.choice(BYTE_SHAPES), rng)
        rb = "".join(rng.choice(snippets) for _ in range(rng.randrange(0, 3))).encode("utf-8")
        if rng.random() < 0.3:
            rb = rb.replace(b"\n", b"\r\n") + b"\xff"
        tlen = len(py_decode(to_latin(lb)))
        caps = rng.choice([0, 1, 2, 2, 3, 4, 5, 6, 6, 6, 7])
        skips = []
        shape = rng.random()
        for j in range(rng.choice([0, 0, 1, 1, 2, 3, 4])):
            if shape < 0.12:
                s0 = e0 = None                                   # Android entities
            elif shape < 0.2:
                s0 = e0 = 0                                      # Android junk
            else:
                s0 = rng.randrange(0, tlen + 2)
                e0 = s0 + rng.randrange(0, 6) if rng.random() < 0.9 else rng.randrange(0, tlen + 2)
            ra = rng.choice(["r=R\n", "r=R", "ä=€", ""])
            skips.append([s0, e0, rng.random() < 0.5 and s0 is not None, ra])      # Junk always has a span
        if shape >= 0.2 and rng.random() < 0.5:
            # disjoint spans in file order, then shuffled: the shape `compare` produces
            cuts, pos = [], 0
            for j in range(len(skips)):
                a = pos + rng.randrange(0, 4)
                b = a + rng.randrange(1, 5)
                cuts.append((a, b))
                pos = b
            rng.shuffle(cuts)
            for sk, (a, b) in zip(skips, cuts):
                sk[0], sk[1] = a, b
        missing = [rng.choice(["m=M\n", "m=M", "ü=1\n"]) for _ in range(rng.choice([0, 0, 1, 2]))]
        cases.append({"fmt": fmt, "caps": caps, "l10n": to_latin(lb), "ref": to_latin(rb), "skips": skips, "missing": missing,
                      "with_merge": rng.random() < 0.9})
    return cases


def direct_oracle(c, v):
    bad = generic_fs_oracle(v)
    staging = c["with_merge"] and c["caps"] != 0 and (c["caps"] & 3)
    real_caps = c["caps"] in (1, 2, 6)          # the capability sets real parsers have
    if staging and real_caps and not c["skips"] and not c["missing"] and v["merged"] != c["l10n"]:
        bad.append("nothing to skip and nothing missing, but the staged file is not byte-identical to the l10n file")
    if staging and c["caps"] == 1 and (c["skips"] or c["missing"]) and v["merged"] != c["ref"]:
        bad.append("CAN_COPY with problems: staged file is not a byte copy of the reference")
    return bad


def run_direct(ctx, out):
    """ContentComparer.merge itself, for every capability value and arbitrary spans, against the byte-level model"""
    cases = gen_direct_cases(ctx)
    res = pool.pmap("impl.merge", "impl_merge_direct",
                    [[c["fmt"], c["caps"], c["l10n"], c["ref"], c["skips"], c["missing"], c["with_merge"]] for c in cases],
                    timeout=10.0, batch=16)
    lines, expect, idx = [], [], []
    for i, (c, r) in enumerate(zip(cases, res)):
        out.evaluations += 1
        out.count("direct.caps%d%s" % (c["caps"], "" if c["with_merge"] else ".nomerge"))
        if "r" not in r:
            out.violations.append({"what": "direct merge call: adapter raised %s %s" % (r.get("exc"), r.get("msg")), "input": c, "finding": None})
            continue
        v = r["r"]
        staging = c["with_merge"] and c["caps"] != 0 and (c["caps"] & 3)
        bad = direct_oracle(c, v)
        for msg in bad[:2]:
            out.violations.append({"what": "direct merge call: %s" % msg, "input": c, "finding": None})
            out.count("violation.NEW")
        # beyond the property text (model-level): nothing at all happens without a merge path or with CAN_NONE, and
        # capability sets without CAN_COPY and CAN_SKIP stage no file
        spec_bad = []
        if not (c["with_merge"] and c["caps"] != 0) and v["new_paths"]:
            spec_bad.append("no merge path / CAN_NONE, but something was created: %s" % v["new_paths"])
        if not staging and (v["merged"] is not None or any(not p.endswith("/") for p in v["new_paths"])):
            spec_bad.append("neither CAN_COPY nor CAN_SKIP, but a file was staged: %s" % v["new_paths"])
        for msg in spec_bad[:1]:
            out.disagreements.append({"op": "direct-spec", "case": c, "impl": msg, "model": "Merge.merge = nothing (C04.no_merge_file_no_effect)"})
        call = {"caps": c["caps"], "skips": c["skips"], "missing": c["missing"]}
        lines.append(mergeb_line(call, c["l10n"], c["ref"], c["with_merge"]))
        expect.append(fileout(v["merged"], v.get("exc")))
        idx.append(i)
        if v["merged"] is not None and c["skips"]:
            out.nontrivial.add(("direct", c["caps"], v["merged"]))
    model = C.run_driver_parallel(lines) if (ctx.model_ok and lines) else []
    for l, e, m, i in zip(lines, expect, model, idx):
        if e != m:
            out.disagreements.append({"op": "c04.mergeb", "case": cases[i], "impl": e[:300], "model": m[:300]})
    out.contracts["direct_merge_calls"] = len(lines)


# ============================================================================= round 4: readFile / encoder on raw bytes

def run_decode(ctx, out):
    rng = ctx.rng("c04-decode")
    alpha = [0x41, 0x3d, 0x0d, 0x0a, 0x80, 0xbf, 0xc0, 0xc1, 0xc2, 0xdf, 0xe0, 0xa0, 0x9f, 0xed, 0xef, 0xf0, 0x90, 0x8f, 0xf4,
             0xf5, 0xff, 0x00, 0xe2, 0x82, 0xac, 0xbb, 0xbf, 0x20]
    n = ctx.n(900, 12000)
    datas = []
    for i in range(n):
        k = rng.randrange(0, 12)
        datas.append(bytes(rng.choice(alpha) if rng.random() < 0.8 else rng.randrange(256) for _ in range(k)))
    fmts = [FORMATS[i % len(FORMATS)] for i in range(n)]
    res = pool.pmap("impl.merge", "impl_read_file", [[f, to_latin(d)] for f, d in zip(fmts, datas)], timeout=5.0, batch=64)
    lines, expect, meta = [], [], []
    for f, d, r in zip(fmts, datas, res):
        out.evaluations += 1
        if "r" not in r:
            out.disagreements.append({"op": "readFile", "case": to_latin(d), "impl": str(r)[:200]})
            continue
        v = r["r"]
        if v["contents"] != py_decode(to_latin(d)):
            out.disagreements.append({"op": "readFile-vs-codec", "case": to_latin(d), "impl": v["contents"], "model": py_decode(to_latin(d))})
        lines.append("c04.decode " + C.enc(to_latin(d)))
        expect.append(C.enc(v["contents"]))
        meta.append(("decode", f, d))
        if v["contents_rc"] != d.decode("utf-8", "replace"):
            out.disagreements.append({"op": "readContents-vs-codec", "case": to_latin(d), "impl": v["contents_rc"]})
        lines.append("c04.decode8 " + C.enc(to_latin(d)))
        expect.append(C.enc(v["contents_rc"]))
        meta.append(("decode8", f, d))
        lines.append("c04.encode " + C.enc(v["contents"]))
        expect.append("EncodeError" if v["encoded"] is None else C.enc(v["encoded"]))
        meta.append(("encode", f, d))
        if "�" in v["contents"] or "\r" in to_latin(d):
            out.nontrivial.add(("decode", v["contents"]))
    model = C.run_driver_parallel(lines) if (ctx.model_ok and lines) else []
    for l, e, m, mt in zip(lines, expect, model, meta):
        if e != m:
            out.disagreements.append({"op": "c04." + mt[0], "case": {"fmt": mt[1], "bytes": to_latin(mt[2])}, "impl": e[:200], "model": m[:200]})
    out.count("decode.cases", n)
    out.contracts["decode_encode_replays"] = len(lines)


# ============================================================================ round 4: compareProjects (merge stage)

def gen_project_cases(ctx):
    rng = ctx.rng("c04-projects")
    cases = []
    for i in range(ctx.n(14, 120)):
        loc = rng.choice(["de", "fr", "x-test"])
        files, expect = {}, {}
        nfiles = rng.randrange(1, 5)
        for j in range(nfiles):
            fmt = rng.choice(["properties", "dtd", "ini", "inc", "ftl", "unknown"])
            rel = rng.choice(["", "sub/", "a/b/"]) + "f%d%s" % (j, os.path.splitext(R.FNAME[fmt])[1])
            recs = [(R.key_for(fmt if fmt != "unknown" else "properties", n, rng), rng.choice(R.WORDS) + " %d" % n, None)
                    for n in range(rng.randrange(1, 4))]
            ref = R.print_file(fmt, recs)
            shape = rng.choice(["clean", "clean-crlf", "missing-file", "obsolete-file", "missing-strings", "inc-dirty"])
            u = lambda t: t.encode("utf-8")
            clean_l = u(R.print_file(fmt, [(k, "L " + v, c) for k, v, c in recs]))
            # (reference bytes | None, l10n bytes | None, expected staged bytes | None)
            if shape == "clean-crlf":
                rb, lb, eb = u(ref), clean_l.replace(b"\n", b"\r\n"), clean_l.replace(b"\n", b"\r\n")
            elif shape == "missing-file":
                rb, lb = u(ref), None
                eb = u(ref) if fmt in ("properties", "dtd", "ini", "inc", "unknown") else None
            elif shape == "obsolete-file":
                rb, lb, eb = None, b"obsolete \xe9 content\r\n", b"obsolete \xe9 content\r\n"
            elif shape == "inc-dirty" and fmt == "inc":
                rb, lb = u(ref), u(R.print_file(fmt, recs[:-1]) if len(recs) > 1 else "#define other x\n")
                eb = u(ref)
            elif shape == "missing-strings" and fmt in R.MERGEABLE:
                # the l10n bytes, a newline, the missing entries
                keep = recs[:max(0, len(recs) - rng.randrange(1, len(recs) + 1))]
                ltxt = R.print_file(fmt, [(k, "L " + v, c) for k, v, c in keep])
                head = "[Strings]\n" if fmt == "ini" else ""
                rl = ref[len(head):].splitlines(True)
                rb, lb, eb = u(ref), u(ltxt), u(ltxt + "\n" + "".join(rl[len(keep):]))
            else:
                rb, lb, eb = u(ref), clean_l, clean_l
            files[rel] = [None if rb is None else to_latin(rb), None if lb is None else to_latin(lb)]
            expect[rel] = None if eb is None else to_latin(eb)
        stale = [loc + "/old/stale.properties", loc + "/stale.txt", "zz/keep.properties", "keep.txt"]
        cases.append({"locale": loc, "files": files, "expect": expect, "clobber": i % 2 == 1, "quiet": rng.randrange(0, 5),
                      "stale": stale, "merge_tpl": rng.choice(["stage", "out/merge-dir"]), "all_locales": i % 5 == 0})
    return cases


def project_oracle(c, r, out=None):
    """messages for one compareProjects case (independent expectation: what must be staged where, what survives)"""
    if "r" not in r:
        return ["adapter raised %s %s" % (r.get("exc"), r.get("msg"))]
    v = r["r"]
    bad = []
    if "exc" in v:
        if c["clobber"] and v["exc"].startswith("TypeError: unhashable type: 'Matcher'"):
            # observed defect of the unchanged tree (NOTES-C04, round 4): `{_m.get("merge") for _m in files.matchers}` needs
            # hashable Matchers, Matcher defines __eq__ without __hash__: --clobber-merge raises before anything is compared.
            # The property text says nothing about clobbering, so this is recorded, not judged.
            if out is not None:
                out.count("projects.clobber-raises-unhashable-matcher")
            if not v["inputs_unchanged"] or v["new_outside"] or any(k not in c["stale"] for k in v["staged"]):
                bad.append("the failed clobber run modified inputs or wrote files")
        else:
            bad.append("compareProjects with a merge stage raised %s" % v["exc"])
        return bad
    if not v["inputs_unchanged"]:
        bad.append("an input file was modified")
    if v["new_outside"]:
        bad.append("files written outside the merge stage: %s" % v["new_outside"][:3])
    for ev in v["events"]:
        tgt = ev[2] if ev[0] == "shutil.copyfile" and len(ev) >= 3 else (ev[1] if len(ev) > 1 else "")
        if ev[0] != "shutil.copyfile" or len(ev) >= 3:
            if tgt.startswith(v["root"]) and not tgt.startswith(v["stage"]):
                bad.append("file system write outside the merge stage: %s" % ev)
    staged = dict(v["staged"])
    for rel, exp in c["expect"].items():
        got = staged.pop(c["locale"] + "/" + rel, None)
        if exp is None and got is not None:
            bad.append("%s: staged although the format does not tolerate English" % rel)
        elif exp is not None and got is None:
            bad.append("%s: nothing staged at <merge stage>/%s/%s (staged: %s)" % (rel, c["locale"], rel, sorted(v["staged"])[:6]))
        elif exp is not None and got != exp:
            bad.append("%s: staged %r, expected %r" % (rel, got[:160], exp[:160]))
    for rel in c["stale"]:
        inside = rel.startswith(c["locale"] + "/")
        got = staged.pop(rel, None)
        if c["clobber"] and inside and got is not None:
            bad.append("clobber: stale file %s survived" % rel)
        if (not c["clobber"] or not inside) and got != "STALE":
            bad.append("stale file %s outside the clobbered directory (or without clobber) was removed or changed" % rel)
    if staged:
        bad.append("unexpected files in the merge stage: %s" % sorted(staged)[:5])
    if out is not None:
        out.nontrivial.add(("projects", json.dumps(sorted(v["staged"].items()))))
    return bad


def run_projects(ctx, out):
    """compareProjects with a merge stage: where things are staged (mergebase -> ProjectFiles merge matcher), the clobber
    branch, add/remove through the project loop"""
    cases = gen_project_cases(ctx)
    res = pool.pmap("impl.merge", "impl_compare_projects", [[{k: v for k, v in c.items() if k != "expect"}] for c in cases],
                    timeout=20.0, batch=2)
    for c, r in zip(cases, res):
        out.evaluations += 1
        out.count("projects.%s" % ("clobber" if c["clobber"] else "keep"))
        for msg in project_oracle(c, r, out)[:3]:
            out.violations.append({"what": "compareProjects: %s" % msg, "input": c, "finding": None})
            out.count("violation.NEW")


# ===================================================================== round 4: the classes of the multi-cut theorems

def theorem_multi_cases(rng, n):
    """C04.multi_cut_reparses_properties_partial / multi_cut_reparses_dtd_partial: several records with errors and several
    garbage lines, the l10n file in an order different from the reference's (so `compare` lists the skips out of file
    order); staged text and entities are predicted by construction"""
    out = []
    for i in range(n):
        fmt = "dtd" if i % 3 == 2 else "properties"
        nrec = rng.randrange(3, 8)
        keys = ["%s%d" % (rng.choice(["first", "second.label", "third-x", "k"]), j) for j in range(nrec)]
        vals = [rng.choice([w for w in THM_WORDS if w]) for _ in keys]
        status = [rng.choice(["ok", "ok", "bad", "missing"]) for _ in keys]
        if "bad" not in status:
            status[rng.randrange(nrec)] = "bad"
        if fmt == "properties":
            line = lambda k, v: "%s=%s" % (k, v)
            for j in range(nrec):
                if status[j] == "bad":
                    vals[j] = "%S and %S"
            badval = "%d und"
        else:
            line = lambda k, v: '<!ENTITY %s "%s">' % (k, v)
            vals = [v.replace("&", "and").replace("%", "pct") for v in vals]
            badval = "a < b"
        ref = "".join(line(k, v) + "\n" for k, v in zip(keys, vals))
        order = [j for j in range(nrec) if status[j] != "missing"]
        rng.shuffle(order)
        items = [("bad", j) if status[j] == "bad" else ("ok", j) for j in order]
        if fmt == "properties":
            # garbage lines: never two in a row, each followed by a record or the end of the file
            pos = 0
            while pos <= len(items):
                if rng.random() < 0.35 and (pos == 0 or items[pos - 1][0] != "garb"):
                    items.insert(pos, ("garb", rng.choice(["garbage", "just some words without separator", "%%%"])))
                    pos += 1
                pos += 1
        lval = lambda j: ("L " + vals[j]).rstrip()
        l10n, kept, ents, refs = "", "", [], []
        for kind, x in items:
            if kind == "garb":
                l10n += x + "\n"
            elif kind == "bad":
                l10n += line(keys[x], badval) + "\n"
                kept += "\n"
                refs.append(line(keys[x], vals[x]) + "\n")
            else:
                l10n += line(keys[x], lval(x)) + "\n"
                kept += line(keys[x], lval(x)) + "\n"
                ents.append([keys[x], lval(x)])
        ms = [line(keys[j], vals[j]) + "\n" for j in range(nrec) if status[j] == "missing"]
        tail_ents = [[keys[j], vals[j]] for j in range(nrec) if status[j] == "missing"] + \
                    [[keys[x], vals[x]] for kind, x in items if kind == "bad"]
        out.append({"fmt": fmt, "ref": ref, "l10n": l10n, "mode": "compare", "tag": "thm-multi-" + fmt,
                    "expect_exact": {"staged": kept + "\n" + "".join(ms) + "".join(refs), "entities": ents + tail_ents,
                                     "nskips": sum(1 for kind, _ in items if kind != "ok")}})
    return out


def check_expect_exact(case, v, merged, mp):
    exp = case["expect_exact"]
    bad = []
    got_text = merged.encode("latin-1").decode("utf-8", "replace")
    if got_text != exp["staged"]:
        bad.append(("theorem class (several cuts): staged text %r differs from the predicted %r" % (got_text[:300], exp["staged"][:300]), None))
        return bad
    got = [[e[0], e[1]] for e in mp["entities"]]
    if got != exp["entities"] or mp["junk"]:
        bad.append(("theorem class (several cuts): staged text parses to %r junk %r, predicted %r without junk" % (got, mp["junk"], exp["entities"]), None))
    return bad



# ===================================================================== round 5: SESSIONS (one comparer, a sequence of jobs)

# file names by KIND, by construction (what the tool documents: Android resources are `strings*.xml`, the other formats go
# by extension, anything else is a file of unknown type).  Look-alikes on purpose: same extension / different kind,
# same stem / different format, known extension followed by another one, names without extension, sub-directories.
SESSION_NAMES = {
    "android": ["strings.xml", "strings-more.xml", "res/values/strings.xml", "values-de/strings_extra.xml", "mystrings.xml",
                "strings/more.xml"],
    "unknown": ["notes.xml", "values.xml", "extra.xml", "res/values/colors.xml", "foo.properties.orig", "a.dtd.bak",
                "unknown.txt", "README", "sub/Makefile", "a.ini.in", "strings.xml.orig", "a.inc.txt", "a", "string.xml"],
    "properties": ["a.properties", "sub/b.properties", "strings.properties", "notes.properties"],
    "dtd": ["a.dtd", "sub/a.dtd", "strings.dtd", "x/y/notes.dtd"],
    "ini": ["a.ini", "sub/x.ini"],
    "inc": ["a.inc", "defines.inc", "sub/a.inc"],
    "ftl": ["a.ftl", "sub/strings.ftl", "notes.ftl"],
    "po": ["a.po", "sub/b.pot"],
}
UNKNOWN_XML = [
    '<?xml version="1.0" encoding="utf-8"?>\n<notes>\n  <note id="n%d">erste Notiz</note>\n</notes>\n',
    '<?xml version="1.0" encoding="utf-8"?>\n<resources>\n  <color name="c%d">#fff</color>\n  <string name="s">x</string>\n</resources>\n',
    '<resources>\n  <string name="k%d">öffnen</string>\n  <string>noname</string>\n</resources>\n',
    '<notes><note>not closed %d\n',
    'no xml at all %d\nsecond line\n',
    '<?xml version="1.0" encoding="utf-8"?>\n<resources>\n  <string name="first%d">eins</string>\n</resources>\n',
]


def session_job(kind, name, mode, rng, dirty=False):
    """one job of a session: bytes (latin-1 transport) of the files that exist for this mode, by construction"""
    job = {"fmt": kind, "name": name, "mode": mode, "ref": None, "l10n": None, "keys": []}
    if kind == "unknown":
        if name.endswith(".xml"):
            rt = rng.choice(UNKNOWN_XML) % rng.randrange(10)
            lt = rng.choice(UNKNOWN_XML) % rng.randrange(10, 20)
        else:
            rt = "".join("k%d: v %s\n" % (j, rng.choice(R.WORDS)) for j in range(rng.randrange(1, 4)))
            lt = rt + "lokalisiert %d\n" % rng.randrange(100)
        rb, lb = rt.encode("utf-8"), lt.encode("utf-8")
        shape = rng.random()
        if shape < 0.6:
            lb = lb.replace(b"\n", b"\r\n")
        elif shape < 0.75:
            lb = byte_variant(lt, rng.choice(["latin1", "bad-utf8", "cr", "bom"]), rng)
        if rng.random() < 0.4:
            rb = rb.replace(b"\n", b"\r\n")
    else:
        recs, kinds = R.gen_reference(kind, rng, n=rng.randrange(1, 5))
        job["keys"] = [k for k, _, _ in recs]
        ref = R.print_file(kind, recs)
        r = rng.uniform(0.7, 1.0) if dirty else rng.random()
        if r < 0.4:
            l10n, plan = R.derive_l10n(kind, recs, kinds, rng, clean=True)
        elif r < 0.7 or kind == "android" and r < 0.9:
            l10n, plan = R.derive_l10n(kind, recs, kinds, rng, allow_break=False, allow_junk=False)
        else:
            l10n, plan = R.derive_l10n(kind, recs, kinds, rng)
        rb, lb = ref.encode("utf-8"), l10n.encode("utf-8")
        if rng.random() < 0.3:
            lb = lb.replace(b"\n", b"\r\n")
        if rng.random() < 0.15:
            rb = rb.replace(b"\n", b"\r\n")
    if mode != "remove":
        job["ref"] = to_latin(rb)
    if mode != "add":
        job["l10n"] = to_latin(lb)
    return job


def gen_session_cases(ctx):
    rng = ctx.rng("c04-sessions")
    cases = []
    n = ctx.n(70, 900)
    kinds_all = list(SESSION_NAMES)
    for i in range(n):
        shape = i % 10
        with_tables = i % 7 == 6
        plan = []                               # (kind, mode | None)
        if shape == 0:                          # unknown .xml first, then a MISSING Android file
            plan = [("unknown.xml", rng.choice(["compare", "add"])), ("android", "add")]
        elif shape == 1:                        # Android first, then unknown .xml (compared / missing / obsolete)
            plan = [("android", rng.choice(["compare", "add"])), ("unknown.xml", "compare"), ("unknown.xml", rng.choice(["add", "remove"]))]
        elif shape == 2:                        # the same, with other files in between
            plan = [(rng.choice(["android", "unknown.xml"]), None), (rng.choice(kinds_all), None),
                    (rng.choice(["android", "unknown.xml"]), None), (rng.choice(["android", "unknown.xml"]), None)]
        elif shape == 3:                        # same stem, different formats (+ look-alikes of the extension)
            plan = [(k, None) for k in rng.sample(["properties", "dtd", "ini", "inc", "unknown", "ftl"], 4)]
        elif shape == 4:                        # several dirty comparisons of one format, different directories
            k = rng.choice(["properties", "dtd", "ini", "ftl", "inc"])
            plan = [(k, "compare")] * rng.randrange(2, 4) + [(rng.choice(kinds_all), None)]
        else:
            plan = [(rng.choice(kinds_all + ["unknown.xml", "android"]), None) for _ in range(rng.randrange(2, 7))]
        if rng.random() < 0.3:
            rng.shuffle(plan)
        used, jobs = set(), []
        for kind, mode in plan:
            pool_ = SESSION_NAMES["unknown" if kind == "unknown.xml" else kind]
            if kind == "unknown.xml":
                pool_ = [x for x in pool_ if x.endswith(".xml")]
            if with_tables and kind == "po":
                continue
            free = [x for x in pool_ if x not in used]
            if not free:
                continue
            name = rng.choice(free)
            used.add(name)
            mode = mode or rng.choice(["compare"] * 13 + ["add"] * 5 + ["remove"] * 2)
            jobs.append(session_job("unknown" if kind == "unknown.xml" else kind, name, mode, rng, dirty=(shape == 4 and mode == "compare")))
        if len(jobs) < 2:
            continue
        case = {"session": i, "jobs": jobs, "quiet": rng.choice([0, 0, 0, 1, 2, 3, 4]), "verdicts": None, "tag": "session-shape%d" % min(shape, 5)}
        if with_tables:
            allkeys = sorted({k for j in jobs for k in j["keys"]})
            case["verdicts"] = [None if rng.random() < 0.2 else {k: rng.choice(["error", "error", "error", "warning", "ignore"]) for k in allkeys}
                                for _ in range(1 if rng.random() < 0.7 else 2)]
            case["file_verdict"] = rng.choice(["error", "ignore", "warning"])
        cases.append(case)
    return cases


def session_job_oracle(case, ji, v):
    """what the property promises for job `ji` of a session — it mentions nothing but this job's files: (message, finding)"""
    job = case["jobs"][ji]
    c = {"fmt": job["fmt"], "mode": job["mode"]}
    if case.get("verdicts") is not None:
        c["required"] = {keystr(k) for k in job["keys"] if key_verdict(case, k) == "error"}
    bad = []
    if v.get("foreign_changes"):
        bad.append(("the job changed other files of the merge stage than its own merge path: %s" % v["foreign_changes"][:4], None))
    if v.get("final") != v.get("merged"):
        bad.append(("the file staged by this job was changed by a later job of the session", None))
    if "job_exc" in v:
        return bad + oracle(c, v["job_exc"])
    if job["mode"] == "remove":
        bad.extend((m, None) for m in generic_fs_oracle(v))
        if not v.get("merged_is_l10n"):
            bad.append(("obsolete file not staged as a byte copy", None))
        return bad
    return bad + oracle(c, {"r": v})


def session_line(case, res):
    """the `c04.session` operation for a real session, or None if a job is outside the model's input language; the
    per-job entity inputs come from the INDEPENDENT parse and from the job's run on a FRESH comparer, never from the session"""
    vd = case.get("verdicts")
    spec = "n" if vd is None else "".join("n" if t is None else "f" for t in vd)
    toks = ["c04.session", str(case["quiet"]), spec, VERDICT_CHAR[case.get("file_verdict", "error")], str(len(case["jobs"]))]
    for job, v in zip(case["jobs"], res["jobs"]):
        mode = job["mode"]
        ents, skips, nref = [], [], 0
        if v.get("has_parser") and mode == "add":
            if v.get("ref_parse") is None:
                return None
            nref = len(v["ref_parse"]["entities"])
        if v.get("has_parser") and mode == "compare":
            if v.get("ref_parse") is None or v.get("l10n_parse") is None or "fresh_exc" in v and v["fresh_exc"] != "TypeError":
                return None
            calls = v.get("fresh_calls") or []
            if not calls or calls[-1]["contents"] is None:
                return None
            rents = v["ref_parse"]["entities"]
            rk = [keystr(e[0]) for e in rents]
            if len(set(rk)) != len(rk) or any(x[3] is None for x in calls[-1]["skips"]):
                return None
            lk = {keystr(e[0]) for e in v["l10n_parse"]["entities"]}
            ents = [(e[0] if isinstance(e[0], str) else keystr(e[0]), e[2]) for e in rents if keystr(e[0]) not in lk]
            skips = calls[-1]["skips"]
        toks += [mode[0], C.enc(job["name"]), C.enc(job["name"]), C.enc(job["l10n"] or ""), C.enc(job["ref"] or ""), str(nref), str(len(ents))]
        for k, ra in ents:
            vs = "e" if vd is None else "".join(VERDICT_CHAR[(t.get(k, "error") if t is not None else "error")] for t in vd)
            toks += [C.enc(k), vs, C.enc(ra)]
        toks.append(str(len(skips)))
        for s0, e0, isj, ra in skips:
            toks += [str(-1 if s0 is None else s0), str(-1 if e0 is None else e0), "1" if isj else "0", C.enc(ra or "")]
    return " ".join(toks)


def session_expect(case, res):
    outs = [v["job_exc"]["exc"] if "job_exc" in v else fileout(v["merged"]) for v in res["jobs"]]
    files = ["%s=%s" % (C.enc(k), C.enc(b)) for k, b in sorted(res["final"].items())]
    so = (res.get("summary") or [{}])[0]
    return "%s | files %s | dirs %s | missing=%d report=%d" % (" ; ".join(outs), " ".join(files), " ".join(C.enc(d) for d in sorted(res["dirs"])),
                                                              so.get("missing", 0), so.get("report", 0))


def session_violations(case, r):
    """[(job index | None, message, finding)] for one session result"""
    if "r" not in r:
        return [(None, "session adapter raised %s %s" % (r.get("exc"), r.get("msg")), None)]
    res = r["r"]
    out = []
    for ji, v in enumerate(res["jobs"]):
        v["final"] = res["final"].get(case["jobs"][ji]["name"])
        bad = session_job_oracle(case, ji, v)
        if bad and bad[0][0] == "PRECONDITION":
            out.append((ji, "PRECONDITION", None))
            continue
        for msg, fid in bad[:3]:
            out.append((ji, msg, fid))
    return out


def run_sessions(ctx, out):
    """ONE ContentComparer per session handles 2-6 jobs (compare / add / remove) on files of different kinds below one merge
    stage.  Oracle by construction per job (what the property promises for a job mentions only that job's files), the same
    job on a fresh comparer as a differential, and the session model `c04.session` (fold of the per-job model, parser chosen
    per name by the generated table) on the staged bytes of every job + the final stage."""
    cases = gen_session_cases(ctx)
    res = pool.pmap("impl.merge", "impl_session", [[{k: v for k, v in c.items() if k in ("jobs", "quiet", "verdicts", "file_verdict")}] for c in cases],
                    timeout=30.0, batch=2)
    lines, expect, idx = [], [], []
    for i, (c, r) in enumerate(zip(cases, res)):
        out.count(c["tag"])
        viol = session_violations(c, r)
        flagged = set()
        for ji, msg, fid in viol:
            if msg == "PRECONDITION":
                out.count("precondition-not-met")
                continue
            flagged.add(ji)
            job = c["jobs"][ji] if ji is not None else {}
            out.violations.append({"what": "session, job %s of %d (%s %s %s, on ONE comparer after %s): %s" % (
                ji, len(c["jobs"]), job.get("mode"), job.get("fmt"), job.get("name"),
                [(j["mode"], j["name"]) for j in c["jobs"][:ji or 0]], msg), "input": dict(c, job=ji), "finding": fid})
            out.count("violation." + (fid or "NEW"))
        if "r" not in r:
            continue
        rs = r["r"]
        raised = False
        for ji, (job, v) in enumerate(zip(c["jobs"], rs["jobs"])):
            out.evaluations += 1
            out.count("session.%s.%s" % (job["fmt"], job["mode"]))
            if ji > 0:
                out.nontrivial.add(("session", job["fmt"], job["mode"], c["jobs"][ji - 1]["fmt"], v["merged"]))
            raised = raised or "job_exc" in v or "fresh_exc" in v
            if ji in flagged:
                continue
            # differential: the same job on a comparer of its own
            same_exc = v.get("job_exc", {}).get("exc") == v.get("fresh_exc")
            if v["merged"] != v.get("fresh_merged") or not same_exc:
                out.disagreements.append({"op": "session-vs-fresh", "case": dict(c, job=ji),
                                          "impl": "session: %s %r" % (v.get("job_exc", {}).get("exc"), (v["merged"] or "")[:160]),
                                          "model": "fresh comparer: %s %r" % (v.get("fresh_exc"), (v.get("fresh_merged") or "")[:160])})
            else:
                a = [(x["caps"], x["skips"], x["missing"], x["merge_file"]) for x in v["merge_calls"]]
                b = [(x["caps"], x["skips"], x["missing"], x["merge_file"]) for x in v.get("fresh_calls", [])]
                if a != b:
                    out.disagreements.append({"op": "session-merge-args", "case": dict(c, job=ji), "impl": repr(a)[:300], "model": repr(b)[:300]})
        if not raised:
            tot = [{} for _ in rs.get("summary", [])]
            for v in rs["jobs"]:
                for t, fs in zip(tot, v.get("fresh_summary", [])):
                    for k, x in fs.items():
                        t[k] = t.get(k, 0) + x
            if tot != [dict(s0) for s0 in rs.get("summary", [])]:
                out.disagreements.append({"op": "session-summary", "case": c, "impl": json.dumps(rs.get("summary"))[:300], "model": json.dumps(tot)[:300]})
        line = session_line(c, rs)
        if line is None:
            out.count("session.outside-model-language")
            continue
        lines.append(line)
        expect.append(session_expect(c, rs))
        idx.append(i)
    model = C.run_driver_parallel(lines) if (ctx.model_ok and lines) else []
    for l, e, m, i in zip(lines, expect, model, idx):
        if e != m:
            out.disagreements.append({"op": "c04.session", "case": cases[i], "impl": e[:400], "model": m[:400]})
    out.contracts["session_replays"] = len(lines)
    # parser selection per NAME: the generated table against the real getParser on look-alike names
    rng = ctx.rng("c04-names")
    parts = ["strings", "string", "values", "notes", "a", ".xml", ".xml", ".properties", ".dtd", ".ini", ".inc", ".ftl", ".po", ".pot", ".orig", ".txt", "/",
             "-more", "_", ".", "xml", "x", "\n"]
    names = sorted({n for ns in SESSION_NAMES.values() for n in ns} |
                   {"".join(rng.choice(parts) for _ in range(rng.randrange(1, 5))) for _ in range(ctx.n(300, 3000))})
    caps = pool.pmap("impl.merge", "impl_caps_of", [[names]], timeout=30.0, batch=1)[0]
    if "r" in caps and ctx.model_ok:
        got = C.run_driver_parallel(["c04.capsof " + C.enc(n) for n in names])
        for n, a, b in zip(names, caps["r"], got):
            out.evaluations += 1
            if ("none" if a is None else str(a)) != b:
                out.disagreements.append({"op": "c04.capsof", "case": n, "impl": str(a), "model": b})
        for kind, ns in SESSION_NAMES.items():
            for n in ns:
                a = caps["r"][names.index(n)]
                if (a is None) != (kind == "unknown"):
                    out.notes.append("name table of the session generator is stale: %s is listed as %s, getParser says %s" % (n, kind, a))
    elif "r" not in caps:
        out.disagreements.append({"op": "c04.capsof", "case": "adapter", "impl": str(caps)[:200]})


def run(ctx):
    out = Outcome()
    out.rule = ("per format: clean reference printed from 1-6 records (some with printf/XML/attribute-bearing values); localization derived by "
                "keep/re-value/break/drop/reorder/obsolete edits, optional junk line, 20% additionally with 1-2 raw character mutations; "
                "plus missing-file and unknown-type cases; non-trivial = the merge call had at least one skip or missing entry; distinct = "
                "distinct (format, staged bytes). Round 4 streams: the same pairs as BYTES with CRLF / CR / mixed endings / BOM / ill-formed UTF-8 / Latin-1 / "
                "truncated sequence at EOF / NUL / encoded surrogate (half of them clean); comparisons with quiet 0-4 and per-key filter verdicts "
                "(error/warning/ignore, one or two observers, filter=None) each also run with quiet 0; direct calls of merge() with every capability value 0-7, "
                "arbitrary / unsorted / overlapping / None spans on such byte files; raw byte strings through readFile; compareProjects on a temp tree with a merge "
                "stage, stale files and clobber on/off; several-cut theorem classes (.properties, .dtd) with predicted staged text. Round 5: SESSIONS - "
                "one ContentComparer handles 2-6 compare/add/remove jobs below one merge stage, mixing formats and look-alike names (strings.xml, "
                "strings-more.xml, notes.xml, values.xml, foo.properties.orig, a.inc, a.ini, names without extension, sub-directories), CRLF / "
                "ill-formed bytes, quiet 0-4, optional verdict tables; per job the property oracle (what it promises mentions only that job's files), "
                "the same job on a fresh comparer, and the session model c04.session; parser selection on ~300 generated look-alike names (c04.capsof)")
    cases = gen_cases(ctx)
    res = pool.pmap("impl.merge", "impl_compare_merge",
                    [[c["fmt"], c["ref"], c["l10n"], c["mode"]] for c in cases], timeout=10.0, batch=8)
    lines, expect, idx = [], [], []
    for i, (c, r) in enumerate(zip(cases, res)):
        out.evaluations += 1
        out.count("%s.%s" % (c["fmt"], c["tag"]))
        bad = oracle(c, r)
        if bad and bad[0][0] == "PRECONDITION":
            out.count("precondition-not-met")
            continue
        for msg, fid in bad[:3]:
            out.violations.append({"what": "%s: %s" % (c["fmt"], msg), "input": c, "finding": fid})
            out.count("violation." + (fid or "NEW"))
        if "r" in r:
            v = r["r"]
            calls = v["merge_calls"]
            if calls and (calls[-1]["skips"] or calls[-1]["missing"]):
                out.nontrivial.add((c["fmt"], v["merged"]))
            if calls and not bad and all(x is not None for call in calls[-1:] for x in call["missing"]):
                call = calls[-1]
                if c["mode"] == "compare" and c["fmt"] != "unknown" and c["fmt"] != "inc" and call["contents"] is not None:
                    lines.append(model_line(call))
                    expect.append(expected_model(c, v, call))
                    idx.append(i)
            if len(out.samples) < 8 and calls and calls[-1]["skips"] and calls[-1]["missing"] and not bad:
                out.samples.append({"fmt": c["fmt"], "ref": c["ref"], "l10n": c["l10n"], "staged": v["merged"]})
    model = C.run_driver_parallel(lines) if (ctx.model_ok and lines) else []
    for l, e, m, i in zip(lines, expect, model, idx):
        if e != m:
            # "written X" where X == contents+trailing can also be a copy+append; compare by staged bytes
            def staged(o):
                if o.startswith("written "):
                    return C.dec(o[8:])
                if o.startswith("copy-l10n+ "):
                    return cases[i]["l10n"] + C.dec(o[11:])
                if o == "copy-l10n":
                    return cases[i]["l10n"]
                if o == "copy-ref":
                    return cases[i]["ref"]
                return o
            if staged(e) != staged(m):
                out.disagreements.append({"op": "merge", "case": cases[i], "impl": e[:300], "model": m[:300]})
    out.contracts["merge_model_replays"] = len(lines)
    run_special(ctx, out)
    run_bytes(ctx, out)
    run_quiet(ctx, out)
    run_direct(ctx, out)
    run_decode(ctx, out)
    run_projects(ctx, out)
    run_sessions(ctx, out)
    return out


def classify(v):
    return v.get("finding")


def replay(payload):
    """re-runs the oracle of the stream a stored input came from"""
    res = []
    for v in payload.get("violations", []):
        c = v["input"]
        if "jobs" in c:                                      # session on one comparer
            r = pool.pmap("impl.merge", "impl_session", [[{k: x for k, x in c.items() if k in ("jobs", "quiet", "verdicts", "file_verdict")}]], timeout=60.0)[0]
            res.append({"input": c, "oracle": ["job %s: %s" % (ji, m) for ji, m, _ in session_violations(c, r) if m != "PRECONDITION"]})
            continue
        if "files" in c:                                     # compareProjects
            r = pool.pmap("impl.merge", "impl_compare_projects", [[{k: x for k, x in c.items() if k != "expect"}]], timeout=30.0)[0]
            res.append({"input": c, "oracle": project_oracle(c, r)})
            continue
        if "caps" in c:                                      # direct call of merge()
            r = pool.pmap("impl.merge", "impl_merge_direct",
                          [[c["fmt"], c["caps"], c["l10n"], c["ref"], c["skips"], c["missing"], c["with_merge"]]], timeout=20.0)[0]
            res.append({"input": c, "oracle": direct_oracle(c, r["r"]) if "r" in r else ["adapter raised %s" % r.get("exc")]})
            continue
        opts = dict(c.get("opts") or {})
        if "quiet" in c:
            opts.update({"quiet": c["quiet"], "verdicts": c["verdicts"]})
            if "file_verdict" in c:
                opts["file_verdict"] = c["file_verdict"]
            c = dict(c)
            c["required"] = {keystr(k) for k in c.get("keys", []) if key_verdict(c, k) == "error"}
        r = pool.pmap("impl.merge", "impl_compare_merge",
                      [[c["fmt"], c["ref"], c["l10n"], c["mode"], bool(c.get("bytes")), True, opts]], timeout=20.0)[0]
        if c.get("tag") in ("ref-unreadable", "l10n-unreadable", "add-ref-unreadable"):
            msgs = ["raised %s" % r["exc"]] if "exc" in r else generic_fs_oracle(r["r"])
            res.append({"input": v["input"], "oracle": msgs})
            continue
        res.append({"input": v["input"], "oracle": [m for m, _ in oracle(c, r) if m != "PRECONDITION"]})
    return {"violates": any(r["oracle"] for r in res), "cases": res}

"""C04 — l10n-merge output is complete, clean and otherwise untouched."""
import json
import os

from lib import common as C
from lib import pool
from lib.runner import Outcome
from gen import records as R

ID = "C04"
LEAN_TARGETS = ["CLModel.Props.C04"]
M = "CLModel.Props.C04"
THEOREMS = [
    (M, "C04.merge_text_spec", "CAN_SKIP formats with skips: written text = l10n text with the sorted skip spans cut out, plus the trailing reference block iff CAN_MERGE"),
    (M, "C04.trailing_spec", "the trailing block is a newline, the missing reference entries, then the reference entries of the non-junk skips, each newline-terminated"),
    (M, "C04.chunks_sublist", "cutting sorted, disjoint spans out of the text yields a subsequence of the l10n text"),
    (M, "C04.skip_only_text", "skip-only formats: the staged text is exactly the cut localized text"),
    (M, "C04.skip_only_no_english", "without CAN_MERGE the staged text is a subsequence of the localized text: no reference text enters"),
    (M, "C04.clean_is_identical", "no skips and nothing missing: the l10n file is copied verbatim (byte-identical), for every capability set that stages at all"),
    (M, "C04.copy_only", "CAN_COPY formats: byte copy of the l10n file iff clean, else of the reference"),
    (M, "C04.no_merge_file_no_effect", "no merge path or CAN_NONE: nothing is written"),
    (M, "C04.strategy_table", "the capability constants and per-format strategies are the ones generated from the source (dtd/properties/ini merge, ftl/po/android skip, inc copy)"),
    (M, "C04.android_duplicates_witness", "negation witness (finding F5): a single skip with span (None, None) writes the whole text twice and removes nothing; two such skips raise TypeError"),
    (M, "C04.dup_skip_appends_twice_witness", "negation witness (F13, fixed in /repo): the same entity listed twice in skips would be appended twice"),
    (M, "C04.append_reparses_properties_partial", "re-parse, clean append (.properties): l10n = printed safe records `key=value` (with or without final newline), nothing cut, "
        "missing reference entries appended: staged text = l10n + newline + entries, and its walk yields exactly the localized records then the reference records, no junk"),
    (M, "C04.cut_reparses_properties_partial", "re-parse, junk cut (.properties): a garbage line between printed records is ONE junk entry spanning exactly the line with its newline "
        "(garbage locality); cutting that span (plus appending missing entries) stages the printed records without it, which parse to exactly the records, no junk"),
    (M, "C04.skip_entity_reparses_properties_partial", "re-parse, entity cut (.properties): skipping the span the walk reports for one record (key=value without its newline) and appending its "
        "reference entry stages a text that parses to the kept records, the missing records and the reference record, no junk"),
    (M, "C04.printed_splices_stable", "the decidable predicate SpliceStable (every cut starts at a line start or keeps its line end; kept text does not end in an odd run of backslashes "
        "when entries are appended) holds for the three splices above"),
    (M, "C04.f4_unstable_witness", "negation witness (finding F4): for l10n `a=X\\` + missing `b=B` SpliceStable is false and the walk of the staged text has ONE entity: `b` is swallowed as a continuation line"),
    (M, "C04.f4_even_run_witness", "with an even run of backslashes SpliceStable holds and the appended entry is parsed"),
    (M, "C04.f14_unstable_witness", "negation witness (finding F14): ini `[Strings]\\⏎; c⏎k=v`: the junk span (9,11) starts mid-line and ends with the line end, SpliceStable is false, "
        "and the staged text has a NEW junk entry (the comment line fused onto the section line)"),
    (M, "C04.append_reparses_ini_partial", "re-parse, clean append (.ini): `[name]` + printed ini records (value = anything but newline) + appended reference entries parse to the section, "
        "the localized records and the reference records, no junk; no backslash hypothesis needed"),
]
PARTIAL = [
    "re-parse claims (staged file re-compares with no junk / nothing missing / localized values kept) are PROVED only for the printed class of C02 "
    "(`.properties`: safe records `key=value`, no comments/escapes/continuation lines/other layouts; `.ini`: `[name]` + records `key=value`), for the clean append, "
    "the cut of ONE whole-line junk entry and the cut of ONE entity; on that class the decidable hypothesis SpliceStable holds, and the known findings F4/F14 are "
    "kernel-checked inputs with SpliceStable = false on which the claim fails. NOT proved: arbitrary localized texts satisfying SpliceStable, several cuts at once "
    "(needs `sortSkips` of a permutation), dtd, 'no check errors' of the re-comparison (checks are C06/C07); these are decided by executing the real code (oracle), "
    "which also replays the theorem class (`thm-*` cases: predicted staged text and predicted entities compared with the real run)",
]
TRUSTED = [
    "hand-written model CLModel/Compare/Merge.lean of ContentComparer.merge (tied by the `merge` correspondence on the arguments the real code passes)",
    "file system effects are observed with sys.addaudithook + directory listings + input hashes (oracle side), not modelled",
]
ASSUMPTIONS = ["reference validates without errors and warnings against itself; localization has no duplicate keys (cases violating the precondition are skipped and counted)"]
LEVEL_TEXT = ("Lean 4 theorems about the splice algorithm of l10n-merge for ALL texts/skip lists (text spec, subsequence property for skip-only "
              "formats, byte-identical staging of clean files, copy-only strategy, capability table regenerated from the source); the model is "
              "tied to ContentComparer.merge by replaying the exact arguments of real runs; for printed .properties/.ini texts the staged text is proved to "
              "re-parse to exactly the expected entities without junk (append / one junk cut / one entity cut); the end-to-end claims (re-compare is clean and "
              "complete, per-key values, inputs untouched, nothing written outside the merge path) are decided on the real code per generated case")
LEVEL_NOTE = ("trusted: Lean kernel, merge model correspondence, parser model correspondence (C01/C02), audit-hook observation; re-parse stability is proved "
              "for printed .properties/.ini texts only (append, one junk cut, one entity cut) under the decidable SpliceStable hypothesis; F4/F14 are its negations, F5 is outside")
TECHNIQUE = "Lean 4 proof over a model of the merge splice + differential correspondence + end-to-end oracle on real merges"

FORMATS = ["properties", "dtd", "ini", "inc", "ftl", "po", "android"]


def gen_cases(ctx):
    rng = ctx.rng("c04")
    cases = []
    per = ctx.n(400, 6000)
    for fmt in FORMATS:
        for i in range(per):
            recs, kinds = R.gen_reference(fmt, rng)
            ref = R.print_file(fmt, recs)
            r = rng.random()
            if r < 0.15:
                l10n, plan = R.derive_l10n(fmt, recs, kinds, rng, clean=True)
                tag = "clean"
            elif r < 0.8:
                l10n, plan = R.derive_l10n(fmt, recs, kinds, rng)
                tag = "edited"
            else:
                l10n, plan = R.derive_l10n(fmt, recs, kinds, rng)
                l10n = R.mutate_raw(l10n, rng, rng.randrange(1, 3))
                tag = "mutated"
            cases.append({"fmt": fmt, "ref": ref, "l10n": l10n, "mode": "compare", "tag": tag})
        for i in range(max(2, per // 15)):
            recs, kinds = R.gen_reference(fmt, rng)
            cases.append({"fmt": fmt, "ref": R.print_file(fmt, recs), "l10n": None, "mode": "add", "tag": "missing-file"})
        for i in range(max(2, per // 30)):
            # directed: the localization ends in the middle of an escape / quote / tag and lacks the last records
            recs, kinds = R.gen_reference(fmt, rng, n=rng.randrange(2, 5))
            keep = recs[:rng.randrange(1, len(recs))]
            l10n = R.print_file(fmt, [(k, "L10N " + v if kinds[j] is None else v, c) for j, (k, v, c) in enumerate(keep)], trailing_newline=False)
            tail = rng.choice(["\\", "\\\\\\", "\\\\", " ", "\n\n", ""])
            if fmt != "android":
                l10n += tail
            cases.append({"fmt": fmt, "ref": R.print_file(fmt, recs), "l10n": l10n, "mode": "compare", "tag": "directed-tail"})
    cases.extend(theorem_class_cases(rng, max(12, per // 8)))
    for i in range(max(3, per // 10)):
        recs, kinds = R.gen_reference("unknown", rng) if False else ([("k%d" % j, "v", None) for j in range(3)], None)
        txt = R.print_file("unknown", recs)
        cases.append({"fmt": "unknown", "ref": txt, "l10n": txt + "localized\n", "mode": "compare", "tag": "unknown-type"})
        cases.append({"fmt": "unknown", "ref": txt, "l10n": None, "mode": "add", "tag": "unknown-missing"})
    return cases


THM_WORDS = ["alpha", "beta gamma", "x", "two  blanks", "100 percent", "a=b", "hash # inside", "bang!", "colon: here", ""]
THM_GARBAGE = ["garbage", "just some words without separator", "%%%", "\\u0041 x"]


def theorem_class_cases(rng, n):
    """the class of C04.append_/cut_/skip_entity_reparses_properties_partial and append_reparses_ini_partial: records printed `key=value`,
    one per line; the staged text and the parsed entities are predicted by construction (independently of the Lean model)"""
    out = []
    for i in range(n):
        fmt = "ini" if i % 4 == 3 else "properties"
        shape = "append" if fmt == "ini" else ["append", "cut", "skip-entity"][i % 4 % 3]
        nrec = rng.randrange(1, 6)
        keys = ["%s%d" % (rng.choice(["first", "second.label", "third-x", "k"]), j) for j in range(nrec)]
        vals = [rng.choice(THM_WORDS) for _ in keys]
        if fmt == "ini":
            vals = [v if rng.random() < 0.7 else v + rng.choice([" ", "\\", " \\ "]) for v in vals]     # blanks / backslashes at the end are fine in ini
        bad = None
        if shape == "skip-entity":
            bad = rng.randrange(nrec)
            vals[bad] = "%S and %S"
        head = "[Strings]\n" if fmt == "ini" else ""
        ref = head + "".join("%s=%s\n" % kv for kv in zip(keys, vals))
        kept = [j for j in range(nrec) if j == bad or rng.random() < 0.6]
        if shape != "cut" and len(kept) == nrec and bad is None:
            kept = kept[:-1]                                  # something must be appended in the append shape
        lvals = {j: ("%d und" if j == bad else ("L " + vals[j]).rstrip() if fmt != "ini" else "L " + vals[j]) for j in kept}
        lines = ["%s=%s" % (keys[j], lvals[j]) for j in kept]
        final_nl = rng.random() < 0.7 or shape != "append" or not lines
        exp_lines = [l for j, l in zip(kept, lines) if j != bad]
        if shape == "cut":
            g = rng.choice(THM_GARBAGE)
            pos = rng.randrange(len(lines) + 1)
            lines.insert(pos, g)
        l10n = head + "".join(l + "\n" for l in lines)
        if not final_nl:
            l10n = l10n[:-1]
        if shape == "skip-entity":
            kept_text = head + "".join(("\n" if j == bad else "%s=%s\n" % (keys[j], lvals[j])) for j in kept)
        elif shape == "cut":
            kept_text = head + "".join(l + "\n" for l in exp_lines)
        else:
            kept_text = l10n
        tail = ["%s=%s\n" % (keys[j], vals[j]) for j in range(nrec) if j not in kept or j == bad]
        ents = [[keys[j], lvals[j]] for j in kept if j != bad]
        out.append({"fmt": fmt, "ref": ref, "l10n": l10n, "mode": "compare", "tag": "thm-" + shape + ("-ini" if fmt == "ini" else ""),
                    "expect": {"kept": kept_text, "tail": tail, "entities": ents, "staged": bool(tail) or shape != "append"}})
    return out


def check_expect(case, v, merged, mp):
    """theorem class: the real staged text / real parse against the prediction by construction"""
    exp = case["expect"]
    bad = []
    if not exp["staged"]:
        return bad
    want_head = exp["kept"] + "\n"
    if not merged.startswith(want_head) or sorted(merged[len(want_head):].splitlines(True)) != sorted(exp["tail"]):
        bad.append(("theorem class: staged text %r differs from the predicted %r + permutation of %r" % (merged[:300], want_head, exp["tail"]), None))
        return bad
    tail_now = merged[len(want_head):].splitlines(True)
    want_ents = exp["entities"] + [l[:-1].split("=", 1) for l in tail_now]
    got = [[e[0], e[1]] for e in mp["entities"]]
    if got != want_ents or mp["junk"]:
        bad.append(("theorem class: staged text parses to %r junk %r, predicted %r without junk" % (got, mp["junk"], want_ents), None))
    return bad


def keystr(k):
    return json.dumps(k, ensure_ascii=False)


def summary_of(rep):
    s = rep.get("summary", {})
    return s.get("xx", {}) if s else {}


def flat_details(rep):
    out = []

    def walk(d):
        if isinstance(d, list):
            out.extend(d)
        elif isinstance(d, dict):
            for v in d.values():
                walk(v)
    walk(rep.get("details", {}))
    return out


def oracle(case, r):
    """returns list of (message, finding-id|None)"""
    fmt, mode = case["fmt"], case["mode"]
    if "exc" in r:
        fid = None
        if fmt == "po" and r["exc"] == "TypeError":
            fid = "F2-po-tuple-keys"
        if fmt == "android" and r["exc"] == "TypeError" and any("sort" in w or "merge" in w for w in r.get("where", [])):
            fid = "F5-android-no-spans"
        return [("comparison with merge raised %s: %s at %s" % (r["exc"], r.get("msg"), r.get("where")), fid)]
    v = r["r"]
    bad = []
    if not v["inputs_unchanged"]:
        bad.append(("an input file was modified", None))
    root = v["root"]
    for ev in v["events"]:
        for p in ev[1:]:
            if p.startswith(root) and not p.startswith(os.path.join(root, "merge")) and ev[0] != "shutil.copyfile":
                bad.append(("write outside the merge path: %s" % ev, None))
            if ev[0] == "shutil.copyfile" and len(ev) >= 3 and not ev[2].startswith(os.path.join(root, "merge")):
                bad.append(("copy to a target outside the merge path: %s" % ev, None))
            if not p.startswith(root) and ev[0] not in ("shutil.copyfile",) and not p.startswith("/dev/"):
                bad.append(("file system write outside the test root: %s" % ev, None))
    for p in v["new_paths"]:
        if not p.startswith("merge"):
            bad.append(("new path outside the merge dir: %s" % p, None))
    merged = v["merged"]
    if mode == "add":
        expect_copy = fmt in ("properties", "dtd", "ini", "inc", "unknown")
        if expect_copy and not v.get("merged_is_ref"):
            bad.append(("missing file not staged from the reference", None))
        if not expect_copy and merged is not None:
            bad.append(("missing file of a skip-only format was staged (English would enter)", None))
        return bad
    if fmt == "unknown":
        if not v.get("merged_is_l10n"):
            bad.append(("file of unknown type not copied verbatim", None))
        return bad
    if not v.get("ref_clean", True):
        return [("PRECONDITION", None)]
    lp = v.get("l10n_parse") or {"entities": [], "junk": []}
    rp = v.get("ref_parse") or {"entities": [], "junk": []}
    lkeys = [keystr(e[0]) for e in lp["entities"]]
    if len(lkeys) != len(set(lkeys)):
        return [("PRECONDITION", None)]
    rkeys = [keystr(e[0]) for e in rp["entities"]]
    errkeys = {keystr(k) for k in v.get("l10n_error_keys", [])}
    lval = {keystr(e[0]): e[1] for e in lp["entities"]}
    rval = {keystr(e[0]): e[1] for e in rp["entities"]}
    clean = not lp["junk"] and not errkeys and all(k in lval for k in rkeys)
    if merged is None:
        bad.append(("no merge file was staged", None))
        return bad
    if fmt == "inc":
        if clean and not v["merged_is_l10n"]:
            bad.append(("clean .inc localization not staged as a byte copy", None))
        if not clean and not v["merged_is_ref"]:
            bad.append((".inc with problems not staged as a byte copy of the reference", None))
        return bad
    if clean and not v["merged_is_l10n"]:
        bad.append(("complete, clean localization not staged byte-identical", None))
    # root causes of recorded findings
    fid = None
    if fmt == "android" and any(call.get("skips") for call in v.get("merge_calls", [])[-1:]):
        fid = "F5-android-no-spans"      # something had to be cut out, and Android entries have no spans
    if fmt == "properties":
        for call in v.get("merge_calls", [])[-1:]:
            cont = call.get("contents") or ""
            body, off = [], 0
            for s0, e0, isj, ra in sorted([x for x in call.get("skips", []) if x[0] is not None], key=lambda x: x[0]):
                body.append(cont[off:s0])
                off = e0
            body.append(cont[off:])
            body = "".join(body)
            appended = bool(call.get("missing")) or any(not x[2] for x in call.get("skips", []))
            if appended and (len(body) - len(body.rstrip("\\"))) % 2 == 1:
                # the kept text ends in an odd run of backslashes: the appended newline is swallowed as a line continuation
                fid = "F4-properties-trailing-backslash"
    for call in v.get("merge_calls", [])[-1:]:
        cont = call.get("contents") or ""
        for s0, e0, isj, ra in call.get("skips", []):
            if s0 is not None and 0 < s0 < e0 <= len(cont) and cont[s0 - 1] != "\n" and cont[e0 - 1] == "\n" and e0 < len(cont):
                # the cut starts in the middle of a line and swallows its line end: the next line is fused to the previous text
                fid = fid or "F14-cut-fuses-lines"
    if fid is None and fmt in R.MERGEABLE:
        # the appended reference block is swallowed by an entry that starts in the kept localized text
        for call in v.get("merge_calls", [])[-1:]:
            cont = call.get("contents") or ""
            appended = bool(call.get("missing")) or any(not x[2] for x in call.get("skips", []))
            if appended:
                kept, off = 0, 0
                for s0, e0, isj, ra in sorted([x for x in call.get("skips", []) if x[0] is not None], key=lambda x: x[0]):
                    kept += max(0, s0 - off)
                    off = max(off, e0)
                kept += max(0, len(cont) - off)
                for e in (v.get("merged_parse") or {}).get("entities", []):
                    sp = e[3] if len(e) > 3 else None
                    if sp and sp[0] < kept < sp[1]:
                        fid = "F17-entry-spans-splice-boundary"
    if fid in ("F4-properties-trailing-backslash", "F14-cut-fuses-lines", "F17-entry-spans-splice-boundary"):
        # these findings are about what a CORRECT splice does to the parse; if the staged bytes are not the
        # specified splice (cut spans + "\n" + newline-terminated reference entries) it is a different defect
        for call in v.get("merge_calls", [])[-1:]:
            cont = call.get("contents") or ""
            body, off = [], 0
            for s0, e0, isj, ra in sorted([x for x in call.get("skips", []) if x[0] is not None], key=lambda x: x[0]):
                body.append(cont[off:s0])
                off = e0
            body.append(cont[off:])
            ens = lambda t: t if t.endswith("\n") else t + "\n"
            tr = ""
            if call.get("missing") or call.get("skips"):
                tr = "".join(ens(t) for t in ["\n"] + [m or "" for m in call.get("missing", [])] +
                             [ra or "" for s0, e0, isj, ra in sorted(call.get("skips", []), key=lambda x: (x[0] is None, x[0])) if not isj])
            spec = "".join(body) + tr
            if merged.encode("latin-1").decode("utf-8", "replace") != spec:
                fid = None
    if "report2_exc" in v:
        f2 = "F2-po-tuple-keys" if fmt == "po" else fid
        bad.append(("re-comparison of the staged file raised %s" % v["report2_exc"], f2))
        return bad
    rep2 = v.get("report2")
    mp = v.get("merged_parse") or {"entities": [], "junk": []}
    if case.get("expect") is not None:
        bad.extend(check_expect(case, v, merged, mp))
    s2 = summary_of(rep2) if rep2 else {}
    if mp["junk"] or any("Unparsed content" in str(d.get("error", "")) for d in flat_details(rep2 or {})):
        bad.append(("staged file has unparsed content: %r" % (mp["junk"][:1],), fid))
    if s2.get("errors", 0) > 0 and not mp["junk"]:
        errs = [d["error"] for d in flat_details(rep2) if "error" in d]
        bad.append(("staged file re-compares with errors: %r" % errs[:2], fid))
    mval = {}
    for e in mp["entities"]:
        mval.setdefault(keystr(e[0]), []).append(e[1])
    if fmt in R.MERGEABLE:
        if s2.get("missing", 0) > 0:
            bad.append(("staged file of a mergeable format still has missing strings", fid))
        for k in rkeys:
            exp = lval[k] if (k in lval and k not in errkeys) else rval[k]
            got = mval.get(k)
            if got is None:
                bad.append(("reference key %s absent from the staged file" % k, fid))
            elif got != [exp]:
                bad.append(("key %s staged with %r, expected %r" % (k, got, exp), fid))
    else:
        for k in lkeys:
            if k not in errkeys:
                if mval.get(k) != [lval[k]]:
                    bad.append(("error-free localized entry %s not kept (got %r)" % (k, mval.get(k)), fid))
        for k in mval:
            if k not in lval:
                bad.append(("skip-only format gained entry %s not in the localization" % k, fid))
            elif k in errkeys:
                bad.append(("entry %s with check errors was kept" % k, fid))
    return bad


def model_line(call):
    if call["contents"] is None:
        contents = ""
    else:
        contents = call["contents"]
    toks = ["merge", "1" if call["merge_file"] else "0", str(call["caps"]), C.enc(contents), str(len(call["skips"]))]
    for s, e, isj, ra in call["skips"]:
        toks += [str(-1 if s is None else s), str(-1 if e is None else e), "1" if isj else "0", C.enc(ra or "")]
    toks.append(str(len(call["missing"])))
    for m in call["missing"]:
        toks.append(C.enc(m or ""))
    return " ".join(toks)


def expected_model(case, v, call):
    """what the real run staged, in the canonical form of the model's Outcome"""
    merged = v["merged"]
    if merged is None:
        return "nothing"
    mb = merged.encode("latin-1")
    l10b = None if case["l10n"] is None else case["l10n"].encode("utf-8")
    refb = case["ref"].encode("utf-8")
    if l10b is not None and mb == l10b:
        return "copy-l10n"
    if mb == refb:
        return "copy-ref"
    if l10b is not None and mb.startswith(l10b) and not call["skips"]:
        return "copy-l10n+ " + C.enc(mb[len(l10b):].decode("utf-8", "replace"))
    return "written " + C.enc(mb.decode("utf-8", "replace"))


def run(ctx):
    out = Outcome()
    out.rule = ("per format: clean reference printed from 1-6 records (some with printf/XML/attribute-bearing values); localization derived by "
                "keep/re-value/break/drop/reorder/obsolete edits, optional junk line, 20% additionally with 1-2 raw character mutations; "
                "plus missing-file and unknown-type cases; non-trivial = the merge call had at least one skip or missing entry; distinct = "
                "distinct (format, staged bytes)")
    cases = gen_cases(ctx)
    res = pool.pmap("impl.merge", "impl_compare_merge",
                    [[c["fmt"], c["ref"], c["l10n"], c["mode"]] for c in cases], timeout=10.0, batch=8)
    lines, expect, idx = [], [], []
    for i, (c, r) in enumerate(zip(cases, res)):
        out.evaluations += 1
        out.count("%s.%s" % (c["fmt"], c["tag"]))
        bad = oracle(c, r)
        if bad and bad[0][0] == "PRECONDITION":
            out.count("precondition-not-met")
            continue
        for msg, fid in bad[:3]:
            out.violations.append({"what": "%s: %s" % (c["fmt"], msg), "input": c, "finding": fid})
            out.count("violation." + (fid or "NEW"))
        if "r" in r:
            v = r["r"]
            calls = v["merge_calls"]
            if calls and (calls[-1]["skips"] or calls[-1]["missing"]):
                out.nontrivial.add((c["fmt"], v["merged"]))
            if calls and not bad and all(x is not None for call in calls[-1:] for x in call["missing"]):
                call = calls[-1]
                if c["mode"] == "compare" and c["fmt"] != "unknown" and c["fmt"] != "inc" and call["contents"] is not None:
                    lines.append(model_line(call))
                    expect.append(expected_model(c, v, call))
                    idx.append(i)
            if len(out.samples) < 8 and calls and calls[-1]["skips"] and calls[-1]["missing"] and not bad:
                out.samples.append({"fmt": c["fmt"], "ref": c["ref"], "l10n": c["l10n"], "staged": v["merged"]})
    model = C.run_driver_parallel(lines) if (ctx.model_ok and lines) else []
    for l, e, m, i in zip(lines, expect, model, idx):
        if e != m:
            # "written X" where X == contents+trailing can also be a copy+append; compare by staged bytes
            def staged(o):
                if o.startswith("written "):
                    return C.dec(o[8:])
                if o.startswith("copy-l10n+ "):
                    return cases[i]["l10n"] + C.dec(o[11:])
                if o == "copy-l10n":
                    return cases[i]["l10n"]
                if o == "copy-ref":
                    return cases[i]["ref"]
                return o
            if staged(e) != staged(m):
                out.disagreements.append({"op": "merge", "case": cases[i], "impl": e[:300], "model": m[:300]})
    out.contracts["merge_model_replays"] = len(lines)
    return out


def classify(v):
    return v.get("finding")


def replay(payload):
    res = []
    for v in payload.get("violations", []):
        c = v["input"]
        r = pool.pmap("impl.merge", "impl_compare_merge", [[c["fmt"], c["ref"], c["l10n"], c["mode"]]], timeout=20.0)[0]
        res.append({"input": c, "oracle": [m for m, _ in oracle(c, r) if m != "PRECONDITION"]})
    return {"violates": any(r["oracle"] for r in res), "cases": res}

"""C01 — Parsing is total, terminating and lossless for every text format."""
import itertools

from lib import common as C
from lib import pool, rxval
from lib.runner import Outcome

ID = "C01"
LEAN_TARGETS = ["CLModel.Props.C01"]
M = "CLModel.Props.C01"
THEOREMS = [
    (M, "C01.walk_lossless_properties", "properties: walk terminates, entries tile the text, concatenation of `all` = input (all texts)"),
    (M, "C01.walk_lossless_dtd", "dtd: same; only a leading BOM is dropped"),
    (M, "C01.walk_lossless_ini", "ini: same"),
    (M, "C01.walk_lossless_inc", "inc: same (for every value of the filter_empty_lines context)"),
    (M, "C01.walk_lossless_po", "po: same"),
    (M, "C01.fluent_lossless", "fluent: under BodyContract (spans increasing, disjoint, inside the text) the walk is lossless"),
    (M, "C01.localizable_is_filter", "the localizable-only view is exactly the entity and junk entries of the full view"),
    (M, "C01.fluent_localizable_is_filter", "fluent: the localizable-only view is the entity and junk entries of the full view"),
    (M, "C01.val_inside_fmt", "every entity's value span lies inside the entity, except the two degenerate encodings stated per format (inc: absent group (-1,-1); DTD: lone quote (p+1,p))"),
    (M, "C01.val_inside", "format-independent union of the above"),
    (M, "C01.key_inside", "every entity's key span lies inside its own span (all five regex formats)"),
]
LEVEL_TEXT = ("Lean 4 theorems, for ALL texts with no length bound: the walk of each of the five regex parsers terminates, its entries tile "
              "the text and their concatenation is the input (DTD: minus a leading BOM); the localizable view is the entity+junk filter; "
              "entity key spans lie inside the entity; the Fluent walk is lossless under the monitored span contract of fluent.syntax. "
              "The theorems are stated over regexes regenerated from /repo on every run, so a regex edit re-proves or breaks them; the "
              "hand-written control-flow model is tied to the Python by bounded-exhaustive token sequences and random texts")
LEVEL_NOTE = ("trusted: Lean kernel; Rx = CPython re on the audited subset (validated every run); translator; hand-written getNext/walk "
              "models (correspondence); fluent.syntax body spans are an input with a monitored contract; texts with carriage returns are outside the property")
TECHNIQUE = "Lean 4 proof (progress + tiling invariant over regenerated regexes) + differential correspondence with the Python parsers"
PARTIAL = [
    "fluent_lossless is conditional on the contract of the external fluent.syntax parser (monitored on every run)",
]
TRUSTED = [
    "hand-written models CLModel/Parser/{Base,Formats,Fluent}.lean of Parser.walk/getNext/getJunk and the per-format overrides (tied by the `parse`/`parse.loc`/`fluentwalk` correspondence)",
    "regexes are regenerated from /repo by the translator on every run",
    "fluent.syntax body spans are an input of the Fluent model (contract monitored)",
]
ASSUMPTIONS = ["texts contain no carriage returns (as the property states); a separate informational stream with \\r is not judged"]

ALPHA = {
    "properties": ["a", "key", "=", ":", " ", "\t", "\n", "\\", "#", "!", "# License", "\\u0041", "\\\n", "v", "é", "\n\n"],
    "dtd": ["<!ENTITY", " ", "a", "\"", "'", ">", "<!--", "-->", "-", "\n", "%", "SYSTEM", ";", "﻿", "License", "&", "k", "<!ENTITY a \"b\">"],
    "ini": ["[", "]", "=", "a", ";", "#", "\n", " ", "License", "\n\n", "[Strings]", "k=v"],
    "inc": ["#define", " ", "a", "\n", "# ", "#", "\n\n", "#filter emptyLines", "#unfilter emptyLines", "\t", "x y", "License", "#define k v"],
    "po": ["msgid", "msgctxt", "msgstr", " ", "\"", "a", "\\", "\n", "#", "\\\"", "\"\"", "\"x\"", "\n\n", "n", "msgid \"a\"\nmsgstr \"b\"\n"],
    "ftl": ["a", " ", "=", "\n", "#", "-", ".", "{", "}", "$", "\t", "*[", "]", "->", "##", "\n\n", "é", "k = v\n"],
}
FORMATS = ["properties", "dtd", "ini", "inc", "po", "ftl"]
ODD = ["\x00", " ", "\x0b", "\x0c", "\x85", "\U0001F600", "�", " ", "\x1c", "﻿", "̀", "\xb7", "Ⰰ"]


def gen_texts(ctx, fmt):
    rng = ctx.rng("c01", fmt)
    alpha = ALPHA[fmt]
    L = 3 if ctx.tier == "quick" else 4
    texts = []
    for n in range(L + 1):
        for toks in itertools.product(alpha, repeat=n):
            texts.append("".join(toks))
    exhaustive = len(texts)
    # sampled longer token sequences
    for _ in range(ctx.n(5000, 60000)):
        n = rng.randrange(3, 9)
        texts.append("".join(rng.choice(alpha) for _ in range(n)))
    # tokens mixed with arbitrary code points
    for _ in range(ctx.n(2500, 20000)):
        n = rng.randrange(1, 10)
        parts = []
        for _ in range(n):
            r = rng.random()
            if r < 0.6:
                parts.append(rng.choice(alpha))
            elif r < 0.8:
                parts.append(rng.choice(ODD))
            else:
                c = rng.randrange(0x20, 0x3000)
                parts.append(chr(c))
        texts.append("".join(parts))
    texts = [t for t in texts if "\r" not in t and not any(0xD800 <= ord(c) <= 0xDFFF for c in t)]
    return texts, exhaustive


def oracle(fmt, text, r):
    """property oracle on the implementation's own objects; returns None or a message"""
    if r.get("exc") == "Hang":
        return "parsing does not terminate"
    if "exc" in r:
        return "parsing raised %s: %s" % (r["exc"], r.get("msg"))
    v = r["r"]
    if v["canon"].startswith("runaway"):
        return "walk yields more entries than characters (does not terminate)"
    expected = text[1:] if (fmt == "dtd" and text.startswith("﻿")) else text
    if "".join(v["alls"]) != expected:
        return "concatenated entry texts differ from the input"
    if not v["inside"]:
        return "an entity's key or value lies outside its own text"
    full = v["canon"].split(" | ")[1:]
    locf = [e for e in full if e[0] in "EJ"]
    if locf != v["loc"]:
        return "localizable-only view is not the entity+junk entries of the full view"
    return None


def classify(v):
    return v.get("finding")


def finding_of(fmt, text, msg):
    # root-cause predicates of recorded findings (see known_findings.json)
    if fmt == "po" and ("terminate" in msg):
        return "F1-po-zero-width-junk"
    if fmt == "ftl" and "concatenated" in msg:
        return "F3-fluent-whitespace-only-junk"
    return None


def run(ctx):
    out = Outcome()
    out.rule = ("per format: every token sequence over the format's alphabet up to length 3 (quick) / 4 (thorough) exhaustively, "
                "plus seeded random sequences of 3-8 tokens and sequences mixing tokens with arbitrary code points; "
                "non-trivial = the parse contains at least one entity or junk entry; distinct = distinct (format, canonical parse)")
    # regex semantics first: everything below rests on it
    out.merge(rxval.validate(ctx, per_pattern=ctx.n(60, 1500), random_patterns=ctx.n(60, 2000)))
    for fmt in FORMATS:
        texts, exhaustive = gen_texts(ctx, fmt)
        out.count("%s.cases" % fmt, len(texts))
        out.count("%s.exhaustive" % fmt, exhaustive)
        if fmt == "ftl":
            res = pool.pmap("impl.parse", "impl_fluent", [[t] for t in texts], timeout=3.0)
        else:
            res = pool.pmap("impl.parse", "impl_parse_full", [[fmt, t] for t in texts], timeout=3.0)
        lines = []
        for t, r in zip(texts, res):
            if fmt == "ftl":
                body = r["r"]["body"] if "r" in r else ""
                lines.append("fluentwalk 0 %s %s" % (C.enc(t), body))
            else:
                lines.append("parse %s %s" % (fmt, C.enc(t)))
        model = C.run_driver_parallel(lines) if ctx.model_ok else [None] * len(lines)
        loclines = [("fluentwalk 1" + l[len("fluentwalk 0"):]) if fmt == "ftl" else ("parse.loc" + l[len("parse"):]) for l in lines]
        modelloc = C.run_driver_parallel(loclines) if ctx.model_ok else [None] * len(lines)
        for t, r, mo, mloc in zip(texts, res, model, modelloc):
            out.evaluations += 1
            bad = oracle(fmt, t, r)
            if "r" in r:
                canon = r["r"]["canon"]
                if " | E" in canon or " | J" in canon:
                    out.nontrivial.add((fmt, canon))
                if fmt == "ftl" and not r["r"]["contract"]:
                    out.count("ftl.contract_violations")
                    out.disagreements.append({"op": "fluent-contract", "text": t})
            else:
                canon = r.get("exc")
            if bad:
                out.violations.append({"what": "%s: %s" % (fmt, bad), "input": {"fmt": fmt, "text": t},
                                       "finding": finding_of(fmt, t, bad)})
                out.count("%s.violations" % fmt)
            elif mo is not None and mo != canon:
                out.disagreements.append({"op": "parse", "fmt": fmt, "text": t, "impl": canon, "model": mo})
            elif mloc is not None and "r" in r and mloc != " | ".join(["done"] + r["r"]["loc"]):
                out.disagreements.append({"op": "parse.loc", "fmt": fmt, "text": t, "impl": r["r"]["loc"], "model": mloc})
            if len(out.samples) < 12 and len(t) > 12 and " | J" in str(canon) and out.distribution.get("sampled." + fmt, 0) < 2:
                out.count("sampled." + fmt)
                out.samples.append({"fmt": fmt, "text": t, "parse": canon})
    out.contracts["fluent_body_contract_checked"] = out.distribution.get("ftl.cases", 0)
    return out


def replay(payload):
    from impl import parse
    res = []
    for v in payload.get("violations", []):
        i = v["input"]
        r = pool.pmap("impl.parse", "impl_fluent" if i["fmt"] == "ftl" else "impl_parse_full",
                      [[i["text"]] if i["fmt"] == "ftl" else [i["fmt"], i["text"]]], timeout=5.0)[0]
        res.append({"input": i, "oracle": oracle(i["fmt"], i["text"], r)})
    return {"violates": any(r["oracle"] for r in res), "cases": res}

"""C01 — Parsing is total, terminating and lossless for every text format."""
import itertools

from lib import common as C
from lib import pool, rxval
from lib.runner import Outcome
from gen import histories as H

ID = "C01"
LEAN_TARGETS = ["CLModel.Props.C01"]
M = "CLModel.Props.C01"
THEOREMS = [
    (M, "C01.walk_lossless_properties", "properties: walk terminates, entries tile the text, concatenation of `all` = input (all texts)"),
    (M, "C01.walk_lossless_dtd", "dtd: same; only a leading BOM is dropped"),
    (M, "C01.walk_lossless_ini", "ini: same"),
    (M, "C01.walk_lossless_inc", "inc: same (for every value of the filter_empty_lines context)"),
    (M, "C01.walk_lossless_po", "po: same"),
    (M, "C01.fluent_lossless", "fluent: under BodyContract (spans increasing, disjoint, inside the text) the walk is lossless"),
    (M, "C01.localizable_is_filter", "the localizable-only view is exactly the entity and junk entries of the full view"),
    (M, "C01.fluent_localizable_is_filter", "fluent: the localizable-only view is the entity and junk entries of the full view"),
    (M, "C01.val_inside_fmt", "every entity's value span lies inside the entity, except the two degenerate encodings stated per format (inc: absent group (-1,-1); DTD: lone quote (p+1,p))"),
    (M, "C01.val_inside", "format-independent union of the above"),
    (M, "C01.key_inside", "every entity's key span lies inside its own span (all five regex formats)"),
    # round 4
    (M, "C01.localizable_view_eq_filter", "all texts, per regex format: walk() and list(parser) both terminate and list(parser) is exactly the Entity/Junk entries of walk() (each on a fresh context)"),
    (M, "C01.ctx_localizable_is_filter", "for a context in ANY state of filter_empty_lines: the two views agree and leave the same state"),
    (M, "C01.sess_walk_then_iter", "readUnicode; walk(); list(parser) on ONE object, all five formats, all texts: the second result is the Entity/Junk entries of the first (DefinesParser.walk resets filter_empty_lines at walk start)"),
    (M, "C01.sess_iter_then_walk", "the other order: list(parser) then walk() on one context"),
    (M, "C01.sess_read_resets", "readUnicode always starts from a fresh context"),
    (M, "C01.sess_noctx", "walk()/iter() of a parser without context yield nothing"),
    (M, "C01.dead_base_late_whitespace", "base.py:417 (late `return white_space` of Parser.getNext) is dead: any value there gives the same function"),
    (M, "C01.dead_props_late_whitespace", "properties.py:107 is dead"),
    (M, "C01.dead_defines_late_whitespace", "defines.py:91 is dead"),
    (M, "C01.fluentC_lossless", "fluent: for every text and every fluent.syntax body satisfying the decidable contract contractB the walk (reading entry.content) is lossless; no side hypothesis left"),
    (M, "C01.fluentC_chain", "fluent: the entries form a gap-free, overlap-free chain over [0, len) (nothing duplicated or reordered)"),
    (M, "C01.fluentC_inside", "fluent: every entity's key lies inside its text, and so does its value unless it has none"),
    (M, "C01.fluentC_localizable_is_filter", "fluent: list(parser) = Entity/Junk entries of walk()"),
    # round 5: walk()/iter() as generator objects of one parser object
    (M, "C01.partial_walk_leaves_context", "no operation on a generator object (create, k x next, list, close/abandon) changes parser.ctx or the contents of any Context; for properties/dtd/ini/po the Context objects are not written at all (inc: only filter_empty_lines)"),
    (M, "C01.passes_leave_context", "the same for any history of generator operations"),
    (M, "C01.walk_after_partial_is_fresh", "a COMPLETE pass on a parser object in ANY state (any suspended/abandoned generators, any filter_empty_lines left behind) shows exactly what a fresh parser shows for the current contents, both views, all five formats, all texts"),
    (M, "C01.gen_noctx", "a pass of a parser without context shows nothing, in any state"),
    (M, "C01.complete_pass_after_any_history", "after ANY history (reads, passes created/partially consumed/interleaved/drained/closed) a complete pass shows the fresh parse of the text of the last readUnicode"),
    (M, "C01.partial_pass_is_prefix", "a pass abandoned after k entries shows exactly the first k entries of the complete pass (all of them + StopIteration when there are fewer); resuming it shows exactly the remaining suffix"),
    (M, "C01.next_shows_front_of_remaining", "k x next(g) shows the front of what remained of g and leaves the rest"),
    (M, "C01.list_shows_remaining", "list(g) shows all that remained of g and always ends"),
    (M, "C01.interleaved_walks_independent", "properties/dtd/ini/po: what remains of a generator is unchanged by every operation on other generators (inc shares filter_empty_lines: decide witness)"),
    (M, "C01.parser_regexes_safe", "DECIDED on the regenerated regexes: every repeat of every parser regex has a body with at most one outcome per state (no ambiguous nested quantifier); DTDParser.rePE is outside the criterion"),
    (M, "C01.parser_regex_steps_poly", "PROVED: for those regexes the backtracking search tree of one match attempt has at most cC*(len+2)^dC nodes (dC <= 5; PoParser.reListItem: 18*(len+2)^2)"),
    (M, "C01.parser_regex_match_poly", "PROVED: the step-counting copy of the engine returns what matchAt returns and makes at most cC*(len+2)^dC calls"),
]
LEVEL_TEXT = ("Lean 4 theorems, for ALL texts with no length bound: the walk of each of the five regex parsers terminates, its entries tile "
              "the text and their concatenation is the input (DTD: minus a leading BOM); both views exist and the localizable view is the "
              "entity+junk filter of the full view for a context in any state (also for a second walk of the same context: "
              "DefinesParser.walk resets filter_empty_lines when a walk starts); entity key and value spans "
              "lie inside the entity; the Fluent walk (reading entry.content) is lossless, a gap-free chain, and has its keys/values inside "
              "for every fluent.syntax body satisfying the decidable contract contractB, which the model evaluates on every generated input; "
              "walk()/iter() are modelled as generator objects of one parser object (heap of Context objects, parser.ctx, suspended generators): "
              "a complete pass in ANY object state — after any history of partial, abandoned, resumed, interleaved passes and re-reads — shows "
              "the fresh parse of the text last read, a pass abandoned after k entries shows exactly its first k entries and resuming shows "
              "the rest, generator operations never write a Context (inc: only filter_empty_lines, reset when a pass starts); "
              "three dead branches of getNext are proved dead; every repeat of 21 of the 22 parser regexes is proved unambiguous per "
              "iteration (decided on the regenerated regexes), which bounds the backtracking search tree of a match attempt by "
              "cC*(len+2)^dC with dC <= 5 (proved, also for a step-counting copy of the engine). "
              "The theorems are stated over regexes regenerated from /repo on every run, so a regex edit re-proves or breaks them; the "
              "hand-written control-flow model is tied to the Python by bounded-exhaustive token sequences, random texts, composite tokens "
              "reaching every live line of getNext/getJunk/createEntity/walk, call sequences on one parser object, and histories of generator "
              "objects (passes abandoned after 0, 1, 2, half, all-1, all entries by next/break/zip/islice/close, parse() and key lookups, "
              "readContents/readFile, explicit interleaving), each judged by construction against a fresh parser object")
LEVEL_NOTE = ("trusted: Lean kernel; Rx = CPython re on the audited subset (validated every run); translator; hand-written getNext/walk "
              "models (correspondence); fluent.syntax body spans and junk contents are an input with a monitored decidable contract; the step "
              "bound is about the model engine Rx.m, not about CPython's sre; texts with carriage returns are outside the property")
TECHNIQUE = "Lean 4 proof (progress + tiling invariant over regenerated regexes) + differential correspondence with the Python parsers"
PARTIAL = [
    "fluentC_* are conditional on the contract of the external fluent.syntax parser, now the decidable predicate C01M.contractB evaluated by the model on every generated input and compared with an independent Python evaluation",
    "complexity guard: the criterion Safe is decided for 21 of the 22 parser regexes; DTDParser.rePE (trailing `(?:comment ws*)*`) is outside it (only its repeat nesting depth is pinned); the bound is about `steps`/`matchAtT` (proved equal in result to the engine), not about CPython's sre",
]
TRUSTED = [
    "hand-written models CLModel/Parser/{Base,Formats,Fluent}.lean of Parser.walk/getNext/getJunk and the per-format overrides (tied by the `parse`/`parse.loc`/`fluentwalk` correspondence)",
    "regexes are regenerated from /repo by the translator on every run",
    "fluent.syntax body spans and junk contents are an input of the Fluent model (contract contractB monitored)",
    "CLModel/Parser/C01Sess.lean: parser object over call sequences (tied by `c01.sess`), Fluent walk reading entry.content (tied by `c01.fluentc`)",
    "CLModel/Parser/C01Gen.lean: walk()/iter() as generator objects (heap of Context objects, parser.ctx, suspended generators), tied by `c01.gen` on histories with partial, abandoned, resumed, interleaved passes and re-reads",
]
ASSUMPTIONS = ["texts contain no carriage returns (as the property states); a separate informational stream with \\r is not judged"]

ALPHA = {
    "properties": ["a", "key", "=", ":", " ", "\t", "\n", "\\", "#", "!", "# License", "\\u0041", "\\\n", "v", "é", "\n\n"],
    "dtd": ["<!ENTITY", " ", "a", "\"", "'", ">", "<!--", "-->", "-", "\n", "%", "SYSTEM", ";", "﻿", "License", "&", "k", "<!ENTITY a \"b\">"],
    "ini": ["[", "]", "=", "a", ";", "#", "\n", " ", "License", "\n\n", "[Strings]", "k=v"],
    "inc": ["#define", " ", "a", "\n", "# ", "#", "\n\n", "#filter emptyLines", "#unfilter emptyLines", "\t", "x y", "License", "#define k v"],
    "po": ["msgid", "msgctxt", "msgstr", " ", "\"", "a", "\\", "\n", "#", "\\\"", "\"\"", "\"x\"", "\n\n", "n", "msgid \"a\"\nmsgstr \"b\"\n"],
    "ftl": ["a", " ", "=", "\n", "#", "-", ".", "{", "}", "$", "\t", "*[", "]", "->", "##", "\n\n", "é", "k = v\n"],
}
FORMATS = ["properties", "dtd", "ini", "inc", "po", "ftl"]
# round 4: composite tokens that drive the lines the alphabets above never reached
EXTRA = {
    "properties": ["k=v\\\n  w", "# License\n", "#c\n\n\nk=v", "k = v \n"],
    "dtd": ["<!ENTITY % foo SYSTEM \"u\"> %foo;", "<!ENTITY % f SYSTEM 'u'>%f; <!--c-->\n", "<!--c-->", "<!ENTITY a '>",
            "<!-- License -->", "<!ENTITY % foo SYSTEM \"u\">"],
    "ini": ["[S]\n", "; c\n\nk=v", "k=v\n", "; License\n"],
    "inc": ["#filter emptyLines\n", "#unfilter emptyLines\n", "# c\n\n", "# c\n", "#define k\n", "\n\n\n", "#a b"],
    "po": ['msgctxt "c"\n', 'msgid "a\\n"\n', 'msgstr "b"\n"c"', "#: x\n", 'msgid ""', 'msgstr ""\n'],
    "ftl": ["k =\n .a = v\n", "\x0c\n", "\u00a0x\u00a0\n", "-t = x\n", "# c\n", "\x0b", "\u2003", "\u3000\n", "\x85"],
}
ODD = ["\x00", " ", "\x0b", "\x0c", "\x85", "\U0001F600", "�", " ", "\x1c", "﻿", "̀", "\xb7", "Ⰰ"]


def gen_texts(ctx, fmt):
    rng = ctx.rng("c01", fmt)
    alpha = ALPHA[fmt]
    L = 3 if ctx.tier == "quick" else 4
    texts = []
    for n in range(L + 1):
        for toks in itertools.product(alpha, repeat=n):
            texts.append("".join(toks))
    exhaustive = len(texts)
    # sampled longer token sequences
    for _ in range(ctx.n(5000, 60000)):
        n = rng.randrange(3, 9)
        texts.append("".join(rng.choice(alpha) for _ in range(n)))
    # tokens mixed with arbitrary code points
    for _ in range(ctx.n(2500, 20000)):
        n = rng.randrange(1, 10)
        parts = []
        for _ in range(n):
            r = rng.random()
            if r < 0.6:
                parts.append(rng.choice(alpha))
            elif r < 0.8:
                parts.append(rng.choice(ODD))
            else:
                c = rng.randrange(0x20, 0x3000)
                parts.append(chr(c))
        texts.append("".join(parts))
    texts = [t for t in texts if "\r" not in t and not any(0xD800 <= ord(c) <= 0xDFFF for c in t)]
    return texts, exhaustive


# texts on which an ambiguous nested quantifier in a parser regex needs exponential time (linear for the real
# regexes): a long run of the repeated class followed by a character that makes the match fail
STRESS = {
    "properties": ["k=" + "\\" * 41, "k" + " " * 40 + "x", "#" + "a" * 40, "k=v" + " " * 40 + "x"],
    "dtd": ['<!ENTITY a "' + "b" * 40, "<!--" + "-a" * 30 + "--", "<!ENTITY " + "a" * 40 + "<", "<!ENTITY a 'b'" + " " * 40 + "x"],
    "ini": ["a" * 40, "[" + "a" * 40, ";" + "a" * 40 + "\n" + "a" * 40],
    "inc": ["#define " + "a" * 40 + "\x00", "# " + "a" * 40, "#" + "a" * 40, "#define" + " " * 40 + "\n"],
    "po": ['msgid "' + "a" * 40 + "\\x", 'msgid ""' + " " * 40 + "x", "#" + "a" * 40, 'msgid "' + "\\\\" * 20 + "\\"],
    "ftl": ["a = " + "{" * 20, "\x0c" * 40 + "\n", " " * 40 + "x\n" + " " * 40],
}


def gen_extra(ctx, fmt):
    """round 4: sequences that contain at least one composite token of EXTRA[fmt] (exhaustive up to length 2,
    all triples of composite tokens, seeded random longer ones)"""
    rng = ctx.rng("c01x", fmt)
    alpha, extra = ALPHA[fmt], EXTRA[fmt]
    both = alpha + extra
    texts = list(extra)
    for a in both:
        for b in both:
            if a in extra or b in extra:
                texts.append(a + b)
    for toks in itertools.product(extra, repeat=3):
        texts.append("".join(toks))
    for _ in range(ctx.n(600, 8000)):
        n = rng.randrange(3, 7)
        toks = [rng.choice(both) for _ in range(n)]
        toks[rng.randrange(n)] = rng.choice(extra)
        texts.append("".join(toks))
    texts += STRESS[fmt]
    seen, out = set(), []
    for t in texts:
        if t not in seen and "\r" not in t:
            seen.add(t)
            out.append(t)
    return out


def filt(canon):
    """Entity/Junk entries of one canonical walk"""
    return [e for e in canon.split(" | ")[1:] if e[0] in "EJ"]


def session_oracle(fmt, cmds, r, fresh_loc):
    """property oracle on call sequences of ONE parser object; returns (message, finding) or None.
    Only what the property states: no entries without a context; the localizable view of a context is the
    Entity/Junk entries of the full view of that context."""
    if "exc" in r:
        return ("parser session raised %s: %s" % (r["exc"], r.get("msg")), None)
    walks = r["r"]["walks"]
    wi = 0
    have_ctx = False
    last_read = None
    since_read = []
    for c in cmds:
        if c[0] == "R":
            have_ctx, last_read, since_read = True, c[1], []
            continue
        w = walks[wi]
        wi += 1
        if w["canon"].startswith("runaway"):
            return ("walk yields more entries than characters (does not terminate)", None)
        if not have_ctx and w["n"]:
            return ("a parser without a loaded context yields entries", None)
        if have_ctx and last_read == "" and w["n"]:
            return ("an empty text yields entries", None)
        if have_ctx and not w["loc"]:
            expected = last_read[1:] if (fmt == "dtd" and last_read.startswith("\ufeff")) else last_read
            if w["joined"] != expected:
                return ("concatenated entry texts of a walk differ from the text last read", None)
        since_read.append(w)
        if len(since_read) == 2 and since_read[0]["loc"] != since_read[1]["loc"]:
            full = since_read[0] if not since_read[0]["loc"] else since_read[1]
            loc = since_read[1] if not since_read[0]["loc"] else since_read[0]
            if filt(full["canon"]) != loc["canon"].split(" | ")[1:]:
                # (this was finding C01-inc-filter-state-leaks-between-walks, fixed in /repo 0f5119c: a regression is a fresh violation)
                return ("localizable-only view of a context is not the entity+junk entries of the full view of the same context "
                        "(second walk of one readUnicode)", None)
    return None


_fresh_cache = {}      # (fmt, text) -> (Entity/Junk entries of the full view, localizable view), both on fresh contexts


def oracle(fmt, text, r):
    """property oracle on the implementation's own objects; returns None or a message"""
    if r.get("exc") == "Hang":
        return "parsing does not terminate"
    if "exc" in r:
        return "parsing raised %s: %s" % (r["exc"], r.get("msg"))
    v = r["r"]
    if v["canon"].startswith("runaway"):
        return "walk yields more entries than characters (does not terminate)"
    expected = text[1:] if (fmt == "dtd" and text.startswith("﻿")) else text
    if "".join(v["alls"]) != expected:
        return "concatenated entry texts differ from the input"
    if not v["inside"]:
        return "an entity's key or value lies outside its own text"
    full = v["canon"].split(" | ")[1:]
    locf = [e for e in full if e[0] in "EJ"]
    if locf != v["loc"]:
        return "localizable-only view is not the entity+junk entries of the full view"
    return None


def classify(v):
    return v.get("finding")


def finding_of(fmt, text, msg):
    # (round 4: the session stream computes its own finding id, see session_oracle)
    # root-cause predicates of recorded findings (see known_findings.json)
    if fmt == "po" and ("terminate" in msg):
        return "F1-po-zero-width-junk"
    if fmt == "ftl" and "concatenated" in msg:
        return "F3-fluent-whitespace-only-junk"
    return None


def run(ctx):
    out = Outcome()
    out.rule = ("per format: every token sequence over the format's alphabet up to length 3 (quick) / 4 (thorough) exhaustively, "
                "plus seeded random sequences of 3-8 tokens and sequences mixing tokens with arbitrary code points; "
                "non-trivial = the parse contains at least one entity or junk entry; distinct = distinct (format, canonical parse)")
    # regex semantics first: everything below rests on it
    out.merge(rxval.validate(ctx, per_pattern=ctx.n(60, 1500), random_patterns=ctx.n(60, 2000)))
    sess_texts = {}
    hist_texts = {}
    for fmt in FORMATS:
        texts, exhaustive = gen_texts(ctx, fmt)
        extra = gen_extra(ctx, fmt)
        out.count("%s.cases" % fmt, len(texts))
        out.count("%s.exhaustive" % fmt, exhaustive)
        out.count("%s.extra" % fmt, len(extra))
        main_n = len(texts)
        texts = texts + extra
        if fmt != "ftl":
            pick = [t for i, t in enumerate(texts[:main_n]) if t and (i % 12 == 0 or (fmt == "inc" and "filter" in t and i % 2 == 0))]
            sess_texts[fmt] = pick[:ctx.n(1500, 20000)] + [t for t in extra if t not in STRESS[fmt]]
        if fmt == "ftl":
            res = pool.pmap("impl.parse", "impl_fluent_c", [[t] for t in texts], timeout=3.0)
        else:
            res = pool.pmap("impl.parse", "impl_parse_full", [[fmt, t] for t in texts], timeout=3.0)
        lines = []
        for t, r in zip(texts, res):
            if fmt == "ftl":
                body = r["r"]["body"] if "r" in r else ""
                lines.append("fluentwalk 0 %s %s" % (C.enc(t), body))
            elif r.get("exc") == "Hang":
                lines.append("parse %s %s" % (fmt, C.enc("")))     # the model would need the same exponential time
            else:
                lines.append("parse %s %s" % (fmt, C.enc(t)))
        model = C.run_driver_parallel(lines) if ctx.model_ok else [None] * len(lines)
        loclines = [("fluentwalk 1" + l[len("fluentwalk 0"):]) if fmt == "ftl" else ("parse.loc" + l[len("parse"):]) for l in lines]
        modelloc = C.run_driver_parallel(loclines) if ctx.model_ok else [None] * len(lines)
        if fmt == "ftl" and ctx.model_ok:
            # round 4: the walk that reads entry.content, with the contract evaluated by the model
            clines = ["c01.fluentc %d %s %s" % (l, C.enc(t), r["r"]["bodyc"] if "r" in r else "")
                      for t, r in zip(texts, res) for l in (0, 1)]
            cres = C.run_driver_parallel(clines)
            for i, (t, r) in enumerate(zip(texts, res)):
                if "r" not in r:
                    continue
                v = r["r"]
                want0 = " | ".join(["contract=%d" % (1 if v["contract2"] else 0)] + v["canon"].split(" | ")[1:])
                want1 = " | ".join(["contract=%d" % (1 if v["contract2"] else 0)] + v["loc"])
                out.count("ftl.fluentc")
                if not v["contract2"]:
                    out.count("ftl.contract_violations")
                    out.disagreements.append({"op": "fluent-contract2", "text": t})
                elif cres[2 * i] != want0 or cres[2 * i + 1] != want1:
                    out.disagreements.append({"op": "c01.fluentc", "text": t, "impl": [want0, want1],
                                              "model": [cres[2 * i], cres[2 * i + 1]]})
        if fmt != "ftl":
            for t, r in zip(texts, res):
                if "r" in r:
                    _fresh_cache[(fmt, t)] = (filt(r["r"]["canon"]), r["r"]["loc"])
        # round 5: texts for the history stream, with the number of entries of their two views
        cnt = {}
        for t, r in zip(texts, res):
            if "r" in r and not r["r"]["canon"].startswith("runaway") and t and t not in STRESS[fmt]:
                cnt[t] = (r["r"]["canon"].count(" | "), len(r["r"]["loc"]))
        hist_texts[fmt] = (texts[:main_n], extra, cnt)
        for t, r, mo, mloc in zip(texts, res, model, modelloc):
            out.evaluations += 1
            bad = oracle(fmt, t, r)
            if "r" in r:
                canon = r["r"]["canon"]
                if " | E" in canon or " | J" in canon:
                    out.nontrivial.add((fmt, canon))
                if fmt == "ftl" and not r["r"]["contract"]:
                    out.count("ftl.contract_violations")
                    out.disagreements.append({"op": "fluent-contract", "text": t})
            else:
                canon = r.get("exc")
            if bad:
                out.violations.append({"what": "%s: %s" % (fmt, bad), "input": {"fmt": fmt, "text": t},
                                       "finding": finding_of(fmt, t, bad)})
                out.count("%s.violations" % fmt)
            elif mo is not None and mo != canon:
                out.disagreements.append({"op": "parse", "fmt": fmt, "text": t, "impl": canon, "model": mo})
            elif mloc is not None and "r" in r and mloc != " | ".join(["done"] + r["r"]["loc"]):
                out.disagreements.append({"op": "parse.loc", "fmt": fmt, "text": t, "impl": r["r"]["loc"], "model": mloc})
            if len(out.samples) < 12 and len(t) > 12 and " | J" in str(canon) and out.distribution.get("sampled." + fmt, 0) < 2:
                out.count("sampled." + fmt)
                out.samples.append({"fmt": fmt, "text": t, "parse": canon})
    out.contracts["fluent_body_contract_checked"] = out.distribution.get("ftl.cases", 0) + out.distribution.get("ftl.extra", 0)
    out.contracts["fluent_contractB_checked_by_model_and_python"] = out.distribution.get("ftl.fluentc", 0)
    run_sessions(ctx, out, sess_texts)
    run_histories(ctx, out, hist_texts)
    run_po_strings(ctx, out)
    return out


def sessions_for(fmt, texts):
    """call sequences on one parser object (R = readUnicode, W 0 = walk(), W 1 = iter())"""
    seqs = [[["W", 0]], [["W", 1]], [["W", 1], ["W", 0]]]
    for i, t in enumerate(texts):
        seqs.append([["R", t], ["W", 0], ["W", 1]])           # the observation sequence of the property
        if i % 2 == 0:
            seqs.append([["R", t], ["W", 1], ["W", 0]])
        if i % 3 == 0:
            t2 = texts[(i * 7 + 3) % len(texts)] if i % 4 else ""
            seqs.append([["R", t], ["W", 0], ["R", t2], ["W", 1 if i % 2 else 0]])
        if i % 5 == 0:
            seqs.append([["W", 0], ["R", t], ["W", 0], ["W", 0], ["W", 1]])
    return seqs


def run_sessions(ctx, out, sess_texts):
    for fmt, texts in sess_texts.items():
        seqs = sessions_for(fmt, texts)
        res = pool.pmap("impl.parse", "impl_session", [[fmt, q] for q in seqs], timeout=4.0)
        lines = ["c01.sess %s %s" % (fmt, " ".join(("R %s" % C.enc(c[1])) if c[0] == "R" else ("W %d" % c[1]) for c in q))
                 for q in seqs]
        model = C.run_driver_parallel(lines) if ctx.model_ok else [None] * len(lines)
        out.count("sess.%s" % fmt, len(seqs))
        for q, r, mo in zip(seqs, res, model):
            out.evaluations += 1
            last = [c[1] for c in q if c[0] == "R"]
            bad = session_oracle(fmt, q, r, _fresh_cache.get((fmt, last[-1])) if last else None)
            if "r" in r and len(r["r"]["walks"]) > 1:
                out.nontrivial.add((fmt, "sess", r["r"]["canon"]))
            if bad:
                msg, fid = bad
                out.violations.append({"what": "%s: %s" % (fmt, msg), "input": {"fmt": fmt, "session": q}, "finding": fid})
                out.count("sess.%s.violations" % fmt)
            elif mo is not None and ("r" not in r or mo != r["r"]["canon"]):
                out.disagreements.append({"op": "c01.sess", "fmt": fmt, "session": q,
                                          "impl": r["r"]["canon"] if "r" in r else r, "model": mo})
    # Fluent and Android-free formats: a parser without context, through the fluent op as well
    for fmt in FORMATS:
        r = pool.pmap("impl.parse", "impl_noctx", [[fmt]], timeout=4.0)[0]
        out.evaluations += 1
        if "r" not in r or r["r"]["full"] or r["r"]["loc"]:
            out.violations.append({"what": "%s: a parser without a loaded context yields entries or raises" % fmt,
                                   "input": {"fmt": fmt, "session": [["W", 0], ["W", 1]]}, "finding": None})
    if ctx.model_ok:
        mo = C.run_driver(["c01.fluentc 0 none", "c01.fluentc 1 none M 0 1 0 1 -1 -1 t:"])
        if mo != ["contract=1", "contract=1"]:
            out.disagreements.append({"op": "c01.fluentc-noctx", "model": mo})


# =============================================================================== round 5: histories on one parser object
INC_SHARED_FLAG = "C01-inc-interleaved-walks-share-filter-flag"
FTL_STALE_CTX = "C01-fluent-resumed-walk-uses-new-context"


def history_oracle(fmt, ops, r):
    """property oracle on a history of ONE parser object, by construction: whatever was consumed before, every COMPLETE pass shows
    exactly the entries of a fresh parse of the text last read — lossless in the full view, the Entity/Junk entries of the full view
    in the localizable view —, a pass abandoned after k entries shows exactly the first k of them, a resumed pass the rest.
    Returns None or (message, finding id)."""
    if r.get("exc") == "Hang":
        return ("a history on one parser object does not terminate", None)
    if "exc" in r:
        return ("a history on one parser object raised %s: %s" % (r["exc"], r.get("msg")), None)
    v = r["r"]
    fresh = v["fresh"]
    # the reference itself: a fresh parser object on the same text obeys the property (lossless; localizable view = filter)
    for t, f in fresh.items():
        expected = t[1:] if (fmt == "dtd" and t.startswith("\ufeff")) else t
        if f["joined"] != expected:
            return ("fresh parser object: concatenated entry texts differ from the input", None)
        if [e for e in f["full"] if e[0] in "EJ"] != f["loc"]:
            return ("fresh parser object: localizable-only view is not the entity+junk entries of the full view", None)

    def expected_of(text, loc):
        full = fresh[text]["full"]
        return [e for e in full if e[0] in "EJ"] if loc else full

    tracked = H.track(ops, expected_of)
    bad = H.judge(tracked, v["recs"])
    if bad:
        msg, tr = bad
        # root causes of the two recorded candidates (both need two passes alive at the same time):
        #  * DefinesParser keeps `filter_empty_lines` of a pass on the Context: a pass SUSPENDED while another pass ran on the same
        #    Context object resumes with the other pass's flag;
        #  * FluentParser.walk reads `self.ctx` at every yield and for the final white-space instead of the Context its pass
        #    started on: a pass resumed after the parser has read another text mixes the two texts.
        fid = INC_SHARED_FLAG if (fmt == "inc" and tr.get("exposed")) else None
        if fmt == "ftl" and tr.get("stale"):
            fid = FTL_STALE_CTX
        return (msg, fid)
    for tr, rec in zip(tracked, v["recs"]):
        if tr["whole"] and not tr["loc"] and tr.get("text") is not None:
            t = tr["text"]
            expected = t[1:] if (fmt == "dtd" and t.startswith("\ufeff")) else t
            if rec["joined"] != expected:
                return ("complete pass (operation %d): concatenated entry texts differ from the text last read" % tr["i"], None)
        if tr["loc"] and rec["kinds"].strip("EJ"):
            return ("localizable-only pass (operation %d) shows an entry that is neither Entity nor Junk" % tr["i"], None)
        for j, idx, has in rec.get("lookups", []):
            # parse(): the KeyedTuple finds an entry with that key for every entry it holds
            if not isinstance(idx, int) or idx < 0 or rec["keys"][idx] != rec["keys"][j] or not has:
                return ("parse() (operation %d): looking up the key of entry %d gives %r" % (tr["i"], j, idx), None)
    return None


def histories_for(ctx, fmt, main, extra, cnt):
    rng = ctx.rng("c01h", fmt)
    # texts with at least three entries, many with junk / instructions / comments; all composite tokens
    pool_ = [t for t in main if cnt.get(t, (0, 0))[0] >= 3]
    step = max(1, len(pool_) // ctx.n(50, 700))
    pick = pool_[::step][:ctx.n(50, 700)]
    pick += [t for t in extra if t in cnt and cnt[t][0] >= 2][:ctx.n(45, 400)]
    if fmt == "inc":
        # state on the Context: passes over `#filter emptyLines` texts
        fl = [t for t in main if "filter emptyLines" in t and cnt.get(t, (0, 0))[0] >= 3]
        pick += fl[::max(1, len(fl) // ctx.n(25, 300))][:ctx.n(25, 300)]
    pick = list(dict.fromkeys(pick))
    hs = [[["P", 0, 1, "next"], ["W", 0], ["W", 1]], [["G", 0], ["N", 0, 2], ["K"]]]
    for i, t in enumerate(pick):
        t2 = pick[(i * 7 + 3) % len(pick)] if i % 5 else ""
        n, m = cnt[t]
        hs += H.directed(t, n, m, t2, i, concat=True)
    if fmt == "inc":
        for i, t in enumerate(fl[::max(1, len(fl) // ctx.n(40, 400))][:ctx.n(40, 400)]):
            hs += H.every_cut(t, cnt[t][0], i)
    allt = pick + [""]
    for _ in range(ctx.n(500, 8000)):
        hs.append(H.random_history(rng, allt, cnt))
    return hs


def run_histories(ctx, out, hist_texts):
    known = {k["id"] for k in C.load_known_findings().get("known", [])}
    candidates = {}
    for fmt, (main, extra, cnt) in hist_texts.items():
        hs = histories_for(ctx, fmt, main, extra, cnt)
        res = pool.pmap("impl.parse", "impl_history", [[fmt, h] for h in hs], timeout=6.0)
        model = None
        if fmt != "ftl" and ctx.model_ok:
            model = C.run_driver_parallel(["c01.gen %s %s" % (fmt, H.to_model(h, C.enc)) for h in hs])
        out.count("hist.%s" % fmt, len(hs))
        for i, (h, r) in enumerate(zip(hs, res)):
            out.evaluations += 1
            bad = history_oracle(fmt, h, r)
            if "r" in r:
                out.nontrivial.add((fmt, "hist", r["r"]["canon"]))
                for op in h:
                    out.count("hist.op.%s" % (op[0] if op[0] != "P" else "P." + op[3]))
            if bad:
                msg, fid = bad
                if fid is not None and fid not in known:
                    # a candidate finding that is not recorded in known_findings.json yet: reported in the evidence notes,
                    # judged (KNOWN-FINDING) as soon as it is recorded
                    candidates.setdefault(fid, {"what": msg, "input": {"fmt": fmt, "history": h}})
                    out.count("hist.%s.candidate.%s" % (fmt, fid))
                    continue
                out.violations.append({"what": "%s: %s" % (fmt, msg), "input": {"fmt": fmt, "history": h}, "finding": fid})
                out.count("hist.%s.violations" % fmt)
            elif model is not None and ("r" not in r or model[i] != r["r"]["canon"]):
                out.disagreements.append({"op": "c01.gen", "fmt": fmt, "history": h,
                                          "impl": r["r"]["canon"] if "r" in r else r, "model": model[i]})
    for fid, c in candidates.items():
        out.notes.append("CANDIDATE FINDING %s (not in known_findings.json, not judged): %s; first input %r" % (fid, c["what"], c["input"]))


def run_po_strings(ctx, out):
    """round 4: ties poCreate/poEval (evaluated msgid, msgctxt, msgstr of every PO entity) through the op po.strings"""
    rng = ctx.rng("c01po")
    texts, _ = gen_texts(ctx, "po")
    cand = [t for t in texts if "msgstr" in t and "msgid" in t] + [t for t in gen_extra(ctx, "po") if t not in STRESS["po"]]
    cand = list(dict.fromkeys(cand))
    rng.shuffle(cand)
    cand = cand[:ctx.n(2000, 30000)]
    res = pool.pmap("impl.parse", "impl_po_strings", [[t] for t in cand], timeout=3.0)
    lines, want = [], []
    for t, r in zip(cand, res):
        if "r" not in r:
            continue
        for start, shown in r["r"]:
            lines.append("po.strings %s %d" % (C.enc(t), start))
            want.append((t, start, shown))
    got = C.run_driver_parallel(lines) if ctx.model_ok and lines else []
    out.count("po.strings", len(lines))
    for (t, start, shown), g in zip(want, got):
        out.evaluations += 1
        out.nontrivial.add(("po.strings", shown))
        if g != shown:
            out.disagreements.append({"op": "po.strings", "text": t, "start": start, "impl": shown, "model": g})


def replay(payload):
    from impl import parse
    res = []
    for v in payload.get("violations", []):
        i = v["input"]
        if "history" in i:
            r = pool.pmap("impl.parse", "impl_history", [[i["fmt"], i["history"]]], timeout=10.0)[0]
            bad = history_oracle(i["fmt"], i["history"], r)
            res.append({"input": i, "oracle": bad[0] if bad else None})
            continue
        if "session" in i:
            r = pool.pmap("impl.parse", "impl_session", [[i["fmt"], i["session"]]], timeout=5.0)[0]
            last = [c[1] for c in i["session"] if c[0] == "R"]
            fresh = None
            if last:
                fr = pool.pmap("impl.parse", "impl_parse_full", [[i["fmt"], last[-1]]], timeout=5.0)[0]
                if "r" in fr:
                    fresh = (filt(fr["r"]["canon"]), fr["r"]["loc"])
                    _fresh_cache[(i["fmt"], last[-1])] = fresh
            bad = session_oracle(i["fmt"], i["session"], r, fresh)
            res.append({"input": i, "oracle": bad[0] if bad else None})
            continue
        r = pool.pmap("impl.parse", "impl_fluent" if i["fmt"] == "ftl" else "impl_parse_full",
                      [[i["text"]] if i["fmt"] == "ftl" else [i["fmt"], i["text"]]], timeout=5.0)[0]
        res.append({"input": i, "oracle": oracle(i["fmt"], i["text"], r)})
    return {"violates": any(r["oracle"] for r in res), "cases": res}

"""C02 — Well-formed entries are recovered exactly; junk damage stays local.

Printer/parser pairing for all seven formats.  A document is built from records (unique key, raw
value from the format's value grammar, optional attached comment), a layout and optionally one
inert garbage line at an insertion point; the EXPECTED entities (key, raw value, unescaped value,
attached comment) and the expected junk are known by construction (the unescaped value is built
piece by piece from the documented escape rules and cross-checked by an independent one-pass
scanner), never by calling the parser.
"""
import itertools

from lib import common as C
from lib import pool
from lib.runner import Outcome
from gen import c02classes as K
from gen import histories as H

ID = "C02"
LEAN_TARGETS = ["CLModel.Props.C02"]
M = "CLModel.Props.C02"
THEOREMS = [
    (M, "C02.props_unescape_is_spec",
     "properties: PropertiesEntityMixin.val (regex substitution with the generated escape regex and known_escapes table) never "
     "raises and equals the documented one-pass escape rules, for ALL raw values"),
    (M, "C02.props_unescape_id", "properties: a raw value without backslash is its own value"),
    (M, "C02.po_unescape_is_spec",
     "po: eval_stringlist on a fragment (one regex substitution with the generated reEscape and escapes table) never raises "
     "and equals the one-pass scanner, for ALL texts"),
    (M, "C02.po_unescape_spec",
     "po: for every well-formed token list (what reListItem accepts) the value is the token-wise unescape of \\\\ \\t \\r \\n \\\""),
    (M, "C02.po_unescape_backslash_n", "po: the former counterexample \\\\n now evaluates to backslash + n"),
    (M, "C02.props_single_record",
     "properties: getNext at the start of `key=value\\n...` (any offset) is the entity with exactly that key span and value span"),
    (M, "C02.roundtrip_properties_partial",
     "properties: a printed list of records key=value with safe keys/values (no backslash, blank-free ends), one per line, "
     "parses back to exactly these keys, raw values, values (unchanged by unescaping), no comments, in order, with no junk"),
    (M, "C02.license_standalone_properties",
     "properties: a comment at offset 0 whose value contains License is returned as a standalone comment"),
    (M, "C02.license_first_entity_unattached_properties",
     "properties: an entry's pre-comment starts at the offset the entry was parsed at, so the entry after a leading License "
     "comment cannot have it attached"),
    (M, "C02.license_standalone_base",
     "base getNext (dtd, ini, po): a comment at offset < 2 whose value contains License is returned as a standalone comment"),
    (M, "C02.license_standalone_po", "po: instance of the base rule"),
    (M, "C02.license_standalone_ini",
     "ini: instance of the base rule for EVERY comment (the section test comes first, but where reComment matches the text starts with ; or #, never with `[`: no extra hypothesis any more)"),
    (M, "C02.ini_comment_starts_with_marker", "ini: where IniParser.reComment matches, the text starts with `;` or `#`"),
    (M, "C02.license_standalone_dtd", "dtd: instance of the base rule, with and without byte-order mark"),
    (M, "C02.ini_single_record_partial",
     "ini: getNext at `key=value` followed by newline/end (key without = and newline, not starting with [ ; # or white-space) "
     "is the entity with exactly that key span and value span"),
    (M, "C02.roundtrip_ini_partial",
     "ini: `[sec]\\n` followed by ANY list of safe records printed `key=value\\n` walks to exactly the section entry, one "
     "white-space entry, and per record the entity (exact key/value spans, blanks kept) + white-space entry; views = records; no junk"),
    (M, "C02.roundtrip_inc_partial",
     "inc: ANY list of safe records printed `#define KEY value\\n` (`#define KEY\\n` for an empty value) walks to exactly the "
     "entities (key span, value span after the one blank) + one-newline white-space entries; views = records; no junk"),
    (M, "C02.roundtrip_inc_absent_val_span",
     "inc: for an empty value the `val` group is absent: value span is Python's (-1, -1); otherwise the text after the blank"),
    (M, "C02.roundtrip_dtd_partial",
     "dtd: ANY list of safe records printed `<!ENTITY key \"value\">\\n` walks to exactly the entities (key span, value span = "
     "quoted text without the quotes) + white-space entries; views = records; no junk"),
    (M, "C02.roundtrip_properties_comments_partial",
     "properties: records that may each carry one preceding `# text\\n` comment line: walk = entities with pre-comment span = the "
     "comment line without its newline (+ white-space entries); views = key, raw, value, comment value ` text`; no junk "
     "(first comment must not contain License: that case is license_standalone_properties)"),
    (M, "C02.attached_comment_span", "properties: pre-comment span / full start / entity start of an entity with an attached comment"),
    (M, "C02.attached_comment_val", "OffsetComment.val of a one-line `# text` comment strips exactly one character (the `#`)"),
    (M, "C02.garbage_local_properties_partial",
     "properties: records, ONE inert garbage line g (no = : # ! newline, not starting with white-space), records: the walk is "
     "the records' entries plus exactly one junk entry whose text is `g\\n`; all records recovered unchanged"),
    (M, "C02.roundtrip_po_partial",
     "po: ANY list of blocks — records (optional #-comment lines, optional white-space with <= 1 newline, optional msgctxt list, msgid list, "
     "msgstr list; every list = one or more quoted fragments each preceded by any white-space, fragments = tokens of reListItem incl. the "
     "escapes; any white-space between and after) and free comment blocks (followed by >= 2 newlines) — walks to exactly the entities "
     "(full/own/key/value/pre-comment spans) + white-space/comment entries; views: key = one-pass unescape of the msgid fragments, context, "
     "raw value, value (msgstr or msgid), comment; no junk"),
    (M, "C02.po_record_at", "po: one such record at any offset: getNext = the entity, createEntity = the parts (fragment spans), view"),
    (M, "C02.roundtrip_properties_full_partial",
     "properties: ANY list of blocks — records (optional multi-line #/! comment block, newline+indent, key, blanks [:=] blanks, value of "
     "continued lines (odd number of final backslashes) + last line (even number, no trailing white-space), newline + any white-space) and "
     "free comment blocks — walks to exactly the entities + white-space/comment entries; the VALUE SPAN IS EXACTLY THE PRINTED RAW VALUE; "
     "views: key, raw, value = documented unescape of raw, comment lines without markers; no junk"),
    (M, "C02.props_record_span",
     "properties: one such record at any offset: getNext = the entity, contents[val_span] = the printed raw value (escapes, continuation "
     "lines and indentation included), view"),
    (M, "C02.comment_block_val", "OffsetComment.val of a multi-line #/! comment block: every line loses exactly its marker"),
    (M, "C02.getJunk_earliest",
     "Parser.getJunk: if none of the end-of-junk expressions matches strictly inside (off, e) and one matches at e (or e is the end of "
     "the text and none matches there), the junk entry is off..e — later matches of the OTHER expressions (e.g. the key regex inside a "
     "comment that follows the junk) are irrelevant: the earliest match of ANY expression ends the junk"),
    (M, "C02.garbage_local_properties",
     "properties: ANY list of blocks of roundtrip_properties_full_partial (records with multi-line comments, continuation lines..., free "
     "comments), each optionally preceded by ONE inert garbage line (+ newline and white-space), optionally a final garbage line — also in "
     "front of a comment whose text is `key=value`: exactly one junk entry per garbage line with exactly that text; all records unchanged"),
    (M, "C02.roundtrip_ini_full_partial",
     "ini: ANY list of blocks — `[name]` sections (optionally with comment lines directly before: stand-alone comment), records key=value "
     "with optional attached ;/# comment block and indentation, free comment blocks, blank lines — each optionally preceded by an inert "
     "garbage line, optional final garbage: exactly the section/entity/comment/white-space/junk entries; views; junk = the garbage lines"),
    (M, "C02.garbage_local_po",
     "po: ANY list of blocks of roundtrip_po_partial, each optionally preceded by an inert garbage line (no `m`, `#`, newline; not "
     "starting with white-space or a quote) — also in front of `#| msgid \"old\"` comments: one junk entry per garbage line, records unchanged"),
    (M, "C02.roundtrip_dtd_full_partial",
     "dtd: optional BOM + ANY list of blocks — entity declarations with any white-space between the parts, double- or single-quoted "
     "values, optional attached comment; free comments; parameter entities `<!ENTITY % n SYSTEM \"u\"> %n;` (junk from Parser.getNext, then "
     "rePE: dtd.py 110-111) — each (except parameter entities) optionally preceded by inert garbage (no `<`): exactly the entries (value "
     "span between the quotes; PE value span with quotes), views, junk = the garbage"),
    (M, "C02.dtd_parameter_entity", "dtd: getNext at a printed parameter entity (any offset) is the entity with name span and quoted-url span"),
    (M, "C02.roundtrip_inc_full_partial",
     "inc: ANY list of blocks — #define records with optional attached `# ` comment block, free comment blocks, instructions (#filter "
     "emptyLines / #unfilter emptyLines switch ctx.filter_empty_lines; blank lines are white-space only while it is on) — each optionally "
     "preceded by an inert garbage line (no `#`): exactly the instruction/entity/comment/white-space/junk entries, views, junk = the garbage"),
    # round 5: recovery on a long-lived parser object
    (M, "C02.complete_pass_recovers_exactly",
     "ONE parser object (C01M.stepG: Context objects, parser.ctx, suspended generator objects): after ANY history, readUnicode(t), then ANY "
     "generator operations (passes started, consumed partially, interleaved, abandoned), a complete pass shows exactly the entries of "
     "walk(t) (localizable view: its Entity/Junk entries) - all five regex formats, all texts"),
    (M, "C02.history_roundtrip_properties",
     "properties: the printed class of garbage_local_properties read on a used parser object, after any abandoned passes over it: a complete "
     "pass shows exactly the expected entries (records unchanged, exactly the garbage as junk)"),
    (M, "C02.history_roundtrip_po", "po: the same for the class of garbage_local_po"),
    (M, "C02.history_roundtrip_ini", "ini: the same for the class of roundtrip_ini_full_partial"),
    (M, "C02.history_roundtrip_inc",
     "inc: the same for the class of roundtrip_inc_full_partial - also when an abandoned pass left filter_empty_lines set on the Context"),
    (M, "C02.history_roundtrip_dtd", "dtd: the same for the class of roundtrip_dtd_full_partial"),
    (M, "C02.po_single_record_partial",
     "po: getNext at `msgid \"K\"\\nmsgstr \"V\"\\n` (K, V without quote, backslash, newline; not followed by a continuation "
     "fragment) is the entity with key span `msgid \"K\"`, value span `msgstr \"V\"`; one fragment each; eval = K resp. V; view"),
]
PARTIAL = [
    "round 4: the whole-file theorems (roundtrip_properties_full_partial, roundtrip_po_partial, roundtrip_ini_full_partial, "
    "roundtrip_inc_full_partial, roundtrip_dtd_full_partial and the garbage_local_* theorems) cover printed BLOCK classes, not all texts; "
    "outside them, decided by the printer -> real parser -> expected-by-construction oracle and the model correspondence only: "
    "properties keys containing blanks/tabs, a last record without final newline, a value whose last physical line is blank, CRLF; "
    "po `#~` obsolete records (comments for the parser), a final comment without newline; ini indented records without comment, "
    "comments before garbage; inc tabs / several blanks after `#define`, non-ASCII `\\w` keys, instructions starting with `d`; "
    "dtd non-ASCII names, values with `&` (html.unescape is external), several comments in front of one entity, comments inside the "
    "tail of a parameter entity",
    "garbage lines are restricted to inert ones (no character that could start/contain a key, comment or section of the format); the "
    "harness' garbage family (`<!ENTITY missing.value>`, `msgstr \"orphan\"`, `#define`, ...) is wider and oracle-only; garbage directly "
    "in front of a DTD parameter entity is NOT local (the junk swallows it: neither reKey nor reComment matches there) and is excluded",
    "the round-2/3 theorems (roundtrip_properties_partial, roundtrip_ini_partial, roundtrip_inc_partial, roundtrip_dtd_partial, "
    "po_single_record_partial, garbage_local_properties_partial, ...) are special cases of the round-4 ones and are kept",
    "Fluent and Android: parsing is done by fluent.syntax / expat+minidom which are not modelled; decided by the printer->real "
    "parser->expected-records oracle only (plus the fluentwalk correspondence for the white-space/junk trimming)",
    "DTD .val goes through html.unescape (external): checked against an independent small entity table, not proved",
]
TRUSTED = [
    "hand-written models CLModel/Parser/{Base,Formats,Values}.lean (tied by the `parse`, `ents`, `props.val`, `po.unescape`, "
    "`comment.val` correspondences)",
    "CLModel/Parser/C01Gen.lean: walk()/iter() as generator objects of one parser object (tied by `c02.hist` = views of every entry every "
    "consuming operation of a history obtains, and by `c01.gen` = spans, on histories with abandoned, resumed, interleaved passes and re-reads)",
    "regexes and the known_escapes table are regenerated from /repo by the translator on every run",
]
ASSUMPTIONS = [
    "printed texts contain no carriage returns and no exotic line separators (\\x0b \\x0c \\x1c-\\x1e \\x85 \\u2028 \\u2029)",
    "properties: a legal raw value does not end in a blank, even an escaped one, and not in a lone backslash",
    "License rule is claimed for a comment starting at offset 0 (properties) / offset < 2 (dtd, ini, po) only",
]
LEVEL_TEXT = (
    "Lean 4 theorems over executable transliterations of the parsers: for ALL raw values the properties unescape (regex "
    "substitution) equals the documented one-pass rules; the PO unescape (regex substitution) equals the one-pass rules for ALL fragments; "
    "for each of the five regex formats an unbounded class of whole files (lists of printed blocks: records with attached comments, "
    "free comments, sections / instructions / parameter entities, blank lines, continuation lines and escapes, string lists of several "
    "fragments, each block optionally preceded by an inert garbage line) parses back to exactly the printed records (every span, key, "
    "raw value, value, attached comment) with exactly the garbage lines as junk — including garbage directly in front of a comment whose "
    "text is a complete record (getJunk takes the earliest match of any of its expressions); the License rule holds for properties and "
    "the base getNext (ini without extra hypothesis); the parser OBJECT is modelled with its Context objects and suspended generator "
    "objects, and after any history of abandoned / partial / interleaved passes and re-reads a complete pass shows exactly those printed "
    "records (recovery does not depend on what was consumed before).  All seven formats, the full value "
    "grammar, layouts, comments and garbage insertion are checked by a printer -> real parser -> expected-by-construction "
    "oracle (bounded-exhaustive small documents + seeded random larger ones; also as HISTORIES on one parser object: passes abandoned "
    "after 0, 1, 2, half, all-1, all entries by next/break/zip/islice/close, parse() + key lookups, readContents/readFile, explicit "
    "interleaving, every result expected by construction) and by model/implementation correspondence")
LEVEL_NOTE = (
    "trusted: Lean kernel, regex engine model (validated differentially), hand-written parser models (validated by "
    "correspondence on the same printed documents, incl. the class documents of the whole-file theorems whose expected entries are "
    "known by construction); whole-file theorems cover printed block classes (not all texts); Fluent/Android rest on the oracle alone; "
    "DTD html.unescape is external")
TECHNIQUE = "Lean 4 proof over executable parser models + printer/parser round-trip oracle + differential correspondence"

REGEX_FORMATS = ("properties", "dtd", "ini", "inc", "po")
FORMATS = ("properties", "dtd", "ini", "inc", "po", "ftl", "android")
HEXD = "0123456789abcdefABCDEF"
ANY = "<any>"          # wildcard for an attached comment that the property does not speak about


# =============================================================================== independent references
def ref_props_unescape(raw):
    """the documented .properties escape rules, one pass"""
    out, i, n = [], 0, len(raw)
    while i < n:
        c = raw[i]
        if c != "\\" or i + 1 >= n:
            out.append(c)
            i += 1
            continue
        d = raw[i + 1]
        if d == "u":
            j = i + 2
            while j < n and j < i + 6 and raw[j] in HEXD:
                j += 1
            if j > i + 2:
                out.append(chr(int(raw[i + 2:j], 16)))
                i = j
            else:
                out.append("u")
                i += 2
        elif d == "\n":
            j = i + 2
            while j < n and raw[j] in " \t":
                j += 1
            i = j
        else:
            out.append({"n": "\n", "r": "\r", "t": "\t"}.get(d, d))
            i += 2
    return "".join(out)


PO_ESC = {"\\": "\\", "t": "\t", "r": "\r", "n": "\n", '"': '"'}


def ref_po_unescape(frag):
    """PO escapes \\\\ \\t \\r \\n \\" applied once, left to right"""
    out, i, n = [], 0, len(frag)
    while i < n:
        if frag[i] == "\\" and i + 1 < n and frag[i + 1] in PO_ESC:
            out.append(PO_ESC[frag[i + 1]])
            i += 2
        else:
            out.append(frag[i])
            i += 1
    return "".join(out)


XML_NAMED = {"amp": "&", "lt": "<", "gt": ">", "quot": '"', "apos": "'"}


def ref_xml_unescape(raw):
    """&amp; &lt; &gt; &quot; &apos; &#NN; &#xHH; -- everything else is left alone"""
    out, i, n = [], 0, len(raw)
    while i < n:
        if raw[i] == "&":
            j = raw.find(";", i)
            if j > 0:
                name = raw[i + 1:j]
                if name in XML_NAMED:
                    out.append(XML_NAMED[name])
                    i = j + 1
                    continue
                if name[:2] in ("#x", "#X") and name[2:] and all(ch in HEXD for ch in name[2:]):
                    out.append(chr(int(name[2:], 16)))
                    i = j + 1
                    continue
                if name[:1] == "#" and name[1:].isdigit():
                    out.append(chr(int(name[1:])))
                    i = j + 1
                    continue
        out.append(raw[i])
        i += 1
    return "".join(out)


def ref_android_normalize(v):
    v = v.strip(" \t")
    lines = v.split("\n")
    if len(lines) == 1:
        return v
    return "\n".join([lines[0].rstrip(" \t")] + [l.strip(" \t") for l in lines[1:-1]] + [lines[-1].lstrip(" \t")])


# =============================================================================== records
class Rec:
    def __init__(self, key, raw, val, ctext=None, cval=None, **x):
        self.key, self.raw, self.val, self.ctext, self.cval, self.x = key, raw, val, ctext, cval, x

    def with_key(self, key):
        return Rec(key, self.raw, self.val, self.ctext, self.cval, **self.x)

    def with_comment(self, c):
        return Rec(self.key, self.raw, self.val, c[0] if c else None, c[1] if c else None, **self.x)


PLAIN_POOL = "abcxyzABCZ0189 .,;-_()[]{}%$@~*+/|^`?éßжλ中\u2603\U0001F600"


def rand_plain(rng, extra="", forbid="", n=None):
    n = n or rng.randrange(1, 6)
    pool_ = [c for c in PLAIN_POOL + extra if c not in forbid]
    return "".join(rng.choice(pool_) for _ in range(n))


# --------------------------------------------------------------------------- properties
def props_pieces_ok(pieces):
    """structural rules that make the expected value unambiguous (see NOTES-C02)"""
    if not pieces:
        return True
    if pieces[0][0][:1] in (" ", "\t"):
        return False
    last = pieces[-1]
    if last[2] == "cont" or last[0][-1:] in (" ", "\t"):
        return False
    for a, b in zip(pieces, pieces[1:]):
        if a[2] == "cont" and b[0][:1] in (" ", "\t"):
            return False
        if a[2] == "uni" and len(a[0]) < 6 and b[0][:1] in HEXD:
            return False
        if a[2] == "ubare" and b[0][:1] in HEXD:
            return False
    # the value must not end in blank lines: the last physical line is non-blank
    raw = "".join(p[0] for p in pieces)
    if raw.split("\n")[-1].strip(" \t") == "":
        return False
    return True


def props_piece(rng):
    r = rng.random()
    if r < 0.40:
        return (rand_plain(rng, extra="=:#!'\"<>&"), None, "plain")
    if r < 0.55:
        nd = rng.choice([1, 2, 3, 4, 4, 4])
        while True:
            cp = rng.randrange(0, 16 ** nd)
            if not (0xD800 <= cp <= 0xDFFF) and cp not in (10, 13):
                break
        h = ("%x" % cp) if rng.random() < 0.5 else ("%X" % cp)
        if rng.random() < 0.5:
            h = h.rjust(nd, "0")
        return ("\\u" + h, chr(cp), "uni")
    if r < 0.67:
        c = rng.choice("nrt\\")
        return ("\\" + c, {"n": "\n", "r": "\r", "t": "\t", "\\": "\\"}[c], "known")
    if r < 0.80:
        c = rng.choice("q:=# !'\"aUxé中z-0")
        return ("\\" + c, c, "single")
    if r < 0.85:
        return ("\\u", "u", "ubare")
    ind = rng.choice(["", "  ", "\t", "    ", " \t "])
    return ("\\\n" + ind, "", "cont")


def props_value(rng, maxn=6):
    for _ in range(200):
        pieces = [props_piece(rng) for _ in range(rng.randrange(0, maxn + 1))]
        pieces = [(p[0], p[0] if p[1] is None else p[1], p[2]) for p in pieces]
        if props_pieces_ok(pieces):
            raw = "".join(p[0] for p in pieces)
            val = "".join(p[1] for p in pieces)
            assert ref_props_unescape(raw) == val, (raw, val)
            return raw, val, {p[2] for p in pieces}
    return "", "", set()


PROPS_VALUES = [
    ("", ""), ("value", "value"), ("a b  c", "a b  c"), ("=x:y#z!", "=x:y#z!"),
    ("\\u0041\\u00e9", "Aé"), ("\\u41z\\uE9", "Azé"), ("\\u1\\u12345", "\x01\u12345"), ("\\uzz\\u", "uzzu"),
    ("\\n\\r\\t\\\\", "\n\r\t\\"), ("\\q\\:\\=\\ x\\#", "q:= x#"), ("a\\\n   b", "ab"), ("a \\\n\tb\\\n\\\n  c", "a bc"),
    ("x\\\\", "x\\"), ("x\\\\\\\n y", "x\\y"), ("\\\\n", "\\n"), ("é中\U0001F600", "é中\U0001F600"),
    ("\\\n  v", "v"), ("\\ lead", " lead"),
]
PROPS_SEPS = ["=", ":", " = ", " : ", "\t=\t", "= ", " :"]


def props_comment(rng):
    lines = []
    for _ in range(rng.randrange(1, 4)):
        lines.append(rng.choice("#!") + rng.choice(["", " "]) + rand_plain(rng, extra="=:#!\\", n=rng.randrange(0, 8)))
    return "\n".join(lines), "\n".join(l[1:] for l in lines)


def props_key(rng, i):
    body = rand_plain(rng, extra="#!'", forbid=" ", n=rng.randrange(0, 4))
    mid = rng.choice(["", ".", " ", "-"]) if body else ""
    return "k%d%s%s" % (i, mid, body)


def print_props(r, lay):
    ind = lay.get("indent", "")
    head = (r.ctext + "\n" + ind) if r.ctext is not None else ind
    return head + r.key + lay.get("sep", "=") + r.raw + lay.get("trail", "")


# --------------------------------------------------------------------------- dtd
DTD_ENT = [("&amp;", "&"), ("&lt;", "<"), ("&gt;", ">"), ("&quot;", '"'), ("&apos;", "'"), ("&#65;", "A"), ("&#x42;", "B"),
           ("&#233;", "é"), ("&#x4e2d;", "中"), ("&#x1F600;", "\U0001F600"), ("&brandShortName;", "&brandShortName;"),
           ("&foo.bar;", "&foo.bar;")]


def dtd_value(rng, quote, maxn=6):
    pieces = []
    for _ in range(rng.randrange(0, maxn + 1)):
        r = rng.random()
        if r < 0.55:
            t = rand_plain(rng, extra="<>='\"\n%#!", forbid=quote + ";")
            pieces.append((t, t))
        elif r < 0.9:
            pieces.append(rng.choice(DTD_ENT))
        else:
            cp = rng.choice([rng.randrange(0x21, 0x7f), rng.randrange(0xa1, 0x2000), rng.randrange(0x10000, 0x10ff00)])
            if (cp & 0xFFFE) == 0xFFFE or 0xFDD0 <= cp <= 0xFDEF:
                cp = 0x41
            pieces.append(("&#%d;" % cp if rng.random() < 0.5 else "&#x%x;" % cp, chr(cp)))
    raw = "".join(p[0] for p in pieces)
    val = "".join(p[1] for p in pieces)
    assert ref_xml_unescape(raw) == val, (raw, val)
    return raw, val


DTD_VALUES = [("", ""), ("value", "value"), ("a\n  b", "a\n  b"), ("it's > <b>", "it's > <b>"),
              ("x &amp; y &lt;&gt;", "x & y <>"), ("&quot;q&apos;", "\"q'"), ("&#65;&#x42;&#233;", "ABé"),
              ("&brandShortName; v", "&brandShortName; v"), ("% # ! =", "% # ! ="), ("é中\U0001F600", "é中\U0001F600")]
DTD_KEYSTART = "abzAZ_:éØ\u2c00"
DTD_KEYCHAR = DTD_KEYSTART + "09.-\u00b7"


def dtd_key(rng, i):
    return rng.choice(DTD_KEYSTART) + "".join(rng.choice(DTD_KEYCHAR) for _ in range(rng.randrange(0, 4))) + "%d" % i


def dtd_comment(rng):
    # the parser's comment character class ends at U+FFFD (astral characters: see probes / NOTES)
    t = rand_plain(rng, extra="\n<>&\"'=!%", forbid="-\U0001F600", n=rng.randrange(0, 12))
    if rng.random() < 0.3:
        t = t + "-x"        # single dashes are legal inside
    return "<!--" + t + "-->", t


def print_dtd(r, lay):
    q = r.x.get("q", '"')
    head = (r.ctext + lay.get("cws", "\n")) if r.ctext is not None else ""
    return "%s<!ENTITY%s%s%s%s%s%s%s>" % (head, lay.get("w1", " "), r.key, lay.get("w2", " "), q, r.raw, q, lay.get("w3", ""))


# --------------------------------------------------------------------------- ini
INI_VALUES = [("", ""), ("value", "value"), (" lead and trail  ", " lead and trail  "), ("a=b=c", "a=b=c"), ("[x] ;# \\n \\u0041", "[x] ;# \\n \\u0041"),
              ("é中\U0001F600", "é中\U0001F600"), ("%S &amp; \"q\"", "%S &amp; \"q\"")]


def ini_value(rng):
    t = rand_plain(rng, extra="=:#!;[]\\'\"<>&\t", n=rng.randrange(0, 12))
    return t, t


def ini_key(rng, i):
    return "k%d" % i + rand_plain(rng, extra="#;:!\\'\t", forbid="=[]", n=rng.randrange(0, 4))


def ini_comment(rng):
    lines = [rng.choice(";#") + rand_plain(rng, extra="=;#[]\\", n=rng.randrange(0, 8)) for _ in range(rng.randrange(1, 4))]
    return "\n".join(lines), "\n".join(l[1:] for l in lines)


def print_ini(r, lay):
    head = (r.ctext + "\n") if r.ctext is not None else ""
    return head + lay.get("indent", "") + r.key + "=" + r.raw


# --------------------------------------------------------------------------- inc
INC_VALUES = [("", ""), ("value", "value"), (" lead and trail  ", " lead and trail  "), ("a b\tc", "a b\tc"), ("#define x y", "#define x y"),
              ("\\n \\u0041 &amp;", "\\n \\u0041 &amp;"), ("é中\U0001F600", "é中\U0001F600")]


def inc_value(rng):
    t = rand_plain(rng, extra="=:#!;\\'\"<>&\t", n=rng.randrange(0, 12))
    return t, t


def inc_key(rng, i):
    return "".join(rng.choice("abzAZ_09éж中") for _ in range(rng.randrange(1, 4))) + "_%d" % i


def inc_comment(rng):
    lines = ["# " + rand_plain(rng, extra="=;#\\", n=rng.randrange(0, 8)) for _ in range(rng.randrange(1, 4))]
    return "\n".join(lines), "\n".join(l[2:] for l in lines)


def print_inc(r, lay):
    head = (r.ctext + "\n") if r.ctext is not None else ""
    if r.raw == "" and r.x.get("bare", False):
        tail = ""
    else:
        tail = lay.get("w2", " ") + r.raw
    return head + "#define" + lay.get("w1", " ") + r.key + tail


# --------------------------------------------------------------------------- po
def po_tokens(rng, maxn=6, hazard_ok=True):
    toks = []
    for _ in range(rng.randrange(0, maxn + 1)):
        r = rng.random()
        if r < 0.6:
            t = rand_plain(rng, extra="'=:#!<>&%trn", forbid='"')
            toks.extend((c, c) for c in t)
        else:
            c = rng.choice('\\trn"')
            toks.append(("\\" + c, PO_ESC[c]))
    return toks


def po_split(rng, toks, style):
    """print a string list; returns (text after the keyword, fragments)"""
    raw = "".join(t[0] for t in toks)
    if style == 0 or not toks:
        return ' "%s"' % raw, [raw]
    if style == 1:
        return '"%s"' % raw, [raw]
    cuts = sorted(rng.sample(range(len(toks) + 1), min(len(toks) + 1, rng.randrange(1, 3))))
    frs, last = [], 0
    for c in cuts + [len(toks)]:
        frs.append("".join(t[0] for t in toks[last:c]))
        last = c
    lead = ' ""\n' if style == 2 else " "
    fr2 = ([""] if style == 2 else []) + frs
    sep = "\n" if style == 2 else rng.choice(["\n", " ", "\n\t"])
    return lead + sep.join('"%s"' % f for f in frs), fr2


def po_strlist(rng, toks, style):
    text, frags = po_split(rng, toks, style)
    val = "".join(t[1] for t in toks)
    assert "".join(ref_po_unescape(f) for f in frags) == val
    return text, frags, val


def po_record(rng, i, maxn=6, style=None, ctxt=None, empty_str=False):
    style = rng.randrange(4) if style is None else style
    idt = [(c, c) for c in "id%d" % i] + po_tokens(rng, maxn)
    stt = [] if empty_str else po_tokens(rng, maxn)
    id_text, id_fr, id_val = po_strlist(rng, idt, style)
    st_text, st_fr, st_val = po_strlist(rng, stt, style)
    frs = id_fr + st_fr
    cx_val = None
    cx_text = ""
    if ctxt:
        cxt = po_tokens(rng, 3) or [("c", "c")]
        t, f, cx_val = po_strlist(rng, cxt, style)
        cx_text = "msgctxt" + t + "\n"
        frs += f
    raw = "msgstr" + st_text
    body = cx_text + "msgid" + id_text + rng.choice(["\n", "\n", " ", "\n\n"]) + raw
    return Rec([id_val, cx_val], raw, st_val if st_val else id_val, None, None, body=body, frags=frs,
               parts=(id_fr, st_fr, f if ctxt else None))


def po_fixed(i, msgid_raw, msgstr_raw, ctxt_raw=None, multi=False):
    def lst(raw):
        if multi:
            h = len(raw) // 2
            while h > 0 and raw[h - 1] == "\\" and (len(raw[:h]) - len(raw[:h].rstrip("\\"))) % 2 == 1:
                h -= 1
            return ' ""\n"%s"\n"%s"' % (raw[:h], raw[h:]), [raw[:h], raw[h:]]
        return ' "%s"' % raw, [raw]
    idr = "id%d" % i + msgid_raw
    it, ifr = lst(idr)
    st, sfr = lst(msgstr_raw)
    frs = ifr + sfr
    body = ""
    cv = None
    if ctxt_raw is not None:
        ct, cfr = lst(ctxt_raw)
        body = "msgctxt" + ct + "\n"
        cv = ref_po_unescape(ctxt_raw)
        frs += cfr
    raw = "msgstr" + st
    body += "msgid" + it + "\n" + raw
    idv, sv = ref_po_unescape(idr), ref_po_unescape(msgstr_raw)
    return Rec([idv, cv], raw, sv if sv else idv, None, None, body=body, frags=frs,
               parts=(ifr, sfr, cfr if ctxt_raw is not None else None))


PO_VALUES = [("", "x"), ("", ""), (" plain", "value"), ("\\t\\r\\n", "a\\tb\\nc"), ('\\"q\\"', 'say \\"hi\\"'), ("\\\\", "back\\\\slash"),
             ("\\\\\\n", "x\\\\\\t"), ("é中", "\U0001F600 %s 'x'"), ("#:=", "msgid # msgstr")]
PO_HAZARD = [("\\\\n", "x"), ("", "C:\\\\temp\\\\new"), ("a\\\\r", "\\\\\\\\t")]


def po_comment(rng):
    lines = [rng.choice(["# ", "#. ", "#: ", "#, ", "#"]) + rand_plain(rng, extra="=:\\\"", n=rng.randrange(0, 8)) + "\n"
             for _ in range(rng.randrange(1, 4))]
    return "".join(lines), "".join(lines)


def print_po(r, lay):
    return (r.ctext if r.ctext is not None else "") + r.x["body"]


# --------------------------------------------------------------------------- ftl
FTL_VALUES = [("value", 0), ("two words, and: more = x", 0), ("a\n    b\n    c", 0), ("first\n\n    after blank", 0),
              ("{ $var } and { -term } and {\"lit\"}", 0), ("é中\U0001F600 \\n \\u0041 &amp;", 0), ("a\n    b", 1), ("x", 1),
              ("{ $n ->\n        [one] One\n       *[other] Other { $n }\n    }", 0)]


def ftl_value(rng):
    def line():
        parts = []
        for _ in range(rng.randrange(1, 4)):
            r = rng.random()
            if r < 0.7:
                parts.append(rand_plain(rng, extra="=:#!'\"<>&\\", forbid="{}[] *.").strip() or "w")
            else:
                parts.append(rng.choice(["{ $v }", "{ -t }", "{\"s\"}", "{ 1 }"]))
        return " ".join(parts)
    lines = [line() for _ in range(rng.randrange(1, 4))]
    ind = rng.choice(["    ", "  ", " "])
    return ("\n" + ind).join(lines), (1 if rng.random() < 0.15 else 0)


def ftl_key(rng, i):
    return rng.choice(["", "", "-"]) + rng.choice("abzAZ") + "".join(rng.choice("abzAZ09_-") for _ in range(rng.randrange(0, 4))) + "%d" % i


def ftl_comment(rng):
    lines = [rand_plain(rng, extra="=#", n=rng.randrange(0, 8)).rstrip() for _ in range(rng.randrange(1, 4))]
    return "\n".join(("# " + l) if l else "#" for l in lines), "\n".join(lines)


def print_ftl(r, lay):
    head = (r.ctext + "\n") if r.ctext is not None else ""
    eq = lay.get("eq", " = ")
    if r.x.get("block"):
        body = r.key + eq.rstrip(" ") + "\n    " + r.raw
    else:
        body = r.key + eq + r.raw
    return head + body + r.x.get("attrs", "")


# --------------------------------------------------------------------------- android
AND_ENT = [("&amp;", "&"), ("&lt;", "<"), ("&gt;", ">"), ("&quot;", '"'), ("&apos;", "'"), ("&#65;", "A"), ("&#x42;", "B"), ("&#233;", "é")]
AND_VALUES = [("", "", 0), ("value", "value", 0), ("it\\'s %1$s\\n", "it\\'s %1$s\\n", 0), ("a &amp; b &lt;i&gt;", "a & b <i>", 0),
              ("&quot;q&apos; &#65;&#x42;", "\"q' AB", 0), ("line\n    two", "line\n    two", 0), ("x<y & z", "x<y & z", 1),
              ("<b>bold</b> ]] >", "<b>bold</b> ]] >", 1), ("é中\U0001F600 > \" '", "é中\U0001F600 > \" '", 0), ("pad", "pad", 2)]


def android_value(rng):
    if rng.random() < 0.25:
        t = rand_plain(rng, extra="<>&'\"\n=", n=rng.randrange(0, 10)).replace("]]>", "]] >")
        return t, t, rng.choice([1, 1, 2])
    pieces = []
    for _ in range(rng.randrange(0, 6)):
        if rng.random() < 0.6:
            t = rand_plain(rng, extra=">'\"\n=\\%", forbid="")
            pieces.append((t, t))
        else:
            pieces.append(rng.choice(AND_ENT))
    raw = "".join(p[0] for p in pieces).replace("]]>", "]] >")
    val = "".join(p[1] for p in pieces).replace("]]>", "]] >")
    if ref_xml_unescape(raw) != val:
        # the ']]>' guard changed one side only (e.g. ']]' followed by '&gt;'): draw again
        return android_value(rng)
    return raw, val, 0


def android_key(rng, i):
    return rng.choice("abzAZ_") + "".join(rng.choice("abzAZ09_.é") for _ in range(rng.randrange(0, 4))) + "%d" % i


def android_comment(rng):
    lines = [rand_plain(rng, extra="=<>&'\"", forbid="-", n=rng.randrange(0, 8)) for _ in range(rng.randrange(1, 3))]
    t = rng.choice(["", " ", "\t"]) + "\n   ".join(lines) + rng.choice(["", " "])
    return "<!--" + t + "-->", ref_android_normalize(t)


def print_android(r, lay):
    head = (r.ctext + lay.get("cws", "\n  ")) if r.ctext is not None else ""
    mode = r.x.get("mode", 0)
    attrs = r.x.get("attrs", "")
    if mode == 1:
        inner = "<![CDATA[%s]]>" % r.raw
    elif mode == 2:
        inner = "\n    <![CDATA[%s]]>\n  " % r.raw
    else:
        inner = r.raw
    if inner == "" and r.x.get("selfclose"):
        return '%s<string name="%s"%s/>' % (head, r.key, attrs)
    return '%s<string name="%s"%s>%s</string>' % (head, r.key, attrs, inner)


# =============================================================================== per-format tables
GARBAGE = {
    "properties": ["garbage", "just some words without separator", "\\u0041 x"],
    "dtd": ["garbage", "<!ENTITY missing.value>", "<!ELEMENT x (y)>"],
    "ini": ["garbage", "no separator here"],
    "inc": ["garbage", "#define", "#bogus"],
    "po": ["garbage", 'msgstr "orphan"', "msgid"],
    "ftl": ["garbage here", "= no id", "bad { value"],
    "android": ["<foo/>", "<string>no name</string>", '<plurals name="p"><item quantity="one">x</item></plurals>'],
}
FREE = {   # a standalone comment block that must not attach to the following record, with its separator
    "properties": "# free comment\n\n", "dtd": "<!-- free comment -->\n\n", "ini": "; free comment\n\n", "inc": "# free comment\n\n",
    "po": "# free comment\n\n\n", "ftl": "## group comment\n\n", "android": "<!-- free comment -->\n\n  ",
}
FREE2 = {  # the same, but the separating "blank" line holds only spaces / a tab: the white-space between the comment and the
    # next record has more than one newline and no two ADJACENT newlines -> the comment must still be standalone.
    # (.inc has no such layout: its white-space is `\n+`, a line of blanks there is junk.  Fluent: not applicable.)
    "properties": "# free comment\n  \n", "dtd": "<!-- free comment -->\n  \n", "ini": "; free comment\n\t\n",
    "po": "# free comment\n \n\t\n", "android": "<!-- free comment -->\n  \n  ",
}
LICENSE_OFFSET = {"properties": 1, "dtd": 2, "ini": 2, "po": 2}    # comment start offsets below this are claimed
PRINT = {"properties": print_props, "dtd": print_dtd, "ini": print_ini, "inc": print_inc, "po": print_po, "ftl": print_ftl,
         "android": print_android}
COMMENT = {"properties": props_comment, "dtd": dtd_comment, "ini": ini_comment, "inc": inc_comment, "po": po_comment,
           "ftl": ftl_comment, "android": android_comment}
LICENSE_COMMENT = {
    "properties": ("# This Source Code is subject to the\n# License, v. 2.0.", " This Source Code is subject to the\n License, v. 2.0."),
    "dtd": ("<!-- License block -->", " License block "),
    "ini": ("; License text", " License text"),
    "inc": ("# License text", "License text"),
    "po": ("# License text\n#\n", "# License text\n#\n"),
    "ftl": ("# License text", "License text"),
    "android": ("<!-- License text -->", "License text"),
}
SIMPLE_COMMENT = {
    "properties": ("# a comment", " a comment"), "dtd": ("<!-- a comment -->", " a comment "), "ini": ("# a comment", " a comment"),
    "inc": ("# a comment", "a comment"), "po": ("#. a comment\n", "#. a comment\n"), "ftl": ("# a comment", "a comment"),
    "android": ("<!-- a comment -->", "a comment"),
}
MULTI_COMMENT = {
    "properties": ("#one\n! two\n#", "one\n two\n"), "dtd": ("<!-- one\n  two - three -->", " one\n  two - three "),
    "ini": (";one\n# two", "one\n two"), "inc": ("# one\n# \n# two", "one\n\ntwo"), "po": ("# one\n#, fuzzy\n", "# one\n#, fuzzy\n"),
    "ftl": ("# one\n#\n# two", "one\n\ntwo"), "android": ("<!-- one\n     two -->", "one\ntwo"),
}


# comments whose TEXT is itself a complete, valid record of the format (a commented-out entity, a `#| msgid` previous-source
# line, ...): the key regex matches INSIDE such a comment, so `getJunk` must take the EARLIEST match of any of its expressions
# (the comment start) for junk in front of it to stay local
RECORD_COMMENT = {
    "properties": ("#old.key=old value\n! other = x", "old.key=old value\n other = x"),
    "dtd": ('<!-- Was: <!ENTITY second "zwei"> -->', ' Was: <!ENTITY second "zwei"> '),
    "ini": ("; old=value\n#k2=v2", " old=value\nk2=v2"),
    "inc": ("# #define OLD value", "#define OLD value"),
    "po": ('#| msgid "old"\n#| msgctxt "c"\n', '#| msgid "old"\n#| msgctxt "c"\n'),
    "ftl": ("# old = value", "old = value"),
    "android": ('<!-- <string name="old">v</string> -->', '<string name="old">v</string>'),
}
FREE_RECORD = {   # the same as a standalone comment block (with its separator) in a gap: garbage lands directly after / before it
    "properties": "#old.key=old value\n\n", "dtd": '<!-- <!ENTITY old "v"> -->\n\n', "ini": "; old=value\n\n",
    "inc": "# #define OLD value\n\n", "po": '#~ msgid "old"\n#~ msgstr "alt"\n\n\n', "ftl": "## old = value\n\n",
    "android": '<!-- <string name="old">v</string> -->\n\n  ',
}


def layouts(fmt):
    """(name, dict) list: the fixed layouts of the bounded-exhaustive part"""
    if fmt == "properties":
        return [dict(gaps=["\n"], end="\n"), dict(gaps=["\n\n"], end="", sep=" = ", trail="  "), dict(gaps=["\n \n"], end="\n\n", sep=":", indent="  "),
                dict(gaps=["\n", "\n\n" + FREE[fmt]], end="\n", sep="\t=\t", trail="\t"), dict(lead="\n", gaps=["\n"], end="", sep=" :"),
                dict(gaps=["\n" + FREE2[fmt], "\n \n" + FREE2[fmt] + "\t"], end="\n"),
                dict(gaps=["\n" + FREE_RECORD[fmt], "\n\n" + FREE_RECORD[fmt]], end="\n")]
    if fmt == "dtd":
        return [dict(gaps=["\n"], end="\n"), dict(gaps=["\n\n"], end="", w1="\n  ", w2="\t", w3=" ", cws=" "), dict(gaps=[""], end="", cws=""),
                dict(gaps=["\n", "\n\n" + FREE[fmt]], end="\n", q="'"), dict(lead="\ufeff", gaps=["\n"], end="\n"), dict(lead="\n", gaps=["\n"], end=""),
                dict(gaps=["\n" + FREE2[fmt], " " + FREE2[fmt] + "  "], end="\n"),
                dict(gaps=["\n" + FREE_RECORD[fmt], "\n\n" + FREE_RECORD[fmt]], end="\n")]
    if fmt == "ini":
        return [dict(gaps=["\n"], end="\n"), dict(gaps=["\n\n"], end=""), dict(head="[Strings]\n", gaps=["\n"], end="\n"),
                dict(gaps=["\n", "\n\n" + FREE[fmt]], end="\n", indent="  "), dict(lead="\n", gaps=["\n"], end=""),
                dict(gaps=["\n" + FREE2[fmt], "\n\n" + FREE2[fmt]], end="\n"),
                dict(gaps=["\n" + FREE_RECORD[fmt], "\n\n" + FREE_RECORD[fmt]], end="\n")]
    if fmt == "inc":
        return [dict(gaps=["\n"], end="\n"), dict(gaps=["\n"], end="", w1="  ", w2="\t"),
                dict(head="#filter emptyLines\n\n", gaps=["\n\n", "\n"], end="\n\n#unfilter emptyLines\n"),
                dict(head="#filter emptyLines\n", gaps=["\n\n" + FREE[fmt], "\n\n\n"], end="\n"),
                dict(head="#filter emptyLines\n", gaps=["\n" + FREE_RECORD[fmt], "\n\n" + FREE_RECORD[fmt]], end="\n")]
    if fmt == "po":
        return [dict(gaps=["\n\n"], end="\n"), dict(gaps=["\n"], end=""), dict(gaps=["\n\n\n" + FREE[fmt], "\n\n"], end="\n\n"),
                dict(lead="\n", gaps=["\n\n"], end="\n"), dict(gaps=["\n" + FREE2[fmt], "\n\n" + FREE2[fmt]], end="\n"),
                dict(gaps=["\n\n" + FREE_RECORD[fmt], "\n" + FREE_RECORD[fmt]], end="\n")]
    if fmt == "ftl":
        return [dict(gaps=["\n"], end="\n"), dict(gaps=["\n\n"], end="", eq="="), dict(gaps=["\n\n" + FREE[fmt], "\n"], end="\n", eq="  =  "),
                dict(lead="\n", gaps=["\n\n\n"], end="\n\n"), dict(gaps=["\n\n" + FREE_RECORD[fmt]], end="\n")]
    if fmt == "android":
        H = '<?xml version="1.0" encoding="utf-8"?>\n<resources>'
        return [dict(head=H + "\n  ", gaps=["\n  "], end="\n</resources>\n"), dict(head="<resources>", gaps=[""], end="</resources>", cws=""),
                dict(head=H + "\n\n  ", gaps=["\n\n  ", "\n  " + FREE[fmt]], end="\n\n</resources>", cws=" "),
                dict(head='<resources xmlns:x="urn:x">\n', gaps=["\n"], end="\n</resources>\n", cws="\n"),
                dict(head=H + "\n  ", gaps=["\n  " + FREE2[fmt]], end="\n</resources>\n"),
                dict(head=H + "\n  ", gaps=["\n  " + FREE_RECORD[fmt]], end="\n</resources>\n")]
    raise KeyError(fmt)


def rand_layout(rng, fmt):
    lay = dict(rng.choice(layouts(fmt)))
    if fmt == "properties":
        lay.update(sep=rng.choice(PROPS_SEPS), trail=rng.choice(["", "", " ", "\t "]), indent=rng.choice(["", "", "  "]))
        lay["gaps"] = [rng.choice(["\n", "\n\n", "\n  \n", "\n\n" + FREE[fmt], "\n" + FREE2[fmt], "\n" + FREE_RECORD[fmt]]) for _ in range(3)]
    elif fmt == "dtd":
        lay.update(w1=rng.choice([" ", "\n", "\t "]), w2=rng.choice([" ", "\n  "]), w3=rng.choice(["", " ", "\n"]),
                   cws=rng.choice(["\n", " ", "", "\n  "]))
        lay["gaps"] = [rng.choice(["\n", "\n\n", "", " ", "\n\n" + FREE[fmt], "\n" + FREE2[fmt], "\n" + FREE_RECORD[fmt]]) for _ in range(3)]
    elif fmt == "ini":
        lay["gaps"] = [rng.choice(["\n", "\n\n", "\n\n" + FREE[fmt], "\n" + FREE2[fmt], "\n" + FREE_RECORD[fmt]]) for _ in range(3)]
    elif fmt == "po":
        lay["gaps"] = [rng.choice(["\n", "\n\n", "\n\n\n", "\n\n" + FREE[fmt], "\n" + FREE2[fmt], "\n\n" + FREE_RECORD[fmt]]) for _ in range(3)]
    elif fmt == "ftl":
        lay["gaps"] = [rng.choice(["\n", "\n\n", "\n\n" + FREE[fmt]]) for _ in range(3)]
    return lay


# =============================================================================== documents
class Doc:
    def __init__(self, fmt, recs, lay, garbage=None):
        self.fmt, self.recs, self.lay, self.garbage = fmt, recs, lay, garbage     # garbage = (position, text)

    def render(self):
        """-> text, expected entities [[key, raw, val, comment|ANY]], expected junk [text]"""
        fmt, lay = self.fmt, self.lay
        blocks = []
        for r in self.recs:
            blocks.append(("rec", r, PRINT[fmt](r, lay)))
        if self.garbage is not None:
            pos, g = self.garbage
            blocks.insert(pos, ("garbage", None, g))
        prefix = lay.get("lead", "") + lay.get("head", "")
        out = [prefix]
        gaps = lay["gaps"]
        first_rec_offset = None
        for i, (kind, r, text) in enumerate(blocks):
            if i > 0:
                out.append(gaps[(i - 1) % len(gaps)])
            if kind == "rec" and first_rec_offset is None and r is self.recs[0]:
                first_rec_offset = sum(len(x) for x in out)
            out.append(text)
        if blocks:
            out.append(lay.get("end", ""))
        else:
            out.append(lay.get("end", "") if fmt == "android" else "")
        text = "".join(out)
        exp = []
        for idx, r in enumerate(self.recs):
            c = r.cval
            if r.cval is not None and "License" in r.cval:
                if idx == 0 and fmt in LICENSE_OFFSET:
                    if first_rec_offset < LICENSE_OFFSET[fmt] or (fmt == "dtd" and first_rec_offset == 1 and text[:1] == "\ufeff"):
                        c = None          # the License rule: standalone, never attached
                    else:
                        c = ANY           # not a leading comment: the property does not say
                # inc, ftl, android and all later records: no License rule is claimed or implemented, attached as usual
            # Android: raw_val is the text content as the XML parser decodes it (there is no separate escaped form)
            exp.append([r.key, r.val if fmt == "android" else r.raw, r.val, c])
        junk = [self.garbage[1]] if self.garbage is not None else []
        return text, exp, junk

    def describe(self):
        return {"fmt": self.fmt, "layout": {k: v for k, v in self.lay.items()}, "garbage": self.garbage,
                "records": [{"key": r.key, "raw": r.raw, "comment": r.ctext} for r in self.recs]}


def fixed_records(fmt, i=0):
    """the value features of the bounded-exhaustive part as records with the i-th key"""
    return [rekey(fmt, r, i) for r in fixed_records0(fmt, i)]


def fixed_records0(fmt, i):
    if fmt == "properties":
        return [Rec("k", raw, val) for raw, val in PROPS_VALUES]
    if fmt == "dtd":
        return [Rec("k", raw, val, q='"') for raw, val in DTD_VALUES] + [Rec("k", 'say "x"', 'say "x"', q="'")]
    if fmt == "ini":
        return [Rec("k", raw, val) for raw, val in INI_VALUES]
    if fmt == "inc":
        return [Rec("k", raw, val) for raw, val in INC_VALUES] + [Rec("k", "", "", bare=True)]
    if fmt == "po":
        out = []
        for j, (a, b) in enumerate(PO_VALUES):
            out.append(po_fixed(i, a, b, None if j % 3 else "ctx\\t" + a, multi=(j % 2 == 1)))
        return out + [po_fixed(i, a, b) for a, b in PO_HAZARD]      # escaped backslash before t/r/n (former finding, fixed in b81665f)
    if fmt == "ftl":
        return [Rec("k", raw, raw, block=bool(b)) for raw, b in FTL_VALUES] + [Rec("k", "v", "v", attrs="\n    .title = T\n    .aria = A")]
    if fmt == "android":
        return [Rec("k", raw, val, mode=m) for raw, val, m in AND_VALUES] + [Rec("k", "", "", selfclose=True),
                                                                             Rec("k", "v", "v", attrs=' translatable="false"')]
    raise KeyError(fmt)


def rekey(fmt, r, i):
    """give record r the i-th key of the exhaustive part"""
    if fmt == "po":
        return r          # keys are (msgid, msgctxt): printed with the index already
    names = {"properties": ["key", "other.key-2"], "dtd": ["key", "other.key-2"], "ini": ["key", "other key.2"],
             "inc": ["key", "other_key2"], "ftl": ["key", "-other-key2"], "android": ["key", "other_key.2"]}[fmt]
    return r.with_key(names[i])


def fixed_comments(fmt):
    return [None, SIMPLE_COMMENT[fmt], MULTI_COMMENT[fmt], LICENSE_COMMENT[fmt], RECORD_COMMENT[fmt]]


def gen_exhaustive(ctx, fmt):
    docs = []
    recs = fixed_records(fmt, 0)
    recs1 = fixed_records(fmt, 1)
    lays = layouts(fmt)
    coms = fixed_comments(fmt)
    garb = GARBAGE[fmt]
    # one record: everything
    for r, c, lay in itertools.product(recs, coms, lays):
        r1 = r.with_comment(c)
        docs.append(Doc(fmt, [r1], lay))
        for g in garb:
            for pos in (0, 1):
                docs.append(Doc(fmt, [r1], lay, (pos, g)))
    # no record at all / garbage only
    for lay in lays:
        if not (fmt == "dtd" and lay.get("lead") == "\ufeff"):      # a DTD that is a lone byte-order mark: see probes / NOTES
            docs.append(Doc(fmt, [], lay))
        docs.append(Doc(fmt, [], lay, (0, garb[0])))
    # two records: all value pairs; comments, layouts and garbage positions rotate deterministically so that every
    # (comment pair), (layout), (garbage, position) occurs with many value pairs
    combos = list(itertools.product(coms, coms))
    gp = [None] + [(pos, g) for g in garb for pos in (0, 1, 2)]
    n = 0
    step = 1 if ctx.tier == "thorough" else 1
    for a, b in itertools.product(recs, recs1):
        reps = len(gp) if ctx.tier == "thorough" else 3
        for k in range(reps):
            ca, cb = combos[(n * 7 + k) % len(combos)]
            lay = lays[(n + k) % len(lays)]
            g = gp[(n * 3 + k) % len(gp)] if ctx.tier != "thorough" else gp[k]
            docs.append(Doc(fmt, [a.with_comment(ca), b.with_comment(cb)], lay, g))
        n += step
    return docs


def rand_record(rng, fmt, i):
    if fmt == "properties":
        raw, val, _ = props_value(rng)
        r = Rec(props_key(rng, i), raw, val)
    elif fmt == "dtd":
        q = rng.choice(['"', '"', "'"])
        raw, val = dtd_value(rng, q)
        r = Rec(dtd_key(rng, i), raw, val, q=q)
    elif fmt == "ini":
        raw, val = ini_value(rng)
        r = Rec(ini_key(rng, i), raw, val)
    elif fmt == "inc":
        raw, val = inc_value(rng)
        r = Rec(inc_key(rng, i), raw, val, bare=rng.random() < 0.5)
    elif fmt == "po":
        r = po_record(rng, i, ctxt=rng.random() < 0.3, empty_str=rng.random() < 0.15)
    elif fmt == "ftl":
        raw, block = ftl_value(rng)
        key = ftl_key(rng, i)
        attrs = "\n    .title = some title" if rng.random() < 0.2 else ""
        r = Rec(key, raw, raw, block=bool(block), attrs=attrs)
    else:
        raw, val, mode = android_value(rng)
        if raw == "":
            mode = 0
        r = Rec(android_key(rng, i), raw, val, mode=mode, selfclose=rng.random() < 0.3,
                attrs=rng.choice(["", "", ' translatable="false"']))
    x = rng.random()
    if x < 0.45:
        c = COMMENT[fmt](rng)
        if rng.random() < 0.15:
            c = LICENSE_COMMENT[fmt]
        elif rng.random() < 0.2:
            c = RECORD_COMMENT[fmt]
        r = r.with_comment(c)
    return r


def gen_random(ctx, fmt, count, rng=None):
    rng = rng or ctx.rng("c02", fmt)
    docs = []
    for _ in range(count):
        n = rng.choice([1, 2, 3, 3, 4, 5, 6, 8])
        recs = [rand_record(rng, fmt, i) for i in range(n)]
        lay = rand_layout(rng, fmt)
        g = None
        if rng.random() < 0.5:
            g = (rng.randrange(n + 1), rng.choice(GARBAGE[fmt]))
        docs.append(Doc(fmt, recs, lay, g))
    return docs


# =============================================================================== oracle
def oracle(doc, text, exp, junk, r):
    """compare the implementation's report with the expectation; returns None or a message"""
    if r.get("exc") == "Hang":
        return "parsing does not terminate"
    if "exc" in r:
        return "parsing raised %s: %s" % (r["exc"], r.get("msg"))
    v = r["r"]
    got = v["ents"]
    if len(got) != len(exp):
        return "expected %d entities, got %d (keys %r)" % (len(exp), len(got), [e[0] for e in got])
    for i, (g, e) in enumerate(zip(got, exp)):
        if g[0] != e[0]:
            return "entity %d: key %r, expected %r" % (i, g[0], e[0])
        graw = g[1]
        if doc.recs[i].x.get("block") and graw is not None:
            graw = graw.lstrip(" ")
        if graw != e[1]:
            return "entity %d (%r): raw value %r, expected %r" % (i, e[0], g[1], e[1])
        gval = g[2].lstrip(" ") if doc.recs[i].x.get("block") and g[2] is not None else g[2]
        if gval != e[2]:
            return "entity %d (%r): value %r, expected %r" % (i, e[0], g[2], e[2])
        if e[3] != ANY and g[3] != e[3]:
            return "entity %d (%r): attached comment %r, expected %r" % (i, e[0], g[3], e[3])
    gj = [j.strip() for j in v["junk"]]
    ej = [j.strip() for j in junk]
    if gj != ej:
        return "junk %r, expected %r" % (v["junk"], junk)
    # License rule, second half: the comment is reported as a standalone entry
    if exp and doc.recs[0].cval is not None and "License" in doc.recs[0].cval and exp[0][3] is None:
        if doc.recs[0].cval not in v["comments"]:
            return "leading License comment is not reported as a standalone comment"
    # the localizable-only view shows the same entities and junk
    loc_e = [x[1] for x in v["loc"] if x[0] == "E"]
    loc_j = [x[1].strip() for x in v["loc"] if x[0] == "J"]
    if loc_e != [e[0] for e in exp] or loc_j != ej:
        return "localizable-only view differs from the full view"
    return None


def classify(v):
    return v.get("finding")


def judge_docs(out, ctx, fmt, docs, tag):
    rendered = [d.render() for d in docs]
    texts = [t for t, _, _ in rendered]
    res = pool.pmap("impl.c02", "impl_entities", [[fmt, t] for t in texts], timeout=4.0)
    model = modelp = None
    if fmt in REGEX_FORMATS and ctx.model_ok:
        model = C.run_driver_parallel(["ents %s %s" % (fmt, C.enc(t)) for t in texts])
    for i, (d, (text, exp, junk), r) in enumerate(zip(docs, rendered, res)):
        out.evaluations += 1
        bad = oracle(d, text, exp, junk, r)
        if exp and (junk or any(e[1] != e[2] for e in exp) or any(e[3] not in (None, ANY) for e in exp) or len(exp) > 1):
            out.nontrivial.add((fmt, text))
        out.count("%s.%s" % (fmt, tag))
        if junk:
            out.count("%s.with_garbage" % fmt)
        if bad:
            finding = None
            out.violations.append({"what": "%s: %s" % (fmt, bad), "input": {"fmt": fmt, "text": text, "expected": exp, "junk": junk,
                                                                           "block": [bool(x.x.get("block")) for x in d.recs],
                                                                           "frags": [x.x.get("frags") for x in d.recs] if fmt == "po" else None},
                                   "doc": d.describe(), "finding": finding})
            out.count("%s.violations" % fmt)
        elif model is not None and "r" in r and model[i] != r["r"]["canon"]:
            out.disagreements.append({"op": "ents", "fmt": fmt, "text": text, "impl": r["r"]["canon"], "model": model[i]})
        if len(out.samples) < 14 and tag == "random" and junk and len(exp) >= 2 and out.distribution.get("sampled." + fmt, 0) < 2:
            out.count("sampled." + fmt)
            out.samples.append({"fmt": fmt, "text": text, "expected_entities": exp, "expected_junk": junk})
    return texts


VAL_ALPHA = {
    "props": ["\\", "u", "0", "4", "1", "e", "9", "F", "g", "n", "r", "t", "\n", " ", "\t", "x", "é", "\\u0041", "\\\n  "],
    "po": ["\\", "t", "r", "n", '"', "a", " ", "\\\\", "\\n", "x"],
    "comment": ["#", "!", ";", " ", "a", "\n", "<!--", "-->", "-", "L", "\x0c", "\r"],
}


def value_streams(out, ctx):
    """the value functions in isolation: real code vs model (code transliteration) vs the documented rules"""
    rng = ctx.rng("c02", "values")
    cases = []
    for kind, L in (("props", 3 if ctx.tier == "quick" else 4), ("po", 4 if ctx.tier == "quick" else 5)):
        alpha = VAL_ALPHA[kind]
        for n in range(L + 1):
            for toks in itertools.product(alpha, repeat=n):
                cases.append((kind, "".join(toks)))
        for _ in range(ctx.n(3000, 60000)):
            cases.append((kind, "".join(rng.choice(alpha) for _ in range(rng.randrange(3, 12)))))
    for style in ("plain", "offset1", "offset2", "dtd"):
        alpha = VAL_ALPHA["comment"]
        for n in range(4):
            for toks in itertools.product(alpha, repeat=n):
                cases.append((style, "".join(toks)))
        for _ in range(ctx.n(500, 8000)):
            cases.append((style, "".join(rng.choice(alpha) for _ in range(rng.randrange(3, 10)))))
    res = pool.pmap("impl.c02", "impl_values", [[k, a] for k, a in cases], timeout=4.0, batch=256)
    lines = []
    for kind, arg in cases:
        if kind == "props":
            lines.append("props.val " + C.enc(arg))
        elif kind == "po":
            lines.append("po.unescape " + C.enc(arg))
        else:
            lines.append("comment.val %s %s" % (kind, C.enc(arg)))
    model = C.run_driver_parallel(lines) if ctx.model_ok else [None] * len(lines)
    spec_lines = [("props.spec " if k == "props" else "po.onepass ") + C.enc(a) for k, a in cases if k in ("props", "po")]
    spec = iter(C.run_driver_parallel(spec_lines) if ctx.model_ok else [None] * len(spec_lines))
    for (kind, arg), r, mo in zip(cases, res, model):
        out.evaluations += 1
        out.count("values." + ("comment" if kind not in ("props", "po") else kind))
        sp = next(spec) if kind in ("props", "po") else None
        if "exc" in r:
            out.violations.append({"what": "%s-value: function raised %s: %s" % (kind, r["exc"], r.get("msg")),
                                   "input": {"kind": kind, "arg": arg}, "finding": None})
            continue
        got = r["r"]
        if kind == "props":
            want = ref_props_unescape(arg)
            if got != arg:
                out.nontrivial.add(("props.val", arg))
            if got != want:
                out.violations.append({"what": "properties-value: unescape of %r is %r, documented rules give %r" % (arg, got, want),
                                       "input": {"kind": kind, "arg": arg}, "finding": None})
                continue
            if sp is not None and sp != C.enc(want):
                out.disagreements.append({"op": "props.spec", "arg": arg, "spec": sp, "reference": C.enc(want)})
        elif kind == "po":
            want = ref_po_unescape(arg)
            if got != arg:
                out.nontrivial.add(("po.unescape", arg))
            if got != want:        # demanded for every text: a backslash before any other character is copied
                finding = None
                out.violations.append({"what": "po-value: unescape of fragment %r is %r, one left-to-right pass gives %r" % (arg, got, want),
                                       "input": {"kind": kind, "arg": arg}, "finding": finding})
                continue
            if sp is not None and sp != C.enc(want):
                out.disagreements.append({"op": "po.onepass", "arg": arg, "spec": sp, "reference": C.enc(want)})
        if mo is not None and mo != C.enc(got):
            out.disagreements.append({"op": lines[0].split()[0] if False else kind, "arg": arg, "impl": C.enc(got), "model": mo})


# =============================================================================== round 4: the classes of the list theorems
CLASSES = {
    # name -> (format, generator(rng) -> K.Doc, documents quick/thorough)
    "po.blocks": ("po", lambda rng: K.gen_po(rng, ref_po_unescape), (600, 15000)),
    "properties.blocks": ("properties", lambda rng: K.gen_props(rng, ref_props_unescape), (600, 15000)),
    # garbage locality: blocks, each optionally preceded by a garbage line (often directly in front of a comment whose text is a
    # complete record), optionally a final garbage line
    "po.garbage": ("po", lambda rng: K.gen_po(rng, ref_po_unescape, True), (600, 15000)),
    "properties.garbage": ("properties", lambda rng: K.gen_props(rng, ref_props_unescape, True), (600, 15000)),
    "ini.blocks+garbage": ("ini", lambda rng: K.gen_ini(rng), (800, 20000)),
    "inc.blocks+garbage": ("inc", lambda rng: K.gen_inc(rng), (800, 20000)),
    "dtd.blocks+garbage": ("dtd", lambda rng: K.gen_dtd(rng, ref_xml_unescape), (800, 20000)),
}


def class_streams(out, ctx):
    """the printed classes of the round-4 list theorems, driven through the REAL parser: the expected entries (every span)
    and the expected views are known by construction of the document; the model is compared on the same texts"""
    for name, (fmt, gen, per) in CLASSES.items():
        rng = ctx.rng("c02", "class", name)
        docs = [gen(rng) for _ in range(ctx.n(*per))]
        res = pool.pmap("impl.c02", "impl_class", [[fmt, d.text] for d in docs], timeout=4.0)
        model = modele = None
        if ctx.model_ok:
            model = C.run_driver_parallel(["parse %s %s" % (fmt, C.enc(d.text)) for d in docs])
            modele = C.run_driver_parallel(["ents %s %s" % (fmt, C.enc(d.text)) for d in docs])
        for i, (d, r) in enumerate(zip(docs, res)):
            out.evaluations += 1
            out.count("class.%s" % name)
            for f in d.features:
                out.count("class.feature.%s" % f)
            out.nontrivial.add((name, d.text))
            bad = None
            if r.get("exc") == "Hang":
                bad = "parsing does not terminate"
            elif "exc" in r:
                bad = "parsing raised %s: %s" % (r["exc"], r.get("msg"))
            else:
                v = r["r"]
                want = " | ".join(["done"] + d.entries)
                if v["spans"] != want:
                    bad = "entries (kind full start end key-span val-span pre-comment-span) %r, expected by construction %r" % (v["spans"], want)
                elif v["ents"] != d.views:
                    bad = "entity views %r, expected by construction %r" % (v["ents"], d.views)
                elif v["junk"] != d.junk:
                    bad = "junk %r, expected %r" % (v["junk"], d.junk)
            if bad:
                out.violations.append({"what": "%s class %s: %s" % (fmt, name, bad),
                                       "input": {"fmt": fmt, "text": d.text, "class": name, "entries": d.entries, "views": d.views,
                                                 "junk": d.junk}, "finding": None})
                out.count("class.%s.violations" % name)
                continue
            if model is not None and model[i] != r["r"]["spans"]:
                out.disagreements.append({"op": "parse(class %s)" % name, "fmt": fmt, "text": d.text, "impl": r["r"]["spans"], "model": model[i]})
            elif modele is not None and modele[i] != r["r"]["canon"]:
                out.disagreements.append({"op": "ents(class %s)" % name, "fmt": fmt, "text": d.text, "impl": r["r"]["canon"], "model": modele[i]})
            if len(out.samples) < 20 and out.distribution.get("sampled.class." + name, 0) < 1 and len(d.entries) >= 4:
                out.count("sampled.class." + name)
                out.samples.append({"class": name, "text": d.text, "expected_entries": d.entries, "expected_views": d.views})


# =============================================================================== round 5: histories on ONE parser object
INC_SHARED_FLAG = "C02-inc-interleaved-walks-share-filter-flag"
FTL_STALE_CTX = "C02-fluent-resumed-walk-uses-new-context"


def hist_expect(doc):
    """-> text, the expected localizable sequence BY CONSTRUCTION (records in order, the garbage where it was inserted), exp, junk"""
    text, exp, junk = doc.render()
    seq = [["E", e[0], e[1], e[2], e[3]] for e in exp]
    if doc.garbage is not None:
        seq.insert(doc.garbage[0], ["J", doc.garbage[1].strip()])
    return text, seq, exp


def hist_norm(doc, exp, shown):
    """what the property compares of an entry the implementation showed: Fluent block values modulo their indentation, an
    attached comment the property does not speak about (ANY), junk modulo surrounding white-space"""
    out = []
    keys = [e[0] for e in exp]
    for x in shown:
        if x[0] == "E" and x[1] in keys:
            i = keys.index(x[1])
            raw, val, c = x[2], x[3], x[4]
            if doc.recs[i].x.get("block"):
                raw = raw.lstrip(" ") if raw is not None else raw
                val = val.lstrip(" ") if val is not None else val
            if exp[i][3] == ANY:
                c = ANY
            out.append(["E", x[1], raw, val, c])
        elif x[0] == "J":
            out.append(["J", x[1].strip()])
        else:
            out.append(x)
    return out


def hist_oracle(fmt, ops, r, docs):
    """docs: text -> (doc, seq, exp).  Every complete pass shows exactly the printed records (and exactly the garbage as junk),
    whatever was consumed before; a pass abandoned after k entries shows the first k entries; parse() finds every record by its key."""
    if r.get("exc") == "Hang":
        return ("a history on one parser object does not terminate", None)
    if "exc" in r:
        return ("a history on one parser object raised %s: %s" % (r["exc"], r.get("msg")), None)
    v = r["r"]
    full_of = {}
    for t, f in v["fresh"].items():
        doc, seq, exp = docs[t]
        full = hist_norm(doc, exp, f["full"])
        if [x for x in full if x[0] in "EJ"] != seq:
            return ("fresh parser object: entities/junk %r, expected by construction %r" % ([x for x in full if x[0] in "EJ"], seq), None)
        full_of[t] = full

    def expected_of(text, loc):
        return docs[text][1] if loc else full_of[text]

    tracked = H.track(ops, expected_of)
    recs = []
    for tr, rec in zip(tracked, v["recs"]):
        t = tr.get("text")
        rec = dict(rec)
        if t is not None:
            rec["shown"] = hist_norm(docs[t][0], docs[t][2], rec["shown"])
        recs.append(rec)
    if len(recs) != len(v["recs"]):
        recs = v["recs"]
    bad = H.judge(tracked, recs)
    if bad:
        # root cause of the one recorded candidate: DefinesParser keeps `filter_empty_lines` of a pass on the Context, so a pass
        # that was SUSPENDED while another pass ran on the same Context object resumes with the other pass's flag
        fid = INC_SHARED_FLAG if (fmt == "inc" and bad[1].get("exposed")) else None
        # second candidate: FluentParser.walk builds every entity on `self.ctx` instead of the Context its pass started on, so a
        # pass that is resumed after the parser has read another text shows keys/values cut out of the NEW text
        if fmt == "ftl" and bad[1].get("stale"):
            fid = FTL_STALE_CTX
        return (bad[0], fid)
    for tr, rec in zip(tracked, recs):
        for j, idx, has in rec.get("lookups", []):
            if idx != j or not has:
                return ("parse() (operation %d): looking up the key of entry %d (%r) gives entry %r" % (tr["i"], j, rec["shown"][j][1:2], idx), None)
    return None


def safe_reads(h):
    """readFile translates carriage returns (universal newlines): texts that contain one are read through readContents"""
    return [["RC", op[1]] if op[0] == "RF" and "\r" in op[1] else op for op in h]


def history_streams(out, ctx):
    import time
    t0 = time.time()
    _history_streams(out, ctx)
    out.notes.append("history streams took %.1f s" % (time.time() - t0))


def _history_streams(out, ctx):
    enc = C.enc
    known = {k["id"] for k in C.load_known_findings().get("known", [])}
    candidates = {}
    # (a) printed documents of all seven formats: views
    for fmt in FORMATS:
        rng = ctx.rng("c02", "hist", fmt)
        slow = fmt in ("ftl", "android")
        docs = gen_random(ctx, fmt, ctx.n(18 if slow else 32, 300), rng)
        ex = gen_exhaustive(ctx, fmt)
        docs += [ex[rng.randrange(len(ex))] for _ in range(ctx.n(7 if slow else 12, 120))]
        table = {}
        for d in docs:
            text, seq, exp = hist_expect(d)
            table.setdefault(text, (d, seq, exp))
        texts = [t for t in table if t]
        cnt = {t: (2 * len(table[t][1]) + 1, len(table[t][1])) for t in table}
        hs = []
        for i, t in enumerate(texts):
            hs += H.directed(t, cnt[t][0], cnt[t][1], texts[(i * 7 + 3) % len(texts)], i)
        for _ in range(ctx.n(70 if slow else 130, 2000)):
            hs.append(H.random_history(rng, texts, cnt))
        hs = [safe_reads(h) for h in hs]
        res = pool.pmap("impl.c02", "impl_history", [[fmt, h] for h in hs], timeout=6.0)
        model = None
        if fmt in REGEX_FORMATS and ctx.model_ok:
            model = C.run_driver_parallel(["c02.hist %s %s" % (fmt, H.to_model(h, enc)) for h in hs])
        out.count("hist.%s" % fmt, len(hs))
        for i, (h, r) in enumerate(zip(hs, res)):
            out.evaluations += 1
            bad = hist_oracle(fmt, h, r, table)
            if "r" in r:
                out.nontrivial.add((fmt, "hist", json_key(h)))
            if bad and bad[1] is not None and bad[1] not in known:
                # a candidate finding that is not recorded in known_findings.json yet: reported in the evidence notes,
                # judged (KNOWN-FINDING) as soon as it is recorded
                candidates.setdefault(bad[1], {"what": bad[0], "input": {"fmt": fmt, "history": h}})
                out.count("hist.%s.candidate.%s" % (fmt, bad[1]))
                continue
            if bad:
                bad, fid = bad
                out.violations.append({"what": "%s history on one parser object: %s" % (fmt, bad),
                                       "input": {"fmt": fmt, "history": h,
                                                 "docs": {t: [table[t][1], table[t][2], [bool(x.x.get("block")) for x in table[t][0].recs]]
                                                          for t in {op[1] for op in h if op[0] in H.READS}}},
                                       "finding": fid})
                out.count("hist.%s.violations" % fmt)
            elif model is not None and "r" in r and model[i] != r["r"]["canon"]:
                out.disagreements.append({"op": "c02.hist", "fmt": fmt, "history": h, "impl": r["r"]["canon"], "model": model[i]})
    # (b) the printed classes of the list theorems: every span of every entry of both views is known by construction
    for name, (fmt, gen, per) in CLASSES.items():
        rng = ctx.rng("c02", "hist", "class", name)
        docs = [gen(rng) for _ in range(ctx.n(11, 150))]
        table = {d.text: d for d in docs}
        texts = [t for t in table if t]
        cnt = {t: (len(table[t].entries), len([e for e in table[t].entries if e[0] in "EJ"])) for t in table}
        hs = []
        for i, t in enumerate(texts):
            hs += H.directed(t, cnt[t][0], cnt[t][1], texts[(i * 7 + 3) % len(texts)], i)
        if fmt == "inc":
            for i, t in enumerate(texts):
                hs += H.every_cut(t, cnt[t][0], i)
        for _ in range(ctx.n(50, 800)):
            hs.append(H.random_history(rng, texts, cnt))
        hs = [safe_reads(h) for h in hs]
        res = pool.pmap("impl.parse", "impl_history", [[fmt, h] for h in hs], timeout=6.0)
        model = C.run_driver_parallel(["c01.gen %s %s" % (fmt, H.to_model(h, enc)) for h in hs]) if ctx.model_ok else None
        out.count("hist.class.%s" % name, len(hs))

        def expected_of(text, loc):
            es = table[text].entries
            return [e for e in es if e[0] in "EJ"] if loc else es

        for i, (h, r) in enumerate(zip(hs, res)):
            out.evaluations += 1
            bad = fid = None
            if r.get("exc") == "Hang":
                bad = "a history on one parser object does not terminate"
            elif "exc" in r:
                bad = "a history on one parser object raised %s: %s" % (r["exc"], r.get("msg"))
            else:
                j = H.judge(H.track(h, expected_of), r["r"]["recs"])
                bad = j[0] if j else None
                out.nontrivial.add((name, "hist", r["r"]["canon"]))
                if j and fmt == "inc" and j[1].get("exposed"):
                    fid = INC_SHARED_FLAG
            if bad and fid is not None and fid not in known:
                candidates.setdefault(fid, {"what": bad, "input": {"fmt": fmt, "history": h}})
                out.count("hist.class.%s.candidate.%s" % (name, fid))
                continue
            if bad:
                out.violations.append({"what": "%s class %s, history on one parser object: %s" % (fmt, name, bad),
                                       "input": {"fmt": fmt, "history": h, "class": name,
                                                 "class_entries": {t: table[t].entries for t in {op[1] for op in h if op[0] in H.READS}}},
                                       "finding": fid})
                out.count("hist.class.%s.violations" % name)
            elif model is not None and model[i] != r["r"]["canon"]:
                out.disagreements.append({"op": "c01.gen(class %s)" % name, "fmt": fmt, "history": h, "impl": r["r"]["canon"], "model": model[i]})
    _notes_candidates(out, candidates)


def _notes_candidates(out, candidates):
    for fid, c in candidates.items():
        out.notes.append("CANDIDATE FINDING %s (not in known_findings.json, not judged): %s; first input %r" % (fid, c["what"], c["input"]))


def json_key(h):
    import json
    return json.dumps(h, sort_keys=True)


# =============================================================================== Android: comment groups, trailing comments, PIs, junk documents
def android_extra_doc(rng):
    """-> text, expected entities, expected junk (None = one junk entry, any text), expected stand-alone comments.
    Consecutive comments separated by white-space with at most one newline are ONE comment (joined with the normalised
    white-space); the group is attached to a <string> that follows it after white-space with at most one newline, otherwise
    (end of <resources>, a processing instruction, a blank line) it is a stand-alone comment."""
    r = rng.random()
    if r < 0.06:
        text = '<resources><string name="k">v</string'            # not well-formed: ONE junk entry, the whole text
        return text, [], [text], []
    if r < 0.12:
        return '<other><string name="k">v</string></other>', [], None, []
    ws1 = lambda: rng.choice(["", " ", "\n", "\n  ", "\t"])
    ws2 = lambda: rng.choice(["\n\n", "\n  \n  ", "\n\n\n"])
    out, ents, comments = ["<resources>" + rng.choice(["", "\n  "])], [], []
    n = rng.choice([1, 2, 3, 4])
    for i in range(n):
        kind = rng.choice(["string", "string", "group+string", "group+string", "group+blank", "group+pi"])
        cval = None
        if kind.startswith("group"):
            k = rng.choice([1, 1, 2, 3])
            texts = [rng.choice(["", " "]) + rand_plain(rng, extra="=<>&'\"", forbid="-", n=rng.randrange(1, 6)) + rng.choice(["", " "])
                     for _ in range(k)]
            seps = [ws1() for _ in range(k - 1)]
            xml = "<!--" + texts[0] + "-->"
            cval = ref_android_normalize(texts[0])
            for s_, t_ in zip(seps, texts[1:]):
                xml += s_ + "<!--" + t_ + "-->"
                cval += ref_android_normalize(s_) + ref_android_normalize(t_)
            out.append(xml)
            if kind == "group+blank":
                out.append(ws2())
                comments.append(cval)
                cval = None
            elif kind == "group+pi":
                out.append(ws1() + "<?pi x?>" + ws1())
                comments.append(cval)
                cval = None
            else:
                out.append(ws1())
        key = "k%d" % i
        val = rand_plain(rng, extra="=:'", n=rng.randrange(0, 6)).strip()
        out.append('<string name="%s">%s</string>' % (key, val) + rng.choice(["", "\n  ", "\n\n  "]))
        ents.append([key, val, val, cval])
    if rng.random() < 0.5:
        # a comment group at the very end of <resources>: stand-alone
        t_ = " " + rand_plain(rng, forbid="-", n=3) + " "
        out.append("<!--" + t_ + "-->" + rng.choice(["", "\n", "\n\n"]))
        comments.append(ref_android_normalize(t_))
    out.append("</resources>" + rng.choice(["", "\n"]))
    return "".join(out), ents, [], comments


def android_extra(out, ctx):
    rng = ctx.rng("c02", "android-extra")
    docs = [android_extra_doc(rng) for _ in range(ctx.n(400, 6000))]
    res = pool.pmap("impl.c02", "impl_entities", [["android", d[0]] for d in docs], timeout=4.0)
    for (text, ents, junk, comments), r in zip(docs, res):
        out.evaluations += 1
        out.count("android.extra")
        out.nontrivial.add(("android.extra", text))
        bad = None
        if "exc" in r:
            bad = "parsing raised %s: %s" % (r["exc"], r.get("msg"))
        else:
            v = r["r"]
            if v["ents"] != ents:
                bad = "entities %r, expected %r" % (v["ents"], ents)
            elif junk is None and len(v["junk"]) != 1:
                bad = "expected ONE junk entry for a document whose root is not <resources>, got %r" % (v["junk"],)
            elif junk is not None and v["junk"] != junk:
                bad = "junk %r, expected %r" % (v["junk"], junk)
            elif v["comments"] != comments:
                bad = "stand-alone comments %r, expected %r" % (v["comments"], comments)
        if bad:
            out.violations.append({"what": "android (comment groups / document junk): %s" % bad,
                                   "input": {"fmt": "android", "text": text, "android_extra": [ents, junk, comments]}, "finding": None})


def po_wellformed(frag):
    """does the fragment match the body of reListItem: (?:\\\\[\\\\trn"]|[^"\\n\\\\])*"""
    i, n = 0, len(frag)
    while i < n:
        if frag[i] == "\\":
            if i + 1 < n and frag[i + 1] in PO_ESC:
                i += 2
                continue
            return False
        if frag[i] in '"\n':
            return False
        i += 1
    return True


def run(ctx):
    out = Outcome()
    out.rule = ("per format (properties, dtd, ini, inc, po, ftl, android): documents printed from records; bounded-exhaustive part = "
                "every fixed value feature x {no, simple, multi-line, License} comment x every fixed layout x {no garbage, each garbage "
                "line at each insertion point} for one record, all ordered pairs of value features for two records with rotating "
                "comments/layouts/garbage positions, plus empty documents; random part = seeded documents of 1-8 records with values "
                "from the random value grammar, random layouts, comments and garbage; plus the value functions in isolation "
                "(properties unescape, PO fragment unescape, comment values) on all short token strings and random longer ones. "
                "non-trivial = document with an entity and (garbage, an escape that changes the value, an attached comment or >= 2 "
                "records), or a value changed by unescaping; distinct = distinct (format, text)")
    for fmt in FORMATS:
        docs = gen_exhaustive(ctx, fmt)
        out.count("%s.exhaustive_docs" % fmt, len(docs))
        judge_docs(out, ctx, fmt, docs, "exhaustive")
        per = {"ftl": (700, 12000), "android": (900, 15000)}.get(fmt, (1500, 30000))
        rdocs = gen_random(ctx, fmt, ctx.n(*per))
        texts = judge_docs(out, ctx, fmt, rdocs, "random")
        # spans through the model as well (same canonical form as C01) on a sample of the printed texts
        if fmt in REGEX_FORMATS and ctx.model_ok:
            sample = texts[:ctx.n(400, 4000)]
            res = pool.pmap("impl.parse", "impl_parse_full", [[fmt, t] for t in sample], timeout=4.0)
            mod = C.run_driver_parallel(["parse %s %s" % (fmt, C.enc(t)) for t in sample])
            for t, r, mo in zip(sample, res, mod):
                out.evaluations += 1
                if "r" in r and r["r"]["canon"] != mo:
                    out.disagreements.append({"op": "parse", "fmt": fmt, "text": t, "impl": r["r"]["canon"], "model": mo})
        if fmt in REGEX_FORMATS and ctx.model_ok:
            near_misses(out, ctx, fmt, texts)
        if fmt == "ftl" and ctx.model_ok:
            # the Fluent walk (white-space/junk trimming around the external parser's body) through the model
            sample = texts[:ctx.n(700, 6000)]
            res = pool.pmap("impl.parse", "impl_fluent", [[t] for t in sample], timeout=4.0)
            lines = ["fluentwalk 0 %s %s" % (C.enc(t), r["r"]["body"] if "r" in r else "") for t, r in zip(sample, res)]
            mod = C.run_driver_parallel(lines)
            for t, r, mo in zip(sample, res, mod):
                out.evaluations += 1
                out.count("ftl.fluentwalk")
                if "r" in r and r["r"]["canon"] != mo:
                    out.disagreements.append({"op": "fluentwalk", "text": t, "impl": r["r"]["canon"], "model": mo})
    value_streams(out, ctx)
    class_streams(out, ctx)
    history_streams(out, ctx)
    android_extra(out, ctx)
    probes(out)
    return out


def near_misses(out, ctx, fmt, texts):
    """correspondence only (never judged by the oracle): printed documents damaged by one edit -- a newline inserted,
    a character deleted, a line duplicated, a blank line added -- so that the model is also tied to the code just
    outside the legal layouts (e.g. blank lines in .inc files outside `#filter emptyLines`)"""
    rng = ctx.rng("c02", "near", fmt)
    cases = []
    for t in texts[:ctx.n(500, 6000)]:
        if not t:
            continue
        k = rng.randrange(4)
        pos = rng.randrange(len(t) + 1)
        if k == 0:
            u = t[:pos] + "\n" + t[pos:]
        elif k == 1:
            u = t[:pos] + t[pos + 1:]
        elif k == 2:
            lines = t.split("\n")
            j = rng.randrange(len(lines))
            u = "\n".join(lines[:j + 1] + lines[j:])
        else:
            lines = t.split("\n")
            j = rng.randrange(len(lines))
            u = "\n".join(lines[:j] + [""] + lines[j:])
        cases.append(u)
    res = pool.pmap("impl.c02", "impl_entities", [[fmt, t] for t in cases], timeout=4.0)
    mod = C.run_driver_parallel(["ents %s %s" % (fmt, C.enc(t)) for t in cases])
    for t, r, mo in zip(cases, res, mod):
        out.evaluations += 1
        out.count("%s.near_miss" % fmt)
        if "r" in r and r["r"]["canon"] != mo and not r["r"]["canon"].startswith("runaway"):
            out.disagreements.append({"op": "ents(near-miss)", "fmt": fmt, "text": t, "impl": r["r"]["canon"], "model": mo})


def probes(out):
    """behaviour of the real code at the points the hypotheses / legality rules exclude (informational, never judged)"""
    from impl import c02 as I
    notes = []

    def ents(fmt, text):
        try:
            return I.impl_entities(fmt, text)["ents"]
        except Exception as e:      # noqa
            return "raised %s" % type(e).__name__
    notes.append("properties value ending in an escaped blank `a=b\\ ` -> %r (trailing-whitespace strip ignores the escape)" % (
        ents("properties", "a=b\\ \n"),))
    notes.append("properties leading blank line then License comment `\\n# License\\na=b` -> %r (rule needs offset 0)" % (
        ents("properties", "\n# License\na=b"),))
    notes.append("po comment, ONE blank line, entity `# c\\n\\nmsgid \"a\"\\nmsgstr \"b\"` -> %r (still attached: the comment regex "
                 "eats its own newline)" % (ents("po", '# c\n\nmsgid "a"\nmsgstr "b"'),))
    notes.append("android raw text between elements is reported as white-space, not junk: %r" % (
        I.impl_entities("android", "<resources>garbage<string name=\"a\">v</string></resources>")["junk"],))
    notes.append("properties comment containing a form feed: %r (splitlines() treats \\x0c as a line end and drops one more character)" % (
        ents("properties", "#a\x0cbc\nk=v"),))
    r = I.impl_entities("dtd", "\ufeff")
    notes.append("dtd file that is a lone byte-order mark -> junk %r (an empty Junk entry)" % (r["junk"],))
    r = I.impl_entities("dtd", "<!-- \U0001F600 -->\n<!ENTITY a \"b\">")
    notes.append("dtd comment with an astral character -> entities %r junk %r (comment class ends at U+FFFD)" % (r["ents"], r["junk"]))
    # excluded points of the round-2 list theorems (negation witnesses in Props/C02.lean)
    def both(fmt, text):
        try:
            r = I.impl_entities(fmt, text)
            return (r["ents"], r["junk"])
        except Exception as e:      # noqa
            return "raised %s" % type(e).__name__
    notes.append("properties garbage line containing `#` between records `a=b\\nx # y\\nc=d\\n` -> %r (junk ends at the `#`; "
                 "`# y` becomes the pre-comment of c: the comment regex is not anchored at a line start)" % (both("properties", "a=b\nx # y\nc=d\n"),))
    notes.append("properties garbage line starting with a blank `a=b\\n x\\nc=d\\n` -> %r" % (both("properties", "a=b\n x\nc=d\n"),))
    notes.append("ini key containing `=` `[S]\\na=b=c\\n` -> %r (key ends at the first `=`)" % (both("ini", "[S]\na=b=c\n"),))
    notes.append("inc key with a non-word character `#define a-b x\\n` -> %r (entity `a`, rest of the line junk)" % (both("inc", "#define a-b x\n"),))
    notes.append("inc empty value printed with the blank `#define b \\n` -> %r" % (both("inc", "#define b \n"),))
    notes.append("dtd key starting with a digit `<!ENTITY 1a \"x\">\\n` -> %r" % (both("dtd", '<!ENTITY 1a "x">\n'),))
    notes.append("po quoted text on the line after msgstr `msgid \"a\"\\nmsgstr \"x\"\\n\"yz\"\\n` -> %r (continuation fragment)" % (
        both("po", 'msgid "a"\nmsgstr "x"\n"yz"\n'),))
    # round 4: excluded points of the whole-file theorems
    notes.append("dtd garbage directly in front of a PARAMETER ENTITY `x\\n<!ENTITY %% n SYSTEM \"u\"> %%n;\\n<!ENTITY k \"v\">` -> %r (neither reKey nor "
                 "reComment matches at `<!ENTITY %%`: the junk swallows the parameter entity; excluded by `JOk`)" % (
                     both("dtd", 'x\n<!ENTITY % n SYSTEM "u"> %n;\n<!ENTITY k "v">'),))
    notes.append("ini INDENTED comment `a=b\\n  ; c\\nx=y\\n` -> %r (`^` in reComment: not a comment, junk)" % (both("ini", "a=b\n  ; c\nx=y\n"),))
    notes.append("ini garbage followed by an indented record `oops\\n  x=y\\n` -> %r (the indentation is part of the KEY: reKey is `.+?=`)" % (
        both("ini", "oops\n  x=y\n"),))
    notes.append("po garbage line starting with a quote `msgid \"a\"\\nmsgstr \"b\"\\n\"x\" y\\n` -> %r (the quoted text continues msgstr)" % (
        both("po", 'msgid "a"\nmsgstr "b"\n"x" y\n'),))
    notes.append("properties key containing a blank `a b=c` -> %r (kept by the code; the theorem's key class has no blanks)" % (both("properties", "a b=c\n"),))
    notes.append("inc blank line without `#filter emptyLines` `#define A b\\n\\n#define C d\\n` -> %r (two newlines are junk)" % (
        both("inc", "#define A b\n\n#define C d\n"),))
    notes.append("android <string> with mixed content `<string name=\"k\"><b>x</b> y</string>` -> %r (textContent falls back to toxml())" % (
        both("android", '<resources><string name="k"><b>x</b> y</string></resources>'),))
    from impl.parse import get_parser
    notes.append("walk() of a parser that has read nothing yields no entry: %r" % (
        {f: len(list(get_parser(f).walk())) for f in FORMATS},))
    out.notes += notes


def replay(payload):
    from impl import c02 as I
    res = []
    for v in payload.get("violations", []):
        i = v["input"]
        if "history" in i and "class_entries" in i:
            r = pool.pmap("impl.parse", "impl_history", [[i["fmt"], i["history"]]], timeout=10.0)[0]
            ce = i["class_entries"]
            j = None
            if "r" in r:
                j = H.judge(H.track(i["history"], lambda t, loc: [e for e in ce[t] if e[0] in "EJ"] if loc else ce[t]), r["r"]["recs"])
            res.append({"input": {"fmt": i["fmt"], "history": i["history"]}, "oracle": (j[0] if j else None) if "r" in r else str(r)})
            continue
        if "history" in i:
            r = pool.pmap("impl.c02", "impl_history", [[i["fmt"], i["history"]]], timeout=10.0)[0]
            table = {}
            for t, (seq, exp, blocks) in i["docs"].items():
                d = Doc(i["fmt"], [Rec(e[0], e[1], e[2], None, e[3], block=b) for e, b in zip(exp, blocks)], {}, None)
                table[t] = (d, seq, exp)
            bad = hist_oracle(i["fmt"], i["history"], r, table)
            res.append({"input": {"fmt": i["fmt"], "history": i["history"]}, "oracle": bad[0] if bad else None})
            continue
        if "kind" in i:
            got = I.impl_values(i["kind"], i["arg"])
            want = ref_props_unescape(i["arg"]) if i["kind"] == "props" else ref_po_unescape(i["arg"])
            res.append({"input": i, "got": got, "expected": want, "oracle": None if got == want else "value differs"})
            continue
        if "android_extra" in i:
            r = pool.pmap("impl.c02", "impl_entities", [["android", i["text"]]], timeout=10.0)[0]
            ents, junk, comments = i["android_extra"]
            ok = "r" in r and r["r"]["ents"] == ents and r["r"]["comments"] == comments and \
                ((junk is None and len(r["r"]["junk"]) == 1) or r["r"]["junk"] == junk)
            res.append({"input": {"fmt": "android", "text": i["text"]}, "oracle": None if ok else "entities/comments/junk differ from the construction"})
            continue
        if "class" in i:
            r = pool.pmap("impl.c02", "impl_class", [[i["fmt"], i["text"]]], timeout=10.0)[0]
            ok = "r" in r and r["r"]["spans"] == " | ".join(["done"] + i["entries"]) and r["r"]["ents"] == i["views"] and \
                r["r"]["junk"] == i["junk"]
            res.append({"input": {"fmt": i["fmt"], "text": i["text"]}, "oracle": None if ok else "entries/views differ from the construction"})
            continue
        r = pool.pmap("impl.c02", "impl_entities", [[i["fmt"], i["text"]]], timeout=10.0)[0]
        d = Doc(i["fmt"], [Rec(e[0], e[1], e[2], None, e[3], block=b) for e, b in zip(i["expected"], i.get("block") or [False] * len(i["expected"]))],
                {}, (0, i["junk"][0]) if i["junk"] else None)
        res.append({"input": {"fmt": i["fmt"], "text": i["text"]}, "oracle": oracle(d, i["text"], i["expected"], i["junk"], r)})
    return {"violates": any(r["oracle"] for r in res), "cases": res}

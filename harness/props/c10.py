"""C10 — Summaries count every event once; quiet hides only details; exit = errors."""
import itertools
import json
import os

from lib import common as C
from lib import pool
from lib.runner import Outcome

ID = "C10"
LEAN_TARGETS = ["CLModel.Props.C10"]
M = "CLModel.Props.C10"
THEOREMS = [
    (M, "C10.tree_invariant", "Tree.__get never raises on a non-empty path and keeps sibling keys non-empty with pairwise distinct first segments"),
    (M, "C10.tree_refines_map", "after tree[path].append(x) the value stored for `path` got x appended and every other path is untouched (all paths, any nesting)"),
    (M, "C10.tree_flatten_once", "every path is stored at exactly one node: the flattened tree lists each path once, with the value the lookup finds"),
    (M, "C10.tojson_paths", "for prefix-free path sets toJSON shows every stored list exactly once, under dict keys that joined with '/' give the file's path"),
    (M, "C10.details_spec", "after any history the details of a path are exactly the non-ignored, non-hidden notifications raised for files with that path, in order"),
    (M, "C10.summary_counts", "after any history every summary number = number of non-ignored error/warning notifications (+ sum of non-ignored stats) of that locale"),
    (M, "C10.quiet_summary_inv", "summary, error flag and return values do not depend on the quiet level"),
    (M, "C10.quiet_monotone", "raising the quiet level only removes details: per path the details are a sublist"),
    (M, "C10.list_fanout", "ObserverList returns ignore iff every project observer ignores (always, with no observers); otherwise it notifies itself unfiltered and returns error if any does, else warning; the assert cannot fail"),
    (M, "C10.list_summary_counts", "the list's own summary counts the notifications not ignored by all project observers, and all stats"),
    (M, "C10.exit_iff_errors", "exit status is 1 iff not return_zero and the list's own error total is positive"),
    (M, "C10.list_errors_iff_observers", "the list has counted an error iff some project observer has"),
    (M, "C10.run_total", "no notification sequence over modelled files makes an Observer raise; the tree invariant holds afterwards"),
    (M, "C10.list_run_total", "no notification sequence over modelled files makes an ObserverList raise (the assert holds)"),
    (M, "C10.tojson_history", "after any history over prefix-free file paths toJSON of the details shows every stored list once, under its file's path"),
    (M, "C10.notify_ret", "notify returns the filter's answer (error without filter), independent of quiet"),
    (M, "C10.list_own_as_observer", "the list's own state = an unfiltered Observer fed the events not ignored by all project observers"),
    (M, "C10.prefix_case_witness", "negation witness: a value at an interior node hides its subtree in toJSON (why prefix-freeness is assumed)"),
    (M, "C10.exit_witness", "negation witness: updateStats with errors=0 raises the flag without a counted error"),
    (M, "C10.getcontent_rec", "Tree.getContent yields the node's value first (also at an interior node), then per branch in sorted-key order the key at this depth and the sub-tree's content one level deeper"),
    (M, "C10.getcontent_spec", "read as an outline, getContent() shows every stored path exactly once: one value row holding the list the lookup finds, under key rows whose keys concatenate to the path; nothing else; files in the order of sorted(path tuples); interior values included (no prefix-freeness needed)"),
    (M, "C10.interior_shown_witness", "the interior-node case as it is: getContent shows the list of `a` and then that of `a/b`, toJSON only the first"),
    (M, "C10.serialize_details_spec", "after any history with textual data serializeDetails() returns the newline-join of the row lines (indentation + '/'-joined key; one line per detail with ERROR:/WARNING:/+/-/file-comment prefixes, tuple keys joined with ' | '); the rows are, per path with displayed details, exactly details_spec, under keys concatenating to the file's path, files sorted"),
    (M, "C10.serialize_details_total_iff", "after a history over modelled files serializeDetails returns iff the data of every displayed notification is textual; otherwise TypeError"),
    (M, "C10.line_of_row", "the lines of one getContent row and the text of every kind of details item, spelled out"),
    (M, "C10.list_serialize_details_spec", "the same for the ObserverList itself (what the command prints): details of the events not ignored by all project observers"),
    (M, "C10.serialize_details_witness", "negation witness: an error whose data is a tuple makes serializeDetails raise TypeError"),
    (M, "C10.quiet_text_monotone", "raising quiet only removes (file path, detail line) pairs from what serializeDetails displays, order kept; the displayed files are a sublist"),
    (M, "C10.list_quiet_text_monotone", "the same for the ObserverList at two quiet levels with equally filtered project observers"),
    (M, "C10.quiet_text_lines_witness", "negation witness: the raw text lines are NOT a sublist (path compression changes key lines and indentation)"),
    (M, "C10.summaries_total_iff", "serializeSummaries returns iff the list's summary does not mix None and str locales and (has no locale or there is a project observer); otherwise exactly TypeError resp. IndexError"),
    (M, "C10.serialize_summaries_spec", "where it returns: the newline-join of one block per locale of the list's summary, locales sorted, columns = project observers (+ the list itself with more than one)"),
    (M, "C10.summary_block", "a block: `locale:`, the ten keys in fixed order (rows with a non-zero column only; key left-aligned in 12, cells ' {:6}', blank for zero/missing), then changed*100 // (changed+unchanged+report+missing) of the last column, <= 100, 0 if nothing was counted"),
    (M, "C10.summaries_never_raise", "after any history through a list with >= 1 project observer over files whose locales are all str or all None, serializeSummaries returns"),
    (M, "C10.summaries_witness", "negation witnesses: no project observers + stats -> IndexError; a None locale next to a str locale -> TypeError"),
    (M, "C10.three_way_decision", "the loop body of compareProjects calls add iff the localized file does not exist, else remove iff the reference does not exist, else compare; a localized file without reference path makes os.path.exists(None) raise TypeError"),
    (M, "C10.projects_one_call_per_file", "when compareProjects returns, the ContentComparer methods it called are, in order, exactly one per tuple of list(ProjectFiles(locale, ...)) for the locales in sorted(all_locales), the method given by the two os.path.exists answers; reference File without locale, localized File with the loop's locale (REFERENCE_LOCALE for None), same module"),
    (M, "C10.projects_refine_history", "everything compareProjects does to the observers is ObserverList.run of one event sequence: per remove call one obsoleteFile, per add call missingFile (+ the two updateStats calls, or one error for the reference, unless ignored / no parser), per compare call events about its two files; every project observer ends as if fed that history alone"),
    (M, "C10.projects_file_events_once", "the missingFile/obsoleteFile notifications of a run are exactly one per add call / remove call, for the localized File of that call, in call order; compare raises none"),
    (M, "C10.projects_summary_counts", "after compareProjects every summary number of the union observer and of every project observer is the count over the run's history of the non-ignored findings (existing summary theorems instantiated with compareProjects' event sequence; filters = the projects' filters, none in validation mode)"),
    (M, "C10.handle_exit_iff", "whenever CompareLocales.handle returns, its value is 1 iff not return_zero and the union observer counted an error during compareProjects, iff some project observer did; else 0; the error flag of the union AND of every project observer is up iff that observer counted an error, so the value is the same whether handle reads observers.error or any(observer.error)"),
    (M, "C10.handle_report_blocks", "what handle prints and dumps: details iff non-empty, the 'Summaries for' header with one line per config path iff more than one config, the summaries; with --json - nothing but compareProjects' own prints; JSON data = one toJSON per project observer, to stdout iff '-'"),
    (M, "C10.projects_validation", "None in locales: nothing but None (else TypeError), every project observer unfiltered, every localized File shows REFERENCE_LOCALE; otherwise the filters are the projects' filters and the locales those of all_locales"),
    (M, "C10.projects_locale_order", "compareProjects gives the same result (observers, prints, calls, exception) for two locales arguments with the same members, whatever the order and repetitions"),
    (M, "C10.projects_calls_per_file", "every ContentComparer call of a run is a function (mkCall) of its own enumerated tuple, the matchers of its locale and the two exists answers: module and fpath come from the first matcher matching THIS path, nothing carries over from earlier files"),
    (M, "C10.composed_world_contract", "the composed pipeline model of ContentComparer.compare (C05) keeps the contract CompareRuns for all file contents: only error/warning/missingEntity/obsoleteEntity notifications for the localized file (or the one error of a failed readFile) and one updateStats without `errors`"),
    (M, "C10.composed_exit_iff", "for the composed model (orchestration + pipeline), with no assumption on compare: handle returns 1 iff not return_zero and an error was counted by the union observer, iff by some project observer; flags of all observers as in handle_exit_iff"),
    (M, "C10.composed_refine_history", "for the composed model: a run of compareProjects is ObserverList.run of one history whose file notifications are exactly one per add/remove call and whose stats carry no `errors`"),
    (M, "C10.projects_quiet_hides_only_details", "two runs of compareProjects differing only in quiet (q <= q') make the same calls and prints, end with the same summaries, error flags and exit status for the union and every project observer, and per path the details at q' are a sublist of those at q"),
    (M, "C10.composed_world_quiet_blind", "the composed pipeline model of ContentComparer.compare raises the same events on two observer lists with the same filters (its control flow only reads return values of notify), for all file contents: the quiet theorem holds for the composed model without assumption"),
    (M, "C10.flag_step_invariant", "ONE operation keeps `error flag <-> this observer counted an error`, whatever the state, the filter and its verdict; a notify moves flag and error counter together, iff the category is error and the verdict is not ignore (a finding DOWNGRADED to warning is still counted and still raises the flag)"),
    (M, "C10.flag_iff_counted", "after any history a fresh Observer with ANY filter has its error flag up iff its summary counted an error"),
    (M, "C10.list_flags_iff_counted", "after any history through an ObserverList the flag of the list AND of every project observer is up iff that observer counted an error"),
    (M, "C10.exit_reader_independent", "exit = errors counted whichever flag handle reads: observers.error and any(observer.error for observer in observers) coincide after every history without `errors` stats, both give 1 iff not return_zero and the union counted an error"),
    (M, "C10.downgraded_error_witness", "computed by the model: a filter answering warning for an error message -> counted, flag up, exit 1 (for both readers); answering ignore -> nothing counted, exit 0"),
    (M, "C10.first_reader_witness", "negation witness: reading observers[0].error is not the exit rule (first project ignores, second counts)"),
    (M, "C10.extract_positionals_spec", "extract_positionals splits config_paths + [base] + locales at the first directory: configs = the non-empty prefix of existing files, base = abspath of that directory, locales = the rest or [None] with --validate; otherwise exactly one of the three parser.error messages"),
]
PARTIAL = [
    "quiet_text_monotone is proved for the (file path, detail line) pairs and the displayed files; the literal claim 'the text lines at a "
    "higher quiet level are a sublist' is false (quiet_text_lines_witness: path compression changes key lines and indentation)",
    "the text theorems speak about the rows of getContent() (read as an outline by C10T.outline) and their lines; the key lines between two "
    "value rows are characterised recursively (getcontent_rec), not in closed form from the list of files",
    "serializeSummaries: the model rounds changed*100/total down with integer division; Python formats a float with %d (equal below 2^46 entries)",
    "the list's own details are covered through list_own_as_observer + details_spec / list_serialize_details_spec",
    "orchestration layer: the theorems hold for every World (enumeration per locale, os.path.exists, parser facts); ContentComparer.compare "
    "behind its getParser gate is an INPUT with the contract C10P.CompareRuns (a run of events about its two files, no missingFile/obsoleteFile, "
    "no `errors` stats) — PROVED for the instance the driver runs (composed_world_contract: the pipeline model of C05, formats properties/ini/inc/po); "
    "for DTD/Fluent/Android files the contract is an assumption (witness: a compare that raises missingFile breaks projects_file_events_once); "
    "likewise projects_quiet_hides_only_details takes the contract C10P.CompareSync (compare is blind to everything but the filters), proved for "
    "the composed model (composed_world_quiet_blind; witness: a compare that peeks at the details tree counts differently at two quiet levels)",
    "handle: loading the configs (TOMLParser / EnumerateApp / set_locales(deep=True)) is an input of the model (the projects' filter and all_locales); "
    "the JSON text (json.dump) and file I/O are outside, the data handed to json_dump is compared",
]
TRUSTED = [
    "hand-written models CLModel/Compare/Tree.lean (Tree.__get/toJSON/getContent) and CLModel/Compare/Observer.lean "
    "(Observer/ObserverList notify, updateStats, serializeDetails, serializeSummaries, exit status), tied by the `tree`/`obs` correspondence",
    "Python dicts/defaultdicts modelled as insertion-ordered association lists, sets of return values as duplicate-free lists",
    "filters are pure functions File x entity -> {error, warning, ignore} (the contract of ProjectConfig.filter); for an error / warning "
    "notification the entity is the MESSAGE TEXT, so catch-all key rules and legacy filter.py code answer for those too (generated)",
    "the exit status of an observer history is taken from the real CompareLocales.handle run with stubs for extract_positionals, the "
    "config loader and compareProjects (harness/impl/observer.py exit_status): no assumption on how handle computes its return value",
    "hand-written model CLModel/Compare/Projects.lean (compareProjects, ContentComparer.add/remove + the getParser gate of compare, handle, "
    "extract_positionals, mozpath.relpath/abspath), tied by the `c10.handle`/`c10.pos`/`c10.rel` correspondence on generated project trees: "
    "enumeration either as tables read off the real ProjectFiles objects or computed by the model of C13 (ProjectFilesM) from the pattern texts, "
    "compare through the pipeline model of C05; literals (REFERENCE_LOCALE, printed lines, error messages) regenerated from the source (Gen/Cmd.lean)",
]
ASSUMPTIONS = [
    "quiet is a non-negative integer (argparse count)",
    "text renderings: the data of error/warning notifications is a str, of missingEntity/obsoleteEntity a str or a tuple (TextData; what the callers pass)",
    "stats dicts use the eleven summary keys; an `errors` entry, which no caller passes, has a positive value (zero is probed separately)",
    "a File that has a module also has a locale (a None locale would become a None path segment)",
    "orchestration layer: a filter sees a File through (file, module, locale) (fullpath is a function of these in a run; counted when not); "
    "os.makedirs of a merge directory is the only OSError source modelled; file contents are in the formats of the pipeline model "
    "(properties, ini, inc, po) or have no parser",
]
LEVEL_TEXT = ("Lean 4 theorems over an executable transliteration of Tree, Observer, ObserverList and the exit-status expression: for ALL "
              "notification histories, filters and quiet levels the summaries equal the counts of non-ignored findings, details sit at "
              "exactly the path they were raised for (radix-tree invariant + refinement to a path->list map, toJSON complete for "
              "prefix-free paths; the printed text of serializeDetails shows every file's details exactly once under its own path, "
              "interior paths included; serializeSummaries is total exactly off the TypeError/IndexError points and prints the counters), "
              "quiet only removes details, and exit=1 iff errors were counted and not return_zero; the model is tied to "
              "the Python by bounded-exhaustive + random differential runs, an independent oracle recomputes everything from the history "
              "(reading the printed details outline and the summary table back), and "
              "whole-command runs over generated project trees tie commands.py; the orchestration layer (compareProjects, ContentComparer.add/remove, "
              "handle, extract_positionals) is modelled too: every enumerated file causes exactly one add/remove/compare, the run refines an event "
              "history to which the summary/exit theorems apply end to end, validation mode disables every filter and shows REFERENCE_LOCALE, the "
              "result does not depend on the order of the locales; tied by running the real handle and the model on generated project trees")
LEVEL_NOTE = ("trusted: Lean kernel; hand-written model validated by correspondence (dict order, set semantics, string formatting); "
              "filters assumed pure with values error/warning/ignore; toJSON completeness needs prefix-free paths (negation witness: an "
              "interior value hides its subtree); exit theorem needs positive `errors` stats (witness: errors=0 sets the flag); text lines are "
              "not monotone in quiet, only the (file, detail) pairs (witness); serializeDetails needs textual data (witness: TypeError); "
              "orchestration layer: ContentComparer.compare behind its getParser gate enters as an input with the contracts CompareRuns / "
              "CompareSync, both proved for the composed pipeline model the driver runs (witnesses for both); config loading is an input")
TECHNIQUE = "Lean 4 proof (radix-tree refinement, induction over histories) + differential correspondence + independent oracle + whole-command runs"

EXTRA_FILES = ("compare_locales/compare/__init__.py", "compare_locales/compare/content.py")

STATKEYS = ["errors", "warnings", "missing", "missing_w", "report", "obsolete", "changed", "changed_w",
            "unchanged", "unchanged_w", "keys"]
FILE_CATS = ("mf", "of")
DETAIL_CATS = ("e", "w", "me", "oe", "mf", "of")
SCRATCH = "/tmp/wt/c10"


# ------------------------------------------------------------------ wire
def wire_opt(t):
    return "-" if t is None else C.enc(t)


def wire_data(d):
    if d is None:
        return ["-"]
    if isinstance(d, (list, tuple)):
        return ["T", str(len(d))] + [wire_opt(p) for p in d]
    return [C.enc(d)]


def split_op(op):
    """a tree op is a list of segments (get + append) or [segments, append?]"""
    if len(op) == 2 and isinstance(op[1], bool):
        return op[0], op[1]
    return op, True


def wire_tree(ops):
    toks = ["tree", str(len(ops))]
    for op in ops:
        parts, app = split_op(op)
        toks.append(str(len(parts)))
        toks += [C.enc(p) for p in parts]
        toks.append("a" if app else "g")
    return " ".join(toks)


def wire_obs(case, tables, quiet):
    toks = ["obs", str(quiet), str(int(case["rz"])), "F", str(len(case["files"]))]
    for file, module, locale in case["files"]:
        toks += [C.enc(file), wire_opt(module), wire_opt(locale)]
    toks += ["O", str(len(tables))]
    for tbl in tables:
        if tbl is None:
            toks.append("N")
        else:
            toks += ["T", str(len(tbl))]
            for fi, d, a in tbl:
                toks += [str(fi)] + wire_data(d) + [a[0]]
    toks += ["E", str(len(case["events"]))]
    for ev in case["events"]:
        if ev[0] == "n":
            toks += ["n", ev[1], str(ev[2])] + wire_data(ev[3])
        else:
            toks += ["s", str(ev[1]), str(len(ev[2]))]
            for k, v in ev[2]:
                toks += [str(k), str(v)]
    return " ".join(toks)


# ------------------------------------------------------------------ generators
SEGS = ["browser", "toolkit", "a", "b", "chrome", "x.ftl", "y.properties", "z.dtd", "de", "fr", "", "é", "a b", "ab"]
LOCALES = ["de", "fr", "sr-Latn"]


def is_prefix(a, b):
    return len(a) <= len(b) and list(b[:len(a)]) == list(a)


def gen_prefix_free(rng, n, alphabet=SEGS, maxlen=5):
    """n segment lists, none a prefix of another, with shared directory prefixes"""
    acc = []
    tries = 0
    while len(acc) < n and tries < 50 * n:
        tries += 1
        if acc and rng.random() < 0.6:
            base = rng.choice(acc)
            cut = rng.randrange(0, len(base))
            cand = list(base[:cut])
        else:
            cand = [rng.choice(LOCALES)] if rng.random() < 0.7 else []
        for _ in range(rng.randrange(1, 4)):
            if len(cand) < maxlen:
                cand.append(rng.choice(alphabet))
        if not cand:
            continue
        if any(is_prefix(p, cand) or is_prefix(cand, p) for p in acc):
            continue
        acc.append(cand)
    return acc


def file_of_parts(rng, parts):
    """a File (file, module, locale) whose Tree segments are `parts`"""
    if len(parts) >= 3 and parts[1] != "" and rng.random() < 0.45:
        k = rng.randrange(2, len(parts))
        module = "/".join(parts[1:k])
        if module:      # an empty module string is falsy: the File would be keyed by `file` alone
            return ("/".join(parts[k:]), module, parts[0])
    r = rng.random()
    loc = parts[0] if r < 0.7 else (None if r < 0.8 else rng.choice(LOCALES))
    return ("/".join(parts), "" if rng.random() < 0.1 else None, loc)


def parts_of(f):
    file, module, locale = f
    if module:
        return [locale] + module.split("/") + file.split("/")
    return file.split("/")


DATA = ["k", "key2", "msg at line 1", "", "é-ü", "-brand"]


def gen_data(rng, cat):
    if cat in FILE_CATS:
        return None
    r = rng.random()
    if cat in ("me", "oe") and r < 0.12:
        return [rng.choice(DATA), rng.choice([None, "ctx"])]
    return rng.choice(DATA)


def gen_observers(rng, allow_project=True):
    n = rng.choice([0, 1, 1, 1, 2, 2, 3])
    obs = []
    for _ in range(n):
        r = rng.random()
        if r < 0.15:
            obs.append(None)
        elif r < 0.85 or not allow_project:
            a = rng.choice([300, 500, 700, 900])
            b = a + rng.choice([0, 100, 200])
            obs.append({"kind": "table", "seed": rng.randrange(1 << 30), "weights": [a, min(b, 1000)],
                        "ignore_locales": [l for l in LOCALES if rng.random() < 0.2]})
        else:
            if rng.random() < 0.3:
                obs.append(gen_filterpy(rng))
                continue
            rules = []
            for _ in range(rng.randrange(0, 4)):
                rule = {"path": "{l}/" + rng.choice(["**", "browser/**", "**/x.ftl", "a/**"]),
                        "action": rng.choice(["ignore", "warning", "error"])}
                if rng.random() < 0.6:
                    # the entity a rule sees is a key for missing/obsolete entities and the MESSAGE TEXT for errors and
                    # warnings: catch-all rules and rules that match message texts answer for those too
                    rule["key"] = rng.choice(["k", "key2", "re:^k", "-brand"] + KEY_RULES_MSG)
                rules.append(rule)
            obs.append({"kind": "project", "locales": [l for l in LOCALES if rng.random() < 0.8] or ["de"], "rules": rules})
    return obs


KEY_RULES_MSG = ["re:.", "re:(?s).*", "re:.*line", "re:^msg", "msg at line 1", "re:.* occurs "]
DATA_MSG = ["k occurs 2 times", "msg at line 1", "Parser error in en-US", "é-ü", "k"]


def gen_filterpy(rng, downgrade=False):
    """a legacy filter.py (`ProjectConfig.set_filter_py`): rules over (path prefix, kind of question, regex) with the
    legacy values True / False / "report" next to the modern ones"""
    if downgrade:
        rules = []
        if rng.random() < 0.4:
            rules.append({"prefix": rng.choice(["de/browser", "fr", "de/a"]), "on": "entity", "match": None, "value": "false"})
        rules.append({"prefix": "", "on": "entity", "match": None, "value": "report"})
        return {"kind": "filterpy", "locales": list(LOCALES), "rules": rules, "default": "error"}
    rules = []
    for _ in range(rng.randrange(0, 4)):
        rules.append({"prefix": rng.choice(["", "", "de", "de/browser", "fr", "toolkit", "a"]),
                      "on": rng.choice(["file", "entity", "entity", "any"]),
                      "match": rng.choice([None, None, "^k", "line", "occurs", "."]),
                      "value": rng.choice(["true", "false", "report", "report", "error", "ignore", "warning"])})
    return {"kind": "filterpy", "locales": [l for l in LOCALES if rng.random() < 0.8] or ["de"], "rules": rules,
            "default": rng.choice(["error", "error", "report", "false"])}


def gen_downgrade_observers(rng):
    """1-3 project observers whose filters answer "warning" or "ignore" — never "error" — for EVERY entity-level
    question (so for every error / warning notification, whose entity is the message text): a TOML catch-all key rule,
    possibly with an ignore rule for a directory after it (later rules win), or a legacy filter.py returning "report" """
    obs = []
    for _ in range(rng.choice([1, 1, 2, 2, 3])):
        r = rng.random()
        if r < 0.3:
            obs.append(gen_filterpy(rng, downgrade=True))
            continue
        rules = [{"path": "{l}/**", "key": rng.choice(["re:.", "re:(?s).*", "re:(?s)."]),
                  "action": "warning" if rng.random() < 0.8 else "ignore"}]
        if rng.random() < 0.35:
            rules.append({"path": "{l}/" + rng.choice(["browser/**", "a/**", "**/x.ftl"]), "key": "re:.", "action": "ignore"})
        if rng.random() < 0.3:
            rules.insert(0, {"path": "{l}/**", "action": rng.choice(["ignore", "warning", "error"])})    # file level
        obs.append({"kind": "project", "locales": [l for l in LOCALES if rng.random() < 0.9] or ["de"], "rules": rules})
    return obs


def gen_history(rng, maxlen, prefix_free=True, downgrade=False):
    """downgrade: every project filter answers "warning"/"ignore" for every error and warning notification, and no stats
    dict carries `errors`: whatever is counted as an error was downgraded by every observer that saw it"""
    nfiles = rng.randrange(1, 8)
    if prefix_free:
        paths = gen_prefix_free(rng, nfiles)
    else:
        paths = [[rng.choice(["a", "b"]) for _ in range(rng.randrange(1, 4))] for _ in range(nfiles)]
    files = [file_of_parts(rng, p) for p in paths]
    # sometimes a second File object for the same path (reference file and localized file share it)
    for p in list(paths):
        if rng.random() < 0.15:
            f = ("/".join(p), None, None)
            if f not in files:
                files.append(f)
    observers = gen_downgrade_observers(rng) if downgrade else gen_observers(rng)
    project = any(o and o["kind"] in ("project", "filterpy") for o in observers)
    events = []
    for _ in range(rng.randrange(1 if downgrade else 0, maxlen + 1)):
        fi = rng.randrange(len(files))
        r = rng.random()
        if r < 0.8:
            if downgrade:
                cat = rng.choice(["e", "e", "e", "w", "w", "me", "oe", "mf", "of"])
                d = None if cat in FILE_CATS else rng.choice(DATA_MSG)
            else:
                cat = rng.choice(["e", "e", "w", "w", "me", "me", "oe", "oe", "mf", "of", "x"])
                d = gen_data(rng, cat)
                if cat in ("e", "w") and rng.random() < 0.4:
                    d = rng.choice(DATA_MSG)
            if project and isinstance(d, list):
                d = "k"         # key rules of a ProjectConfig are regexes over str entities
            events.append(["n", cat, fi, d])
        else:
            ks = rng.sample(range(1, 11), rng.randrange(0, 4))
            st = [[k, rng.choice([0, 1, 2, 7, 123456])] for k in ks]
            if rng.random() < 0.05 and not downgrade:
                st.append([0, rng.randrange(1, 4)])      # an `errors` entry, positive
            events.append(["s", fi, st])
    return {"files": files, "observers": observers, "events": events, "rz": rng.randrange(2), "prefix_free": prefix_free}


def exhaustive_histories(ctx):
    files = [("de/a/x", None, "de"), ("y", "a", "de"), ("fr/z", None, "fr")]
    evs = [["n", c, fi, None if c in FILE_CATS else "k"] for c in DETAIL_CATS for fi in range(3)]
    evs += [["n", "x", 0, "k"], ["s", 0, [[2, 2]]], ["s", 2, [[6, 1], [0, 1]]]]
    configs = [
        [None],
        [{"kind": "table", "seed": 1, "weights": [500, 700], "ignore_locales": []}],
        [{"kind": "table", "seed": 2, "weights": [400, 600], "ignore_locales": ["fr"]}, None],
        [],
        # every entity-level question (keys AND the message texts of errors / warnings) is answered "warning"
        [{"kind": "project", "locales": ["de", "fr"], "rules": [{"path": "{l}/**", "key": "re:.", "action": "warning"}]}],
        # a project that downgrades for de and does not know fr, next to a legacy filter.py that reports everything
        # but ignores the entities of fr/z
        [{"kind": "project", "locales": ["de"], "rules": [{"path": "{l}/**", "key": "re:.", "action": "warning"}]},
         {"kind": "filterpy", "locales": ["de", "fr"], "default": "error",
          "rules": [{"prefix": "fr", "on": "entity", "match": None, "value": "false"},
                    {"prefix": "", "on": "entity", "match": None, "value": "report"}]}],
    ]
    L = 2 if ctx.tier == "quick" else 3
    out = []
    for n in range(L + 1):
        for idx, h in enumerate(itertools.product(evs, repeat=n)):
            cfgs = configs if n <= 2 else [configs[idx % len(configs)]]
            for ci, cfg in enumerate(cfgs):
                out.append({"files": files, "observers": cfg, "events": [list(e) for e in h], "rz": (idx + ci) % 2,
                            "prefix_free": True})
    return out


# ------------------------------------------------------------------ oracle
def json_leaves(j, prefix=()):
    """[(tuple of dict keys from the root, list)] of a toJSON value"""
    if isinstance(j, list):
        return [(prefix, j)]
    out = []
    for k, v in j.items():
        out += json_leaves(v, prefix + (k,))
    return out


def is_sublist(a, b):
    it = iter(b)
    return all(any(x == y for y in it) for x in a)


def expected_observer(case, acts, j):
    """expected rets / counts / error / details(q=0) of project observer j (or of the list for j=None)
    straight from the history.  acts[i][k] = filter result of observer k on event i ("error" without filter)"""
    counts = {}
    error = False
    details = {}
    lines = {}
    rets = []
    for i, ev in enumerate(case["events"]):
        f = case["files"][ev[2] if ev[0] == "n" else ev[1]]
        loc = f[2]
        if j is None:
            a = acts[i]
            if ev[0] == "n":
                if all(x == "ignore" for x in a):
                    act, seen = "ignore", False
                else:
                    act, seen = ("error" if "error" in a else "warning"), True
                own = "error"        # the list itself has no filter
            else:
                seen, own, act = True, "error", None
        else:
            act = acts[i][j]
            seen = act != "ignore"
            own = act
        if ev[0] == "s":
            rets.append(None)
            if seen:
                for k, v in ev[2]:
                    counts[(loc, k)] = counts.get((loc, k), 0) + v
                    if k == 0:
                        error = True
            continue
        rets.append(act)
        if not seen:
            continue
        cat = ev[1]
        if cat == "e":
            counts[(loc, 0)] = counts.get((loc, 0), 0) + 1
            error = True
        elif cat == "w":
            counts[(loc, 1)] = counts.get((loc, 1), 0) + 1
        if cat in DETAIL_CATS:
            item = cat + ":r" + own[0] if cat in FILE_CATS else cat + ":" + show_data(ev[3])
            details.setdefault("/".join(parts_of(f)), []).append(item)
            lines.setdefault("/".join(parts_of(f)), []).append(render_detail(CAT_NAMES[cat], ev[3]))
    return {"rets": rets, "counts": {k: v for k, v in counts.items() if v}, "error": error, "details": details,
            "lines": lines}


def show_data(d):
    if d is None:
        return "d-"
    if isinstance(d, (list, tuple)):
        return "dT" + "|".join("-" if p is None else "t" + ".".join(str(ord(c)) for c in p) for p in d)
    return "dt" + ".".join(str(ord(c)) for c in d)


def counts_of(plain):
    out = {}
    for loc, cs in plain["summary"]:
        for k, v in enumerate(cs):
            if v:
                out[(loc, k)] = v
    return out


# ------------------------------------------------------------------ oracle for the text renderings
CAT_NAMES = {"e": "error", "w": "warning", "me": "missingEntity", "oe": "obsoleteEntity", "mf": "missingFile",
             "of": "obsoleteFile"}
DETAIL_LEADS = ("ERROR: ", "WARNING: ", "+", "-")
DETAIL_FILE_LINES = ("// add and localize this file", "// remove this file")
SUMMARY_KEYS = ("errors", "warnings", "missing", "missing_w", "obsolete", "changed", "changed_w", "unchanged",
                "unchanged_w", "keys")


def render_detail(cat, val):
    """the line the report owes a details item, without indentation (independent reference; `val` is the data
    of the notification, ignored for file categories)"""
    def name(k):
        return " | ".join(x for x in k if x is not None) if isinstance(k, (list, tuple)) else k
    if cat in ("error", "warning") and not isinstance(val, str):
        return None         # not textual: outside what serializeDetails can print (text_judgeable says so)
    if cat == "error":
        return "ERROR: " + val
    if cat == "warning":
        return "WARNING: " + val
    if cat == "missingEntity":
        return "+" + name(val)
    if cat == "obsoleteEntity":
        return "-" + name(val)
    return DETAIL_FILE_LINES[0] if cat == "missingFile" else DETAIL_FILE_LINES[1]


def is_detail_line(body):
    return body.startswith(DETAIL_LEADS) or body in DETAIL_FILE_LINES


def text_judgeable(case):
    """the printed outline can be read back unambiguously: no path segment looks like a details line or starts
    with a space, no text contains a newline"""
    for f in case["files"]:
        if f[1] and f[2] is None:
            return False
        for seg in parts_of(f):
            if seg.startswith(" ") or is_detail_line(seg) or "\n" in seg:
                return False
    for ev in case["events"]:
        if ev[0] == "n" and ev[1] in DETAIL_CATS and ev[1] not in FILE_CATS:
            d = ev[3]
            if d is None or (ev[1] in ("e", "w") and not isinstance(d, str)):
                return False
            if any(x is not None and "\n" in x for x in (d if isinstance(d, (list, tuple)) else [d])):
                return False
    return True


def parse_outline(text):
    """read the report the way a person does: a key line at depth d (2d spaces) replaces the chain of keys from
    level d on; details lines (indented one level deeper than the chain is long) belong to the file named by the
    chain above them.  -> ([(path, [details lines])] in print order, None) or (None, complaint)"""
    if text == "":
        return [], None
    stack, out, cur = [], [], None
    for ln in text.split("\n"):
        body = ln.lstrip(" ")
        ind = len(ln) - len(body)
        if ind % 2:
            return None, "line %r has an odd indentation" % ln
        if is_detail_line(body):
            d = ind // 2 - 1
            if d != len(stack):
                return None, "details line %r at level %d under a chain of %d keys %r" % (ln, d, len(stack), stack)
            if cur is None:
                cur = ["/".join(stack), []]
                out.append(cur)
            cur[1].append(body)
        else:
            d = ind // 2
            if d > len(stack):
                return None, "key line %r at depth %d under a chain of %d keys %r" % (ln, d, len(stack), stack)
            stack = stack[:d] + [body]
            cur = None
    return out, None


TEXT_STATS = {}


def _tick(name, n=1):
    TEXT_STATS[name] = TEXT_STATS.get(name, 0) + n


def oracle_details_text(case, exp_lines, results):
    """serializeDetails(): every file with details appears exactly once, under keys that joined give its own
    path, with exactly its details, one line each: = what the tree stores at every quiet level, = everything
    raised (by construction from the history) at quiet 0"""
    if not text_judgeable(case):
        _tick("text.details.not_judgeable")
        return None
    _tick("text.details.judged")
    if len(exp_lines) >= 2:
        _tick("text.details.judged_2+files")
    for q, r in enumerate(results):
        dt = r["details_text"]
        if "exc" in dt:
            return "quiet=%d: serializeDetails() raised %s" % (q, dt["exc"])
        rows, err = parse_outline(dt["text"])
        if err:
            return "quiet=%d: serializeDetails(): %s" % (q, err)
        shown = {}
        for path, lines in rows:
            if path in shown:
                return "quiet=%d: serializeDetails() shows the file %r twice" % (q, path)
            shown[path] = lines
        want = {"/".join(p): [render_detail(c, v) for c, v in items] for p, items in r["list_items"] if items}
        if shown != want:
            return "quiet=%d: serializeDetails() shows %r, the details tree stores %r" % (q, shown, want)
        if q == 0 and shown != exp_lines:
            return "quiet=0: serializeDetails() shows %r, raised (history): %r" % (shown, exp_lines)
    return None


def parse_summaries(text, ncols):
    """-> ({locale or None: ({key: [ints per column]}, rate)}, None) or (None, complaint)"""
    out = {}
    if text == "":
        return out, None
    block = []
    for ln in text.split("\n"):
        block.append(ln)
        if not (ln.endswith("% of entries changed") and ln[:-len("% of entries changed")].isdigit()):
            continue
        rate = int(ln[:-len("% of entries changed")])
        body = block[:-1]
        block = []
        loc = None
        if body and body[0].endswith(":") and not body[0].startswith(tuple(k.ljust(12) for k in SUMMARY_KEYS)):
            loc = body[0][:-1]
            body = body[1:]
        rows = {}
        for row in body:
            key = row[:12].rstrip(" ")
            cells = row[12:]
            if key not in SUMMARY_KEYS or key in rows or len(cells) != 7 * ncols:
                return None, "summary row %r (expected a key and %d cells of 7 characters)" % (row, ncols)
            vals = []
            for i in range(ncols):
                c = cells[7 * i:7 * i + 7]
                if c.strip() == "":
                    vals.append(0)
                elif c.startswith(" ") and c.strip().isdigit() and c == c.strip().rjust(7):
                    vals.append(int(c))
                else:
                    return None, "summary cell %r in row %r" % (c, row)
            rows[key] = vals
        if loc in out:
            return None, "locale %r printed twice" % (loc,)
        out[loc] = (rows, rate)
    if block:
        return None, "trailing lines %r" % (block,)
    return out, None


def oracle_summaries_text(case, results):
    """serializeSummaries(): per locale of the list's summary one block; every printed number is the (already
    checked) counter of that observer, columns = project observers (+ the list with more than one); the
    percentage is changed*100 // (changed+unchanged+report+missing) of the last column"""
    nobs = len(case["observers"])
    for q, r in enumerate(results):
        own = r["list"]["summary"]
        locs = [loc for loc, _ in own]
        mixed = any(l is None for l in locs) and any(l is not None for l in locs)
        st = r["summaries_text"]
        if mixed or (locs and nobs == 0):
            _tick("text.summaries.excluded_point." + ("raises" if "exc" in st else "returns"))
            continue        # excluded points (TypeError from sorted / IndexError from summaries[-1]); contract probes
        if "exc" in st:
            return "quiet=%d: serializeSummaries() raised %s" % (q, st["exc"])
        cols = [dict((loc, cs) for loc, cs in o["summary"]) for o in r["obs"]]
        if nobs > 1:
            cols.append(dict((loc, cs) for loc, cs in own))
        if any(v >= 10 ** 6 for c in cols for cs in c.values() for v in cs):
            continue        # wider cells; fixed-width reading does not apply
        got, err = parse_summaries(st["text"], len(cols))
        if err:
            return "quiet=%d: serializeSummaries(): %s" % (q, err)
        want = {}
        for loc in locs:
            rows = {}
            for k in SUMMARY_KEYS:
                vals = [c.get(loc, [0] * 11)[STATKEYS.index(k)] for c in cols]
                if any(vals):
                    rows[k] = vals
            last = cols[-1].get(loc, [0] * 11)
            ch, un, rep, mi = (last[STATKEYS.index(k)] for k in ("changed", "unchanged", "report", "missing"))
            total = ch + un + rep + mi
            want[loc or None] = (rows, ch * 100 // total if total else 0)
        if got != want:
            return "quiet=%d: serializeSummaries() prints %r, the counters are %r" % (q, got, want)
        _tick("text.summaries.judged")
        if len(want) >= 2 and len(cols) >= 2:
            _tick("text.summaries.judged_2+locales_2+columns")
    return None


def oracle_history(case, acts, results):
    """results[q] = impl_obs(case, q) for q in 0..4.  Returns None or a message."""
    for q, r in enumerate(results):
        if "rets" not in r:
            return "quiet=%d: the run raised %s" % (q, r["canon"])
    nobs = len(case["observers"])
    zero_err_stats = any(ev[0] == "s" and any(k == 0 and v == 0 for k, v in ev[2]) for ev in case["events"])
    err_stats = any(ev[0] == "s" and any(k == 0 for k, v in ev[2]) for ev in case["events"])
    for j in [None] + list(range(nobs)):
        who = "ObserverList" if j is None else "observer %d" % j
        exp = expected_observer(case, acts, j)
        for q, r in enumerate(results):
            got = r["list"] if j is None else r["obs"][j]
            if j is None and r["rets"] != exp["rets"]:
                return "quiet=%d: %s returned %r, expected %r" % (q, who, r["rets"], exp["rets"])
            if counts_of(got) != exp["counts"]:
                return "quiet=%d: %s summary %r, expected from the history %r" % (q, who, counts_of(got), exp["counts"])
            if got["error"] != exp["error"]:
                return "quiet=%d: %s error flag %r, expected %r" % (q, who, got["error"], exp["error"])
            # the flag of EVERY observer (the list and each project observer) says that THIS observer counted an error
            own_total = sum(cs[0] for _, cs in got["summary"])
            if not zero_err_stats and bool(got["error"]) != (own_total > 0):
                return "quiet=%d: %s error flag %r although its own summary counts %d errors" % (q, who, got["error"], own_total)
            # details: every stored list sits at the path it was raised for; at quiet 0 nothing is hidden
            stored = {}
            for p, items in got["flat"]:
                key = "/".join(p)
                if key in stored:
                    return "quiet=%d: %s stores path %r twice" % (q, who, key)
                stored[key] = items
            if case["prefix_free"]:
                shown = {}
                for keys, items in json_leaves(got["json"]):
                    key = "/".join(keys)
                    if key in shown:
                        return "quiet=%d: %s toJSON shows %r twice" % (q, who, key)
                    shown[key] = [show_detail_py(x) for x in items]
                if shown != stored:
                    return "quiet=%d: %s toJSON shows %r but the tree stores %r" % (q, who, shown, stored)
            for key, items in stored.items():
                if not is_sublist(items, exp["details"].get(key, [])):
                    return "quiet=%d: %s details of %r are %r, raised for that file: %r" % (
                        q, who, key, items, exp["details"].get(key, []))
            if q == 0 and {k: v for k, v in stored.items() if v} != exp["details"]:
                return "quiet=0: %s details %r, expected everything raised: %r" % (who, stored, exp["details"])
            if q > 0:
                prev = results[q - 1]["list"] if j is None else results[q - 1]["obs"][j]
                pstored = {"/".join(p): items for p, items in prev["flat"]}
                for key, items in stored.items():
                    if not is_sublist(items, pstored.get(key, [])):
                        return "quiet %d->%d: %s details of %r grew: %r vs %r" % (q - 1, q, who, key, pstored.get(key), items)
                if got["summary"] != prev["summary"] or got["error"] != prev["error"]:
                    return "quiet %d->%d: %s summary changed" % (q - 1, q, who)
        if j is None:
            bad = oracle_details_text(case, exp["lines"], results) or oracle_summaries_text(case, results)
            if bad:
                return bad
        if j is None and not zero_err_stats:
            total = sum(v for (loc, k), v in exp["counts"].items() if k == 0)
            want = 1 if (not case["rz"] and total > 0) else 0
            for q, r in enumerate(results):
                if isinstance(r["exit"], str) and nobs == 0:
                    _tick("exit.handle_raised_without_project_observers")
                    continue        # `handle` never sees an ObserverList without project observers (one per config)
                if r["exit"] != want:
                    return "quiet=%d: exit status %s, expected %d (errors counted: %d, return_zero=%r)" % (
                        q, r["exit"], want, total, bool(case["rz"]))
                if nobs and not err_stats and (total > 0) != any(sum(cs[0] for _, cs in o["summary"]) > 0 for o in r["obs"]):
                    return "quiet=%d: list counted %d errors but the project observers disagree" % (q, total)
    return None


def show_detail_py(item):
    from impl import observer as I
    return I.show_detail(item)


# ------------------------------------------------------------------ tree level
def tree_cases(ctx):
    rng = ctx.rng("c10", "tree")
    univ = [list(p) for n in (1, 2, 3) for p in itertools.product(["a", "b"], repeat=n)]
    L = 3 if ctx.tier == "quick" else 4
    cases = [list(s) for n in range(L + 1) for s in itertools.product(univ, repeat=n)]
    # the same with plain reads (`tree[path]` without append) mixed in, up to length 2
    for n in (1, 2):
        for seq in itertools.product(univ, repeat=n):
            for flags in itertools.product([True, False], repeat=n):
                if not all(flags):
                    cases.append([[list(p), f] for p, f in zip(seq, flags)])
    exhaustive = len(cases)
    for _ in range(ctx.n(1500, 40000)):
        if rng.random() < 0.6:
            paths = gen_prefix_free(rng, rng.randrange(1, 9))
        else:
            paths = [[rng.choice(["a", "b", "c", ""]) for _ in range(rng.randrange(1, 5))] for _ in range(rng.randrange(1, 7))]
        if not paths:
            continue
        seq = [list(rng.choice(paths)) for _ in range(rng.randrange(1, 14))]
        if rng.random() < 0.3:      # some plain `tree[path]` reads that do not append
            seq = [[p, rng.random() < 0.6] for p in seq]
        cases.append(seq)
    # excluded points of tree_invariant: an empty segment list, segments containing '/'
    probes = [[[]], [["a"], []], [[], ["a"]], [["a", "b"], ["a"], []], [["a/b"], ["a", "b"]], [["a/b", "c"], ["a/b"], ["a"]]]
    return cases, exhaustive, probes


def oracle_tree(ops, canon):
    """independent reference: the tree is a map path -> list of op indices, each path once"""
    if canon.startswith("!"):
        return "tree[path] raised %s" % canon
    flat = canon.split(" flat=")[1]
    got = {}
    for ent in filter(None, flat.split(";")):
        k, v = ent.rsplit("=", 1)
        if k in got:
            return "path stored twice: %s" % k
        got[k] = v
    exp = {}
    for i, op in enumerate(ops):
        parts, app = split_op(op)
        lst = exp.setdefault("/".join("t" + ".".join(str(ord(c)) for c in p) for p in parts), [])
        if app:
            lst.append(str(i))
    exp = {k: ",".join(v) for k, v in exp.items()}
    if got != exp:
        return "tree stores %r, expected %r" % (got, exp)
    paths = [tuple(split_op(op)[0]) for op in ops]
    if all(not (is_prefix(a, b) and a != b) for a in paths for b in paths):
        # prefix-free: toJSON must show everything
        js = canon.split(" json=")[1].split(" content=")[0]
        if js.count("[") != len(exp):
            return "toJSON shows %d lists for %d paths" % (js.count("["), len(exp))
    return None


# ------------------------------------------------------------------ whole command
PROPS_KEYS = ["k1", "k2", "k3", "k4", "k5"]


def gen_project(rng):
    """a small project: reference en/, localizations l10n/<loc>/, one or two TOML configs"""
    locales = rng.sample(LOCALES, rng.randrange(1, 3))
    dirs = ["browser", "browser/sub", "toolkit"]
    files = {}
    expect = {"dups": {}, "missing_files": [], "obsolete_files": []}
    ref_files = []
    for d in dirs:
        for name in ["a.properties", "b.properties"]:
            if rng.random() < 0.7:
                ref_files.append(d + "/" + name)
    if not ref_files:
        ref_files = ["browser/a.properties"]
    for rf in ref_files:
        keys = rng.sample(PROPS_KEYS, rng.randrange(1, 5))
        files["en/" + rf] = "".join("%s = value %s\n" % (k, k) for k in keys)
        for loc in locales:
            r = rng.random()
            if r < 0.2:
                expect["missing_files"].append("%s/%s" % (loc, rf))
                continue
            lkeys = [k for k in keys if rng.random() < 0.7] + [k for k in ["o1", "o2"] if rng.random() < 0.3]
            dup = [k for k in lkeys if rng.random() < 0.25]
            text = "".join("%s = wert %s\n" % (k, k) for k in lkeys + dup)
            files["l10n/%s/%s" % (loc, rf)] = text
            if dup:
                expect["dups"]["%s/%s" % (loc, rf)] = sorted(set(dup))
    for loc in locales:
        if rng.random() < 0.3:
            files["l10n/%s/browser/gone.properties" % loc] = "x = y\n"
            expect["obsolete_files"].append("%s/browser/gone.properties" % loc)
    two = rng.random() < 0.3
    toml = 'basepath = "."\nlocales = [%s]\n[[paths]]\n    reference = "en/%s**"\n    l10n = "{l10n_base}/{locale}/%s**"\n'
    locs = ", ".join('"%s"' % l for l in locales)
    # the class of round 5: a catch-all key rule answers "warning" (the duplicated keys stay errors of their files: counted,
    # shown, exit 1) or "ignore" (nothing is counted) for every error message of the project
    r = rng.random()
    action = "warning" if r < 0.3 else ("ignore" if r < 0.4 else None)
    if action is not None:
        toml += '[[filters]]\n    path = "{l10n_base}/{locale}/**"\n    key = "%s"\n    action = "%s"\n' % (
            rng.choice(["re:.", "re:.* occurs "]), action)
        if action == "ignore":
            expect["dups"] = {}
    if two:
        files["one.toml"] = toml % (locs, "browser/", "browser/")
        files["two.toml"] = toml % (locs, "toolkit/", "toolkit/")
        configs = ["one.toml", "two.toml"]
    else:
        files["l10n.toml"] = toml % (locs, "", "")
        configs = ["l10n.toml"]
    return {"files": files, "configs": configs, "locales": locales if rng.random() < 0.5 else [], "expect": expect,
            "all_locales": locales}


def oracle_command(spec, runs):
    """runs[(q, rz)] = impl_command result"""
    exp = spec["expect"]
    base = None
    prev_leaves = None
    for q in range(5):
        for rz in (0, 1):
            r = runs.get((q, rz))
            if r is None:
                continue
            if "exc" in r:
                return "quiet=%d return_zero=%d: command raised %s: %s" % (q, rz, r["exc"], r.get("msg"))
            r = r["r"]
            js = r["json"]
            total = sum(c.get("errors", 0) for o in js for c in o["summary"].values())
            want = 1 if (not rz and total > 0) else 0
            if r["rc"] != want:
                return "quiet=%d return_zero=%d: exit status %r, errors in the JSON summaries: %d" % (q, rz, r["rc"], total)
            errs = {}
            for o in js:
                for loc, c in o["summary"].items():
                    errs[loc] = errs.get(loc, 0) + c.get("errors", 0)
            want_errs = {}
            for path, dups in exp["dups"].items():
                loc = path.split("/")[0]
                want_errs[loc] = want_errs.get(loc, 0) + len(dups)
            if {k: v for k, v in errs.items() if v} != want_errs:
                return "quiet=%d: errors per locale %r, duplicated keys written: %r" % (q, errs, want_errs)
            summ = [o["summary"] for o in js]
            if base is None:
                base = summ
            elif summ != base:
                return "quiet=%d return_zero=%d: summaries differ from quiet=0: %r vs %r" % (q, rz, summ, base)
        r0 = runs.get((q, 0))
        if r0 is None or "r" not in r0:
            continue
        leaves = {}
        for o in r0["r"]["json"]:
            for keys, items in json_leaves(o["details"]):
                leaves.setdefault("/".join(keys), []).extend(items)
        if q == 0:
            for path, items in leaves.items():
                got = sorted(x["error"].split(" ")[0] for x in items if "error" in x)
                if got != exp["dups"].get(path, []):
                    return "quiet=0: errors shown for %s: %r, duplicated keys written there: %r" % (path, got, exp["dups"].get(path, []))
            for path in exp["dups"]:
                if path not in leaves:
                    return "quiet=0: no details for %s which has duplicated keys" % path
            mf = sorted(p for p, items in leaves.items() if any("missingFile" in x for x in items))
            of = sorted(p for p, items in leaves.items() if any("obsoleteFile" in x for x in items))
            if mf != sorted(exp["missing_files"]) or of != sorted(exp["obsolete_files"]):
                return "quiet=0: missing files %r (expected %r), obsolete files %r (expected %r)" % (
                    mf, sorted(exp["missing_files"]), of, sorted(exp["obsolete_files"]))
        if prev_leaves is not None:
            for path, items in leaves.items():
                if not is_sublist(items, prev_leaves.get(path, [])):
                    return "quiet %d->%d: details of %s grew" % (q - 1, q, path)
        prev_leaves = leaves
    return None



# ------------------------------------------------------------------ the orchestration layer (compareProjects / handle)
CP_LOCALES = ["de", "fr", "sr-Latn", "ja"]
CP_DIRS = ["browser", "browser/sub", "toolkit", "mobile"]
CP_KEYS = ["k1", "k2", "k3", "title", "accesskey.k1", "long.label"]
CP_VALUES = ["value", "two words", "three little words", "a <b>bold</b> move", "x"]
REFLOC = "en-x-moz-reference"


def cp_render(ext, entries, junk=False):
    """file text of a list of (key, value) for one of the generated formats"""
    if ext == "properties":
        body = "".join("%s = %s\n" % kv for kv in entries)
        return body + ("junk line\n" if junk else "")
    if ext == "ini":
        return "[Strings]\n" + "".join("%s=%s\n" % kv for kv in entries) + ("junk\n" if junk else "")
    if ext == "inc":
        return "".join("#define %s %s\n" % (k.replace(".", "_"), v) for k, v in entries) + ("junk\n" if junk else "")
    return "".join("%s: %s\n" % kv for kv in entries)       # .txt: no parser


def gen_cp_spec(rng):
    """a project tree + command line: 1-3 TOML configs over a reference tree `en/` and localizations `l10n/<loc>/`,
    with by-construction knowledge of what is missing / obsolete / duplicated for the oracle"""
    locales = rng.sample(CP_LOCALES, rng.randrange(1, 4))
    nconf = rng.choice([1, 1, 2, 2, 3])
    downgrade = rng.random() < 0.35
    files = {}
    ref = {}            # rel path under en/ -> {"ext", "entries", "junk"}
    for d in CP_DIRS:
        for name in ["a", "b"]:
            if rng.random() < 0.55:
                ext = rng.choice(["properties", "properties", "properties", "ini", "inc", "txt"])
                keys = rng.sample(CP_KEYS, rng.randrange(1, 5))
                entries = [(k, rng.choice(CP_VALUES)) for k in keys]
                refdup = rng.random() < 0.06 and ext in ("properties", "ini")
                if refdup:
                    entries.append(entries[0])
                ref["%s/%s.%s" % (d, name, ext)] = {"ext": ext, "entries": entries, "junk": rng.random() < 0.05 and ext != "txt",
                                                    "dup": refdup}
    if not ref:
        ref["browser/a.properties"] = {"ext": "properties", "entries": [("k1", "value")], "junk": False, "dup": False}
    for rel, r in ref.items():
        files["en/" + rel] = cp_render(r["ext"], r["entries"], r["junk"])
    l10n = {}           # (loc, rel) -> {"entries", "dups", "junk", "printf"}
    for loc in locales:
        for rel, r in ref.items():
            x = rng.random()
            if x < 0.22:
                continue        # missing file
            entries = []
            for k, v in r["entries"]:
                if rng.random() < 0.75 and k not in [e[0] for e in entries]:
                    entries.append((k, v if rng.random() < 0.4 else "wert " + k))
            for k in ["o1", "o2"]:
                if rng.random() < 0.2:
                    entries.append((k, "obsolet"))
            dups = sorted({k for k, _ in entries if rng.random() < 0.15}) if r["ext"] in ("properties", "ini") else []
            full = entries + [(k, "zwei") for k in dups]
            junk = rng.random() < 0.06 and r["ext"] != "txt"
            l10n[(loc, rel)] = {"entries": entries, "dups": dups, "junk": junk}
            files["l10n/%s/%s" % (loc, rel)] = cp_render(r["ext"], full, junk)
        for d in CP_DIRS:
            if rng.random() < 0.2:
                rel = "%s/gone.%s" % (d, rng.choice(["properties", "ini", "txt"]))
                l10n[(loc, rel)] = {"entries": [("x", "y")], "dups": [], "junk": False}
                files["l10n/%s/%s" % (loc, rel)] = cp_render(rel.rsplit(".", 1)[1], [("x", "y")])
    # printf mismatches: checks raise errors/warnings the count oracle does not predict
    checks = False
    if rng.random() < 0.25:
        cands = [(loc, rel) for (loc, rel) in l10n if rel in ref and ref[rel]["ext"] == "properties" and l10n[(loc, rel)]["entries"]]
        if cands:
            loc, rel = rng.choice(cands)
            k = l10n[(loc, rel)]["entries"][0][0]
            r = ref[rel]
            r["entries"] = [(kk, "Hello %S and %S" if kk == k else vv) for kk, vv in r["entries"]]
            files["en/" + rel] = cp_render(r["ext"], r["entries"], r["junk"])
            le = l10n[(loc, rel)]
            le["entries"] = [(kk, rng.choice(["Hallo %S", "Hallo %1$S %2$S %3$S", "Hallo"]) if kk == k else vv) for kk, vv in le["entries"]]
            files["l10n/%s/%s" % (loc, rel)] = cp_render(r["ext"], le["entries"] + [(kk, "zwei") for kk in le["dups"]], le["junk"])
            checks = True
    # configs
    use_define = rng.random() < 0.25
    refroot = "{refdir}" if use_define else "en"
    dir_sets = []
    pool_dirs = ["browser", "toolkit", "mobile"]
    for i in range(nconf):
        if nconf == 1:
            ds = [""] if rng.random() < 0.5 else rng.sample(pool_dirs, rng.randrange(1, 4))
        else:
            ds = rng.sample(pool_dirs, rng.randrange(1, 3))
        dir_sets.append(ds)
    configs = []
    cfg_meta = []
    for i, ds in enumerate(dir_sets):
        clocs = [l for l in locales if rng.random() < 0.85] or [locales[0]]
        lines = ['basepath = "."', "locales = [%s]" % ", ".join('"%s"' % l for l in clocs)]
        env_l = rng.random() < 0.3
        if env_l:
            lines += ["[env]", '    l = "{l10n_base}/{locale}"']
        lroot = "{l}" if env_l else "{l10n_base}/{locale}"
        for d in ds:
            sub = (d + "/") if d else ""
            lines.append("[[paths]]")
            lines.append('    reference = "%s/%s**"' % (refroot, sub))
            lines.append('    l10n = "%s/%s**"' % (lroot, sub))
            if rng.random() < 0.15:
                lines.append('    test = ["android-dtd"]')
        rules = []
        for _ in range(rng.choice([0, 0, 1, 1, 2])):
            rd = rng.choice(["browser/sub/", "toolkit/", "browser/", "mobile/", ""])
            action = rng.choice(["ignore", "ignore", "warning", "error"])
            # a key rule is asked about entity keys AND about the message texts of errors / warnings
            # ("k1 occurs 2 times"): "re:^k", "re:." and "re:.* occurs " answer for those too
            key = rng.choice([None, None, "k1", "re:^k", "title", "re:.", "re:.* occurs "])
            rules.append({"dir": rd, "action": action, "key": key})
        if downgrade:
            # the class of round 5: a catch-all key rule LAST (later rules win) downgrades — or ignores — every
            # entity-level finding of the project, errors included
            rules.append({"dir": rng.choice(["", "", "", "browser/"]) if nconf == 1 and rng.random() < 0.2 else "",
                          "action": "warning" if rng.random() < 0.8 else "ignore", "key": rng.choice(["re:.", "re:(?s).", "re:.+"])})
        for r in rules:
            lines.append("[[filters]]")
            lines.append('    path = "%s/%s**"' % (lroot, r["dir"]))
            if r["key"] is not None:
                lines.append('    key = "%s"' % r["key"])
            lines.append('    action = "%s"' % r["action"])
        name = ["l10n.toml", "two.toml", "three.toml"][i]
        files[name] = "\n".join(lines) + "\n"
        configs.append(name)
        cfg_meta.append({"dirs": ds, "locales": clocs, "rules": rules})
    # command line
    args = {"config_paths": list(configs), "l10n_base_dir": "l10n", "locales": [], "quiet": 0,
            "defines": ["refdir=en"] if use_define else []}
    r = rng.random()
    if r < 0.45:
        args["locales"] = rng.sample(locales, rng.randrange(1, len(locales) + 1))
        if rng.random() < 0.15:
            args["locales"].append("!" + "xx")          # a locale no project knows
            args["locales"] = [x.lstrip("!") for x in args["locales"]]
    if rng.random() < 0.3:
        args["defines"] = args["defines"] + rng.sample(["foo=bar", "novalue", "a=b=c", "foo=again"], rng.randrange(1, 3))
    args["json"] = rng.choice([None, None, "-", "out.json"])
    args["return_zero"] = rng.random() < 0.3
    args["full"] = rng.random() < 0.2
    m = rng.random()
    if m < 0.2:
        args["merge"] = "merge"
    elif m < 0.3:
        files["blocked"] = "a regular file where the merge directory should go\n"
        args["merge"] = "blocked"
    if args.get("merge") and rng.random() < 0.12:
        args["clobber"] = True
    spec = {"files": files, "dirs": ["l10n"], "args": args, "relative": rng.random() < 0.2,
            "meta": {"locales": locales, "ref": {k: {"ext": v["ext"], "keys": [e[0] for e in v["entries"]], "junk": v["junk"],
                                                     "dup": v["dup"]} for k, v in ref.items()},
                     "l10n": {"%s/%s" % k: {"keys": [e[0] for e in v["entries"]], "dups": v["dups"], "junk": v["junk"]}
                              for k, v in l10n.items()},
                     "configs": cfg_meta, "checks": checks, "downgrade": downgrade}}
    return spec


def cp_rule_verdict(rules, rel, entity):
    """the answer of a project's [[filters]] for an ENTITY-level question about the file `rel` it covers (TOML filter
    semantics: later rules win; a rule with `key` answers entity questions only; "re:" keys are regexes matched at the
    start, plain keys must equal the entity); "error" when no rule answers"""
    import re as _re
    for r in reversed(rules):
        if r["key"] is None or not rel.startswith(r["dir"]):
            continue
        k = r["key"]
        if (_re.match(k[3:], entity) is not None) if k.startswith("re:") else (entity == k):
            return r["action"]
    return "error"


def oracle_cp_errors(spec, args, sem, obs, lst, rc):
    """ERRORS AND EXIT STATUS BY CONSTRUCTION.  The only errors a plain tree (no junk, no printf mismatch) holds are its
    duplicated keys: one error "<key> occurs 2 times" per key written twice into a localized file.  A project observer
    counts it unless its filter answers "ignore" for that message (a "warning" answer DOWNGRADES the return value, the
    finding is still an error of the file); the union counts it unless every project does.  The exit status is 1 iff
    return_zero is off and the union counted at least one."""
    meta = spec["meta"]
    if meta["checks"]:
        return None
    want_union, seen, clean = {}, set(), True
    for i, (per, o, c) in enumerate(zip(sem["projects"], obs, meta["configs"])):
        for loc, d in per.items():
            want, skip = 0, False
            for rel in d["compared"]:
                r, l = meta["ref"][rel], meta["l10n"]["%s/%s" % (loc, rel)]
                if r["junk"] or l["junk"]:
                    skip = True
                    continue
                if r["ext"] == "txt":
                    continue
                for k in l["dups"]:
                    if cp_rule_verdict(c["rules"], rel, "%s occurs 2 times" % k) != "ignore":
                        want += 1
                        if (loc, rel, k) not in seen:
                            seen.add((loc, rel, k))
                            want_union[loc] = want_union.get(loc, 0) + 1
            for rel in d["missing"]:
                if meta["ref"][rel]["junk"]:
                    skip = True
            if skip:
                clean = False
                continue
            got = o["summary"].get(loc, {}).get("errors", 0)
            if got != want:
                return "project %d locale %s: %d errors counted, %d duplicated keys written that its filter does not ignore" % (
                    i, loc, got, want)
    if not clean:
        return None
    got_union = {loc: c.get("errors", 0) for loc, c in lst["summary"].items() if c.get("errors", 0)}
    if got_union != want_union:
        return "union: errors per locale %r, duplicated keys written that some project does not ignore: %r" % (got_union, want_union)
    want_rc = 1 if (not args.get("return_zero") and sum(want_union.values()) > 0) else 0
    if rc != want_rc:
        return "exit status %d, expected %d: %d errors (duplicated keys not ignored by every project) were written, return_zero=%r" % (
            rc, want_rc, sum(want_union.values()), bool(args.get("return_zero")))
    return None



def gen_cp_mix_spec(rng):
    """a legacy l10n.ini project (path rules WITH a `module`) next to a TOML project (plain path rules), with plain
    directories sorted before, between and after the module directories, so that module files and plain files
    alternate in the enumeration of a locale"""
    modules = rng.sample(["app", "browser/sub", "mobile"], rng.randrange(1, 4))
    plain = rng.sample(["aaa", "m2", "zother"], rng.randrange(1, 4))
    locales = rng.sample(["de", "fr"], rng.randrange(1, 3))
    files = {"app/locales/l10n.ini": "[general]\ndepth = ../..\nall = app/locales/all-locales\n\n[compare]\ndirs = %s\n" % " ".join(modules),
             "app/locales/all-locales": "".join(l + "\n" for l in locales)}
    toml = ['basepath = "."', "locales = [%s]" % ", ".join('"%s"' % l for l in locales)]
    for d in plain:
        toml += ["[[paths]]", '    reference = "plainref/%s/**"' % d, '    l10n = "{l10n_base}/{locale}/%s/**"' % d]
    files["l10n.toml"] = "\n".join(toml) + "\n"

    def fill(refdir, l10ndir):
        for name in ["a.properties", "b.properties", "sub/c.ini"]:
            if rng.random() < 0.3:
                continue
            ini = name.endswith(".ini")
            keys = rng.sample(["k1", "k2", "k3"], rng.randrange(1, 4))
            files["%s/%s" % (refdir, name)] = cp_render("ini" if ini else "properties", [(k, "value " + k) for k in keys])
            for loc in locales:
                if rng.random() < 0.3:
                    continue
                lk = [k for k in keys if rng.random() < 0.7] + (["o1"] if rng.random() < 0.3 else [])
                dup = lk[:1] if (lk and rng.random() < 0.25) else []
                files["l10n/%s/%s/%s" % (loc, l10ndir, name)] = cp_render("ini" if ini else "properties",
                                                                        [(k, "wert " + k) for k in lk + dup])
        for loc in locales:
            if rng.random() < 0.3:
                files["l10n/%s/%s/gone.properties" % (loc, l10ndir)] = "x = y\n"

    for m in modules:
        fill("%s/locales/en-US" % m, m)
    for d in plain:
        fill("plainref/%s" % d, d)
    if rng.random() < 0.5:
        # a legacy filter.py next to the l10n.ini: "report" (= warning) or an ignore for the entity-level questions,
        # message texts of errors included; and a catch-all key rule in the TOML project
        val = rng.choice(["report", "report", "report", "ignore", False])
        only = rng.choice([None, None, modules[0]])
        src = "def test(mod, path, entity=None):\n    if entity is None:\n        return 'error'\n"
        if only is not None:
            src += "    if mod != %r:\n        return 'error'\n" % only
        files["app/locales/filter.py"] = src + "    return %r\n" % (val,)
        if rng.random() < 0.8:
            toml += ["[[filters]]", '    path = "{l10n_base}/{locale}/**"', '    key = "re:."',
                     '    action = "%s"' % rng.choice(["warning", "warning", "ignore"])]
            files["l10n.toml"] = "\n".join(toml) + "\n"
    cps = ["app/locales/l10n.ini", "l10n.toml"]
    if rng.random() < 0.5:
        cps.reverse()
    return {"files": files, "dirs": ["l10n"], "meta": None, "tags": ["mix"],
            "args": {"config_paths": cps, "l10n_base_dir": "l10n", "locales": [], "quiet": 0,
                     "json": rng.choice([None, "out.json"]), "return_zero": rng.random() < 0.3}}


def cp_single_specs(spec, joint):
    """the single-file runs of a joint run: per ContentComparer call of the joint run a tree that holds, besides the
    configuration, only the two files of that call, compared for that one locale"""
    calls = joint["plain"]["calls"]
    touched = set()
    for kind, l10n, refp in calls:
        touched.add(l10n[len("/R/"):])
        if refp is not None:
            touched.add(refp[len("/R/"):])
    keep = {k: v for k, v in spec["files"].items() if k not in touched}
    out = []
    for kind, l10n, refp in calls:
        rel = l10n[len("/R/"):]
        parts = rel.split("/")
        if parts[0] != spec["args"]["l10n_base_dir"] or len(parts) < 3:
            return None
        loc = parts[1]
        files = dict(keep)
        for pth in (rel, None if refp is None else refp[len("/R/"):]):
            if pth is not None and pth in spec["files"]:
                files[pth] = spec["files"][pth]
        args = dict(spec["args"], locales=[loc], quiet=0, json=None, merge=None, clobber=False)
        out.append((loc, l10n, dict(spec, files=files, args=args)))
    return out


def leaves_of(details):
    return {"/".join(keys): items for keys, items in json_leaves(details)}


def oracle_cp_independence(joint, singles):
    """PER-FILE INDEPENDENCE: the details and the summaries of the joint run are the union / the sums of the runs over
    one file at a time.  singles = [(locale, l10n path, result)]"""
    jp = joint["plain"]
    if "obs" not in jp:
        return None
    who = [("union", jp["list"])] + [("project %d" % i, o) for i, o in enumerate(jp["obs"])]
    for wi, (name, jo) in enumerate(who):
        want_leaves, want_sum = {}, {}
        for loc, l10n, r in singles:
            sp = r["plain"]
            if "obs" not in sp:
                return "the single-file run for %s ended with %s" % (l10n, sp["outcome"])
            so = sp["list"] if wi == 0 else sp["obs"][wi - 1]
            for path, items in leaves_of(so["details"]).items():
                if path in want_leaves:
                    return "two single-file runs show details for %s" % path
                want_leaves[path] = items
            for l, cs in so["summary"].items():
                acc = want_sum.setdefault(l, {})
                for k, v in cs.items():
                    acc[k] = acc.get(k, 0) + v
        got_leaves = leaves_of(jo["details"])
        if got_leaves != want_leaves:
            diff = sorted(set(got_leaves) ^ set(want_leaves)) or [k for k in got_leaves if got_leaves[k] != want_leaves[k]]
            return "%s: the details of the joint run differ from the union of the single-file runs at %r (joint %r, single %r)" % (
                name, diff[:4], {k: got_leaves.get(k) for k in diff[:2]}, {k: want_leaves.get(k) for k in diff[:2]})
        gs = {l: {k: v for k, v in cs.items() if v} for l, cs in jo["summary"].items()}
        ws = {l: {k: v for k, v in cs.items() if v} for l, cs in want_sum.items()}
        gs = {l: cs for l, cs in gs.items() if cs}
        ws = {l: cs for l, cs in ws.items() if cs}
        if gs != ws:
            return "%s: the summary of the joint run %r is not the sum of the single-file runs %r" % (name, gs, ws)
    return None

def cp_variants(rng, spec):
    """the runs of one spec: quiet 0..4 with the same arguments, then validation mode, the locales in another order
    (with a repetition), json to the other sink"""
    out = []
    for q in range(5):
        out.append(("q%d" % q, dict(spec, args=dict(spec["args"], quiet=q))))
    a = spec["args"]
    out.append(("validate", dict(spec, args=dict(a, validate=True, merge=None if rng.random() < 0.8 else a.get("merge"),
                                                 quiet=rng.randrange(3)))))
    locs = list(a["locales"]) or list(spec["meta"]["locales"])
    perm = list(reversed(locs)) + [locs[0]]
    out.append(("perm", dict(spec, args=dict(a, locales=perm))))
    if not a["locales"]:
        out.append(("explicit", dict(spec, args=dict(a, locales=sorted(set(l for c in spec["meta"]["configs"] for l in c["locales"]))))))
    return out


def cp_error_specs(rng):
    """command lines that end in parser.error / parser.exit / an exception"""
    toml = 'basepath = "."\nlocales = ["de"]\n[[paths]]\n    reference = "en/**"\n    l10n = "{l10n_base}/{locale}/**"\n'
    base = {"files": {"l10n.toml": toml, "en/a.properties": "k = v\n", "l10n/de/a.properties": "k = w\n"}, "dirs": ["l10n"]}
    A = lambda **kw: dict({"config_paths": ["l10n.toml"], "l10n_base_dir": "l10n", "locales": [], "quiet": 0}, **kw)
    specs = [
        ("no-config", dict(base, args=A(config_paths=["l10n"], l10n_base_dir="l10n"))),
        ("config-missing", dict(base, args=A(config_paths=["l10n.toml", "!nope.toml"]))),
        ("no-base", dict(base, args=A(l10n_base_dir="!nowhere", locales=["de"]))),
        ("bad-toml", dict(base, files=dict(base["files"], **{"l10n.toml": "basepath = \n"}), args=A())),
        ("missing-include", dict(base, files=dict(base["files"], **{"l10n.toml": toml + '[[includes]]\n    path = "sub/none.toml"\n'}), args=A())),
        ("none-and-str", dict(base, args=A())),      # run as is; the harness also probes compareProjects(locales=[None, "de"]) through the model examples
        ("l10n-only-rule", dict(base, files=dict(base["files"], **{"l10n.toml": 'basepath = "."\nlocales = ["de"]\n[[paths]]\n    l10n = "{l10n_base}/{locale}/**"\n'}), args=A())),
        ("validate-merge", dict(base, args=A(validate=True, merge="merge"))),
        ("clobber", dict(base, args=A(merge="merge", clobber=True))),
        ("second-dir-is-locale", dict(base, dirs=["l10n", "de"], args=A(locales=["de"]))),
        ("ref-read-error", dict(base, files={k: v for k, v in base["files"].items() if k != "en/a.properties"},
                                dirs=["l10n", "en/a.properties"], args=A(validate=True))),
        ("l10n-is-directory", dict(base, files={k: v for k, v in base["files"].items() if k != "l10n/de/a.properties"},
                                   dirs=["l10n", "l10n/de/a.properties"], args=A())),
        # the reference is a directory: `p.readFile(ref_file)` raises inside `compare`; the error is raised for the
        # reference File (locale None), which every project filter ignores
        ("ref-is-directory", dict(base, files={k: v for k, v in base["files"].items() if k != "en/a.properties"},
                                  dirs=["l10n", "en/a.properties"], args=A())),
        # a dangling symbolic link in the reference tree is enumerated (os.walk lists it as a file) but does not exist:
        # with the localized file missing `add` cannot read it, with the localized file present the file is "obsolete"
        ("ref-dangling-symlink", dict(base, files=dict(base["files"], **{"l10n/de/x.properties": "k = w\n"}),
                                      symlinks={"en/x.properties": "nowhere", "en/y.properties": "nowhere"}, args=A())),
        ("ref-dangling-symlink-validate", dict(base, symlinks={"en/y.properties": "nowhere"}, args=A(validate=True))),
        # clobber with a locale no project knows: no matchers, the set of merge matchers is empty
        ("clobber-no-matchers", dict(base, args=A(merge="merge", clobber=True, locales=["xx"]))),
        ("merge-blocked", dict(base, files=dict(base["files"], blocked="x\n"), args=A(merge="blocked"))),
        ("merge-blocked-json", dict(base, files=dict(base["files"], blocked="x\n", **{"en/b.properties": "k = v\n"}),
                                    args=A(merge="blocked", json="-"))),
        ("base-is-file", dict(base, args=A(l10n_base_dir="l10n.toml"))),
        # a key rule with action "warning": the missing entity is reported, not counted as missing
        ("report-warning", dict(base, files={"l10n.toml": toml + '[[filters]]\n    path = "{l10n_base}/{locale}/**"\n    key = "re:^k"\n    action = "warning"\n',
                                             "en/a.properties": "k1 = v\nk2 = w\nother = x\n", "l10n/de/a.properties": "k1 = v\n"}, args=A())),
        # merge stage with a junk entry, a printf error (skipped entity) and missing entities in the localized file
        ("merge-skips", dict(base, files={"l10n.toml": toml, "en/a.properties": "k1 = Hello %S\nk2 = two\nk3 = three\n",
                                          "l10n/de/a.properties": "k1 = Hallo %d\njunk line\nk2 = zwei\n",
                                          "en/b.ini": "[Strings]\nt=x\nu=y\n", "l10n/de/b.ini": "[Strings]\nt=x\n",
                                          "en/c.inc": "#define a b\n", "l10n/de/c.inc": "#define a c\n#define z z\n"},
                               args=A(merge="merge"))),
        ("full-validate", dict(base, args=A(validate=True, full=True))),
        ("full-locales", dict(base, args=A(full=True, locales=["fr"]))),
    ] + cp_downgrade_specs() + cp_ini_specs(rng)
    return specs


def cp_downgrade_specs():
    """an error-category finding (duplicated key, parse error, failed check) in a file whose project filter answers
    "warning" / "ignore" for the notification — the message text is the entity —, and no other error in the run"""
    toml = 'basepath = "."\nlocales = ["de"]\n[[paths]]\n    reference = "en/**"\n    l10n = "{l10n_base}/{locale}/**"\n'
    flt = '[[filters]]\n    path = "{l10n_base}/{locale}/**"\n    key = "%s"\n    action = "%s"\n'
    toml2 = 'basepath = "."\nlocales = ["de"]\n[[paths]]\n    reference = "en/sub/**"\n    l10n = "{l10n_base}/{locale}/sub/**"\n'
    dup = {"en/a.properties": "k = v\nm = w\n", "l10n/de/a.properties": "k = w\nk = x\nm = y\n"}
    A = lambda **kw: dict({"config_paths": ["l10n.toml"], "l10n_base_dir": "l10n", "locales": [], "quiet": 0}, **kw)
    out = []
    for q in (0, 4):
        out.append(("downgrade-dup-warning-q%d" % q, {"files": dict(dup, **{"l10n.toml": toml + flt % ("re:.", "warning")}), "dirs": ["l10n"],
                                                     "args": A(quiet=q)}))
    out += [
        ("downgrade-dup-ignore", {"files": dict(dup, **{"l10n.toml": toml + flt % ("re:.", "ignore")}), "dirs": ["l10n"], "args": A()}),
        ("downgrade-dup-message-rule", {"files": dict(dup, **{"l10n.toml": toml + flt % ("re:.* occurs ", "warning")}), "dirs": ["l10n"],
                                        "args": A(json="-")}),
        ("downgrade-dup-return-zero", {"files": dict(dup, **{"l10n.toml": toml + flt % ("re:.", "warning")}), "dirs": ["l10n"],
                                       "args": A(return_zero=True)}),
        ("downgrade-junk-warning", {"files": {"l10n.toml": toml + flt % ("re:.", "warning"), "en/a.properties": "k = v\n",
                                              "l10n/de/a.properties": "k = w\nthis is junk\n"}, "dirs": ["l10n"], "args": A()}),
        ("downgrade-check-warning", {"files": {"l10n.toml": toml + flt % ("re:.", "warning"), "en/a.properties": "k = Hello %S\n",
                                               "l10n/de/a.properties": "k = Hallo %d\n"}, "dirs": ["l10n"], "args": A()}),
        # two projects: the one that covers the file downgrades, the other ignores it (not its path)
        ("downgrade-two-projects", {"files": dict(dup, **{"l10n.toml": toml + flt % ("re:.", "warning"), "two.toml": toml2,
                                                          "en/sub/b.properties": "k = v\n", "l10n/de/sub/b.properties": "k = w\n"}),
                                    "dirs": ["l10n"], "args": A(config_paths=["two.toml", "l10n.toml"])}),
        # two projects over the same file: one downgrades, one ignores the message
        ("downgrade-warning+ignore", {"files": dict(dup, **{"l10n.toml": toml + flt % ("re:.", "warning"),
                                                            "two.toml": toml + flt % ("re:.", "ignore")}),
                                      "dirs": ["l10n"], "args": A(config_paths=["two.toml", "l10n.toml"])}),
    ]
    # a legacy filter.py answering "report" for every entity (l10n.ini project)
    ini = "[general]\ndepth = ../..\nall = app/locales/all-locales\n\n[compare]\ndirs = app\n"
    fpy = "def test(mod, path, entity=None):\n    if entity is None:\n        return 'error'\n    return %r\n"
    files = {"app/locales/l10n.ini": ini, "app/locales/all-locales": "de\n",
             "app/locales/en-US/a.properties": "k1 = one\nk2 = two\n", "l10n/de/app/a.properties": "k1 = eins\nk1 = zwei\nk2 = x\n"}
    for name, val in (("report", "report"), ("ignore", "ignore"), ("false", False)):
        out.append(("downgrade-filterpy-" + name, {"files": dict(files, **{"app/locales/filter.py": fpy % (val,)}), "dirs": ["l10n"],
                                                   "args": A(config_paths=["app/locales/l10n.ini"])}))
    # by construction: every tree holds exactly one error-category finding; it is counted (exit 1) unless every project
    # filter IGNORES it or return_zero is on
    zero = ("downgrade-dup-ignore", "downgrade-dup-return-zero", "downgrade-filterpy-ignore", "downgrade-filterpy-false")
    return [(name, dict(sp, expect_outcome="returned:%d" % (0 if name in zero else 1))) for name, sp in out]


def cp_ini_specs(rng):
    """legacy l10n.ini projects (EnumerateApp): the path rules carry a `module`, the localized File is keyed by
    locale + module + path below the module"""
    ini = "[general]\ndepth = ../..\nall = app/locales/all-locales\n\n[compare]\ndirs = app browser/sub\n"
    files = {"app/locales/l10n.ini": ini, "app/locales/all-locales": "de\nfr\n",
             "app/locales/en-US/a.properties": "k1 = one\nk2 = two words\n",
             "app/locales/en-US/chrome/b.properties": "k1 = one\n",
             "browser/sub/locales/en-US/c.ini": "[Strings]\nt=x\n",
             "l10n/de/app/a.properties": "k1 = eins\nk1 = zwei\no = x\n",
             "l10n/de/app/gone.properties": "x = y\n",
             "l10n/fr/browser/sub/c.ini": "[Strings]\nt=x\n"}
    out = []
    for name, extra in [("ini", {}), ("ini-locales", {"locales": ["fr"]}), ("ini-quiet-json", {"quiet": 1, "json": "-"}),
                        ("ini-validate", {"validate": True}), ("ini-merge", {"merge": "merge"})]:
        out.append((name, {"files": files, "dirs": ["l10n"],
                           "args": dict({"config_paths": ["app/locales/l10n.ini"], "l10n_base_dir": "l10n", "locales": [], "quiet": 0}, **extra)}))
    # an ini project next to a TOML project
    toml = 'basepath = "."\nlocales = ["de"]\n[[paths]]\n    reference = "app/locales/en-US/**"\n    l10n = "{l10n_base}/{locale}/app/**"\n'
    out.append(("ini+toml", {"files": dict(files, **{"l10n.toml": toml}), "dirs": ["l10n"],
                             "args": {"config_paths": ["app/locales/l10n.ini", "l10n.toml"], "l10n_base_dir": "l10n", "locales": [], "quiet": 0}}))
    return out


def cp_semantics(spec, args):
    """by construction, independent of the model and of the code: per project (config) and for the union, per locale, the
    localized paths (relative to the l10n base) of the missing and of the obsolete files, and the files compared"""
    meta = spec["meta"]
    if args.get("validate"):
        return None
    explicit = [x for x in args["locales"]]
    out = {"projects": [], "locales": None}
    all_locs = sorted(set(explicit)) if explicit else sorted(set(l for c in meta["configs"] for l in c["locales"]))
    out["locales"] = all_locs
    for c in meta["configs"]:
        per = {}
        # --full with explicit locales: `config.set_locales(locales, deep=True)`
        clocales = explicit if (args.get("full") and explicit) else c["locales"]
        for loc in all_locs:
            if loc not in clocales:
                continue
            missing, obsolete, compared = [], [], []

            def covered(rel):
                return any(d == "" or rel.startswith(d + "/") for d in c["dirs"])

            def file_action(rel):
                act = "error"
                for r in c["rules"]:        # later rules win (reversed iteration in the code)
                    if r["key"] is None and rel.startswith(r["dir"]):
                        act = r["action"]
                return act

            for rel in meta["ref"]:
                if covered(rel):
                    if "%s/%s" % (loc, rel) in meta["l10n"]:
                        compared.append(rel)
                    else:
                        missing.append(rel)
            for key in meta["l10n"]:
                l, rel = key.split("/", 1)
                if l == loc and rel not in meta["ref"] and covered(rel):
                    obsolete.append(rel)
            per[loc] = {"missing": {rel: file_action(rel) for rel in missing}, "obsolete": {rel: file_action(rel) for rel in obsolete},
                        "compared": compared}
        out["projects"].append(per)
    return out


def oracle_cp_run(spec, args, res):
    """one real run against what the tree was built to contain.  Returns None or a message."""
    p = res["plain"]
    out = p["outcome"]
    rz = bool(args.get("return_zero"))
    if not out.startswith("returned:"):
        return None
    rc = int(out.split(":")[1])
    obs = p.get("obs") or []
    lst = p.get("list")
    if lst is None:
        return "handle returned %d although compareProjects did not return its observers" % rc
    # exit status = 1 iff not return_zero and an error was counted (by the union, equivalently by some project observer)
    tot_union = sum(c.get("errors", 0) for c in lst["summary"].values())
    tot_obs = sum(c.get("errors", 0) for o in obs for c in o["summary"].values())
    want = 1 if (not rz and tot_union > 0) else 0
    if rc != want:
        return "exit status %d, expected %d (errors counted by the union observer: %d, return_zero=%r)" % (rc, want, tot_union, rz)
    if (tot_union > 0) != (tot_obs > 0) and obs:
        return "the union observer counted %d errors, the project observers %d" % (tot_union, tot_obs)
    if lst["error"] != (tot_union > 0):
        return "error flag %r with %d errors counted" % (lst["error"], tot_union)
    # the flag of EVERY project observer says that this observer counted an error (also when its filter downgraded it)
    for i, o in enumerate(obs):
        n = sum(c.get("errors", 0) for c in o["summary"].values())
        if o["error"] != (n > 0):
            return "project %d: error flag %r with %d errors counted by that observer" % (i, o["error"], n)
    # one observer per config; filters off exactly in validation mode
    nconf = len(args["config_paths"])
    if len(obs) != nconf:
        return "%d project observers for %d configs" % (len(obs), nconf)
    if any(f == bool(args.get("validate")) for f in p["filters"]):
        return "filters of the project observers %r with validate=%r" % (p["filters"], bool(args.get("validate")))
    if args.get("validate"):
        # every localized File shows REFERENCE_LOCALE (a None locale can only come from an error raised for a reference File)
        locs = set(k for o in obs + [lst] for k in o["summary"])
        if locs - {REFLOC, ""}:
            return "validation mode shows the locales %r" % sorted(locs)
        for o in obs + [lst]:
            stray = {k: v for k, v in o["summary"].get("", {}).items() if v and k != "errors"} if o["none_locale"] else {}
            if stray:
                return "validation mode: counters %r under the locale None (only an error raised for a reference File has no locale)" % stray
        if any(c[0] == "compare" and c[1].endswith((".properties", ".ini", ".inc")) for c in p["calls"]) \
                and not lst["none_locale"] and REFLOC not in lst["summary"]:
            return "validation mode: files were compared but the summary has no entry for %s: %r" % (REFLOC, sorted(lst["summary"]))
    # JSON: one toJSON per project observer, equal to the observers' own data; to stdout iff "-"
    if args.get("json") is not None:
        js = p.get("json")
        if js is None or len(js) != nconf:
            return "json data has %r entries for %d configs" % (None if js is None else len(js), nconf)
        for j, o in zip(js, obs):
            if j["summary"] != o["summary"] or j["details"] != o["details"]:
                return "json entry differs from its observer"
        if p["json_to_stdout"] != (args["json"] == "-"):
            return "json written to %s for --json %r" % ("stdout" if p["json_to_stdout"] else "a file", args["json"])
        if p["json_text_ok"] is not True:
            return "the JSON text written does not parse back to the data"
    elif p.get("json") is not None:
        return "json data dumped without --json"
    # printed text: with `--json -` nothing but what compareProjects printed; else the header iff more than one config
    text = p["stdout"]
    if args.get("json") == "-":
        body = [l for l in text.split("\n") if l and not l.startswith(("copied reference to ", "adding to ", "clobbered "))]
        if body:
            return "--json - printed %r" % body[:3]
    else:
        has = "Summaries for\n" in text
        if has != (nconf > 1):
            return "'Summaries for' header %s with %d configs" % ("printed" if has else "missing", nconf)
        if has:
            i = text.index("Summaries for\n")
            lines = text[i:].split("\n")[1:1 + nconf]
            wantl = ["  " + (c.lstrip("!") if (spec.get("relative") or c.startswith("!")) else "/R/" + c) for c in args["config_paths"]]
            if lines != wantl:
                return "config lines %r, expected %r" % (lines, wantl)
    # the missing / obsolete files, by construction
    sem = cp_semantics(spec, args) if spec.get("meta") else None
    if sem is not None and not args.get("quiet") and "l10n-only" not in spec.get("tags", ()):
        for i, (per, o) in enumerate(zip(sem["projects"], obs)):
            got_m, got_o = {}, {}
            for keys, items in json_leaves(o["details"]):
                path = "/".join(keys)
                for it in items:
                    if "missingFile" in it:
                        got_m[path] = got_m.get(path, 0) + 1
                    if "obsoleteFile" in it:
                        got_o[path] = got_o.get(path, 0) + 1
            want_m = {"%s/%s" % (loc, rel): 1 for loc, d in per.items() for rel, act in d["missing"].items() if act != "ignore"}
            want_o = {"%s/%s" % (loc, rel): 1 for loc, d in per.items() for rel, act in d["obsolete"].items() if act != "ignore"}
            if got_m != want_m:
                return "project %d: missing files in the details %r, by construction %r" % (i, sorted(got_m.items()), sorted(want_m))
            if got_o != want_o:
                return "project %d: obsolete files in the details %r, by construction %r" % (i, sorted(got_o.items()), sorted(want_o))
        # the union shows a file iff some project does, once
        um, uo = {}, {}
        for keys, items in json_leaves(lst["details"]):
            path = "/".join(keys)
            for it in items:
                if "missingFile" in it:
                    um[path] = um.get(path, 0) + 1
                if "obsoleteFile" in it:
                    uo[path] = uo.get(path, 0) + 1
        wm = {"%s/%s" % (loc, rel): 1 for per in sem["projects"] for loc, d in per.items() for rel, act in d["missing"].items() if act != "ignore"}
        wo = {"%s/%s" % (loc, rel): 1 for per in sem["projects"] for loc, d in per.items() for rel, act in d["obsolete"].items() if act != "ignore"}
        if um != wm or uo != wo:
            return "union: missing files %r / obsolete files %r, by construction %r / %r" % (sorted(um.items()), sorted(uo.items()), sorted(wm), sorted(wo))
    # the calls: every enumerated file exactly one call, the method by the existence of the two files
    if sem is not None:
        seen = {}
        for kind, l10n, refp in p["calls"]:
            if l10n in seen:
                return "two ContentComparer calls for %s" % l10n
            seen[l10n] = kind
        want_calls = {}
        for per in sem["projects"]:
            for loc, d in per.items():
                for rel in d["missing"]:
                    want_calls["/R/l10n/%s/%s" % (loc, rel)] = "add"
                for rel in d["obsolete"]:
                    want_calls["/R/l10n/%s/%s" % (loc, rel)] = "remove"
                for rel in d["compared"]:
                    want_calls["/R/l10n/%s/%s" % (loc, rel)] = "compare"
        if seen != want_calls:
            diff = sorted(set(seen.items()) ^ set(want_calls.items()))
            return "ContentComparer calls differ from the tree: %r" % diff[:6]
    # counts of missing strings: entities of the missing files + entities missing in compared files (plain trees only)
    if sem is not None and not spec["meta"]["checks"]:
        msg = oracle_cp_counts(spec, args, sem, obs)
        if msg:
            return msg
    if sem is not None:
        msg = oracle_cp_errors(spec, args, sem, obs, lst, rc)
        if msg:
            return msg
    return None


def oracle_cp_counts(spec, args, sem, obs):
    """`missing`, `obsolete`, `errors`, `changed+unchanged+keys` of every project observer for trees without junk and
    without key-specific filter rules, from the keys written into the files"""
    meta = spec["meta"]
    for i, (per, o, c) in enumerate(zip(sem["projects"], obs, meta["configs"])):
        if any(r["key"] is not None or r["action"] == "warning" for r in c["rules"]):
            continue
        for loc, d in per.items():
            want = {"missing": 0, "obsolete": 0, "errors": 0, "common": 0}
            skip = False
            for rel, act in d["missing"].items():
                r = meta["ref"][rel]
                if r["junk"] or r["dup"]:
                    skip = True
                # `add` counts the strings of a missing file unless ALL projects ignore the file; the count itself goes
                # through `updateStats`, whose filter question (entity "") no file-level rule answers
                anyone = any(per2.get(loc, {}).get("missing", {}).get(rel, "ignore") != "ignore" for per2 in sem["projects"])
                if anyone and r["ext"] != "txt":
                    want["missing"] += len(set(r["keys"]))
            for rel in d["compared"]:
                r, l = meta["ref"][rel], meta["l10n"]["%s/%s" % (loc, rel)]
                if r["junk"] or l["junk"] or r["dup"]:
                    skip = True
                if r["ext"] == "txt":
                    continue
                # a rule without `key` only answers file-level questions: the entities of an existing file are counted
                rk, lk = set(r["keys"]), set(l["keys"])
                want["missing"] += len(rk - lk)
                want["obsolete"] += len(lk - rk)
                want["common"] += len(rk & lk)
                want["errors"] += len(l["dups"])
            if skip:
                continue
            got = o["summary"].get(loc, {})
            g = {"missing": got.get("missing", 0), "obsolete": got.get("obsolete", 0), "errors": got.get("errors", 0),
                 "common": got.get("changed", 0) + got.get("unchanged", 0) + got.get("keys", 0)}
            if g != want:
                return "project %d locale %s: counted %r, the files were written with %r" % (i, loc, g, want)
    return None


def oracle_cp_quiet(runs):
    """quiet monotonicity on the real output: runs[q] for q = 0..4 with otherwise equal arguments"""
    base = None
    prev = None
    for q in range(5):
        p = runs[q]["plain"]
        if not p["outcome"].startswith("returned:") or "obs" not in p:
            return None
        key = (p["outcome"], [o["summary"] for o in p["obs"]], p["list"]["summary"], p["list"]["error"])
        if base is None:
            base = key
        elif key != base:
            return "quiet=%d changes the exit status or a summary number: %r vs %r" % (q, key, base)
        leaves = {}
        for who, o in [("L", p["list"])] + [("O%d" % i, o) for i, o in enumerate(p["obs"])]:
            for keys, items in json_leaves(o["details"]):
                leaves[(who, "/".join(keys))] = items
        if prev is not None:
            for k, items in leaves.items():
                if not is_sublist(items, prev.get(k, [])):
                    return "quiet %d->%d: details of %s %s grew: %r vs %r" % (q - 1, q, k[0], k[1], prev.get(k), items)
        prev = leaves
        if q == 4 and any(leaves.values()):
            return "quiet=4 still shows details: %r" % [k for k, v in leaves.items() if v][:3]
    # the printed details: (file, detail line) pairs only shrink (read back only when no message spans several lines)
    multiline = any("\n" in str(v) for q in range(5) for _, items in json_leaves(runs[q]["plain"]["list"]["details"])
                    for it in items for v in it.values())
    prevp = None
    for q in range(0 if not multiline else 5, 5):
        text = runs[q]["plain"]["stdout"]
        cut = text.find("Summaries for\n")
        lines = [l for l in text.split("\n") if not l.startswith(("copied reference to ", "adding to "))]
        # the details block ends where the first summary block (`<locale>:` at column 0 followed by counters) starts
        det = []
        for l in lines:
            if l == "" or l == "Summaries for" or (l.endswith(":") and not l.startswith(" ") and "/" not in l):
                break
            det.append(l)
        rows, err = parse_outline("\n".join(det))
        if err:
            return "quiet=%d: printed details: %s" % (q, err)
        pairs = [(path, d) for path, ds in rows for d in ds]
        if prevp is not None and not is_sublist(pairs, prevp):
            return "quiet %d->%d: printed (file, detail) pairs grew" % (q - 1, q)
        prevp = pairs
    return None

# ------------------------------------------------------------------ run
def finding_of(msg, case):
    return None



def gen_rel_cases(rng, n):
    segs = ["a", "b", "l10n", "de", "..", ".", "", "x.ftl", "ba"]
    out = [["/", "/l/de/a.ftl", "/l"], ["/", "/l", "/l/"], ["/tmp", "x/../y//z", "."], ["/", "", "/l"], ["/tmp", "a", ""],
           ["/", "//x/./y/..", "/"], ["/", "///x", "//x"], ["/", "/l/de/bar.ftl", "/l/de/ba"]]
    for _ in range(n):
        def path():
            k = rng.randrange(0, 5)
            body = "/".join(rng.choice(segs) for _ in range(k))
            lead = rng.choice(["/", "/", "/", "", "//", "///"])
            return lead + body + rng.choice(["", "", "/"])
        out.append([rng.choice(["/", "/tmp"]), path(), path()])
    return out


def gen_pos_spec(rng):
    names = ["l10n.toml", "two.toml", "dir1", "dir2", "nope", "de", "fr"]
    files = {n: "x\n" for n in ["l10n.toml", "two.toml"] if rng.random() < 0.85}
    dirs = [n for n in ["dir1", "dir2", "de"] if rng.random() < 0.75]
    def arg():
        n = rng.choice(names)
        return n if (n in files or n in dirs) else "!" + n
    k = rng.randrange(0, 4)
    if rng.random() < 0.6:
        cps = [rng.choice(sorted(files) or ["!nope"]) for _ in range(max(1, k))]
    else:
        cps = [arg() for _ in range(k)]
    base = arg() if rng.random() < 0.3 else ("dir1" if "dir1" in dirs else "!dir1")
    if rng.random() < 0.08:
        base = "dir1/" if "dir1" in dirs else base
    locs = [arg() for _ in range(rng.randrange(0, 3))]
    return {"files": files, "dirs": dirs, "config_paths": cps, "base": base, "locales": locs,
            "validate": rng.random() < 0.3, "relative": rng.random() < 0.4}


def oracle_pos(spec, r):
    """extract_positionals splits the arguments at the first directory"""
    args, dirs, files, p = r["args"], set(r["dirs"]), set(r["files"]), r["plain"]
    i = next((k for k, a in enumerate(args) if a in dirs), None)
    if "usage" in p:
        if p["usage"] is None:
            return "SystemExit(%r) without a usage message" % (p.get("code"),)
        if i == 0:
            want = "no configuration file given"
        else:
            head = args[:i] if i is not None else args
            bad = next((a for a in head if a not in files), None)
            want = ("config file %s not found" % bad) if bad is not None else ("l10n-base-dir not found" if i is None else None)
        if p["usage"] != want:
            return "parser.error(%r), expected %r for the arguments %r (directories %r, files %r)" % (
                p["usage"], want, args, sorted(dirs), sorted(files))
        return None
    if i is None or i == 0 or any(a not in files for a in args[:i]):
        return "returned %r for the arguments %r (directories %r, files %r)" % (p, args, sorted(dirs), sorted(files))
    want_locs = [None] if spec["validate"] else args[i + 1:]
    if p["configs"] != args[:i] or p["locales"] != want_locs:
        return "returned configs %r locales %r, expected %r %r" % (p["configs"], p["locales"], args[:i], want_locs)
    b = args[i]
    want_base = os.path.normpath(b if b.startswith("/") else "/R/" + b)
    if p["base"] != want_base:
        return "base %r, expected %r" % (p["base"], want_base)
    return None


def run_projects(ctx, out):
    """correspondence + oracle for compareProjects / handle / extract_positionals / mozpath.relpath"""
    # ---------------- mozpath.relpath / abspath
    rng = ctx.rng("c10", "rel")
    rels = gen_rel_cases(rng, ctx.n(400, 6000))
    res = pool.pmap("impl.projects", "impl_rel", rels, timeout=5.0, batch=64)
    model = C.run_driver_parallel(["c10.rel " + " ".join(C.enc(x) for x in c) for c in rels]) if ctx.model_ok else [None] * len(rels)
    for c, r, mo in zip(rels, res, model):
        out.evaluations += 1
        if "r" not in r:
            out.violations.append({"what": "mozpath.relpath raised %s" % r.get("exc"), "op": "rel", "input": {"args": c}, "finding": None})
        elif mo is not None and mo != r["r"]:
            out.disagreements.append({"op": "c10.rel", "args": c, "impl": r["r"], "model": mo})
        else:
            out.count("proj.rel." + ("dotdot" if "46.46" in r["r"] else "plain"))
    # ---------------- extract_positionals
    rng = ctx.rng("c10", "pos")
    pspecs = [gen_pos_spec(rng) for _ in range(ctx.n(150, 2500))]
    res = pool.pmap("impl.projects", "impl_pos", [[s] for s in pspecs], timeout=10.0, batch=16)
    lines = [r["r"]["line"] for r in res if "r" in r]
    model = iter(C.run_driver_parallel(lines) if ctx.model_ok else [None] * len(lines))
    for spc, r in zip(pspecs, res):
        out.evaluations += 1
        if "r" not in r:
            out.violations.append({"what": "extract_positionals: adapter raised %s: %s" % (r.get("exc"), r.get("msg")), "op": "pos",
                                   "input": spc, "finding": None})
            continue
        r = r["r"]
        mo = next(model)
        bad = oracle_pos(spc, r)
        if bad:
            out.violations.append({"what": "extract_positionals: " + bad, "op": "pos", "input": spc, "finding": None})
        elif mo is not None and mo != r["canon"]:
            out.disagreements.append({"op": "c10.pos", "spec": spc, "impl": r["canon"], "model": mo})
        else:
            out.count("proj.pos." + ("usage" if "usage" in r["plain"] else "ok"))
            out.nontrivial.add(("pos", r["canon"]))
    # ---------------- handle / compareProjects
    rng = ctx.rng("c10", "cp")
    cases = []          # (group, variant name, spec)
    for gi in range(ctx.n(36, 500)):
        spec = gen_cp_spec(rng)
        for name, sp in cp_variants(rng, spec):
            cases.append((gi, name, sp))
    nrandom = ctx.n(36, 500)
    for mi in range(ctx.n(5, 60)):
        spec = gen_cp_mix_spec(rng)
        for name, sp in [("q%d" % q, dict(spec, args=dict(spec["args"], quiet=q))) for q in (0, 2, 4)] + \
                [("validate", dict(spec, args=dict(spec["args"], validate=True))),
                 ("explicit", dict(spec, args=dict(spec["args"], locales=["fr", "de", "fr"])))]:
            cases.append((nrandom + mi, name, sp))
    for name, sp in cp_error_specs(rng):
        sp = dict(sp, meta=None, tags=[name])
        cases.append((-1, name, sp))
    res = pool.pmap("impl.projects", "run_handle", [[sp] for _, _, sp in cases], timeout=30.0, batch=4)
    lines, owner = [], []
    for ci, r in enumerate(res):
        if "r" in r:
            lines.append(r["r"]["tab"])
            owner.append((ci, "tab"))
            if r["r"]["pfm"] is not None:
                lines.append(r["r"]["pfm"])
                owner.append((ci, "pfm"))
    model = C.run_driver_parallel(lines) if ctx.model_ok else [None] * len(lines)
    by_case = {}
    for (ci, kind), mo in zip(owner, model):
        by_case.setdefault(ci, {})[kind] = mo
    groups = {}
    for ci, ((gi, name, sp), r) in enumerate(zip(cases, res)):
        out.evaluations += 1
        small = {"files": sp["files"], "dirs": sp.get("dirs", []), "args": sp["args"], "relative": sp.get("relative", False),
                 "meta": sp.get("meta"), "tags": sp.get("tags", []), "expect_outcome": sp.get("expect_outcome")}
        if "r" not in r:
            out.violations.append({"what": "CompareLocales.handle: %s (%s) at %s" % (r.get("exc"), r.get("msg"), r.get("where")),
                                   "op": "cp", "input": small, "finding": None})
            continue
        r = r["r"]
        p = r["plain"]
        kind = p["outcome"].split(":")[0]
        bad = oracle_cp_run(sp, sp["args"], r)
        if not bad and sp.get("expect_outcome") and p["outcome"] != sp["expect_outcome"]:
            bad = "outcome %s, by construction of the tree (one error-category finding, filter verdicts as written) %s" % (
                p["outcome"], sp["expect_outcome"])
        if bad:
            out.violations.append({"what": "compareProjects/handle (%s): %s" % (name, bad), "op": "cp", "input": small, "finding": None})
            out.count("proj.cp.violations")
            continue
        groups.setdefault(gi, {})[name] = r
        for k, mo in by_case.get(ci, {}).items():
            if mo is None:
                continue
            if k == "pfm" and "raise:unsupported" in mo:
                out.count("proj.cp.pfm.unsupported")
                continue
            canon = r["canon"]
            if not p["env_known"]:      # no TOML config was parsed: the env handed to the parser cannot be observed
                import re as _re
                canon = _re.sub(r" \|env=[^ ]*", " |env=", canon)
                mo = _re.sub(r" \|env=[^ ]*", " |env=", mo)
            if mo != canon:
                out.disagreements.append({"op": "c10.handle", "how": k, "variant": name, "input": small,
                                          "impl": r["canon"][:1500], "model": mo[:1500]})
            else:
                out.count("proj.cp.%s.agree" % k)
        out.count("proj.cp.outcome." + kind)
        if p.get("exc"):
            out.count("proj.cp.raise." + p["exc"]["exc"])
        if "obs" in p:
            out.count("proj.cp.observers=%d" % len(p["obs"]))
            if (sp.get("meta") or {}).get("downgrade") and name.startswith("q"):
                n = sum(c.get("errors", 0) for c in p["list"]["summary"].values())
                out.count("proj.cp.class.downgrade_runs." + ("with_errors" if n else "no_errors"))
            if len(p["obs"]) > 1 and any(o["summary"] for o in p["obs"]):
                out.nontrivial.add(("cp", r["canon"][:4000]))
        for k in ("add", "remove", "compare"):
            n = sum(1 for c in p["calls"] if c[0] == k)
            if n:
                out.count("proj.cp.calls." + k, n)
        if r["notes"].get("fullpath_not_function_of_file"):
            out.count("proj.cp.fullpath_not_function_of_file")
        if gi < 0:
            import re as _re
            out.contracts["cp_probe." + name] = _re.sub(r"t((?:\d+\.)*\d+)$", lambda m: "".join(chr(int(x)) for x in m.group(1).split(".")), p["outcome"])
        if len(out.samples) < 10 and name == "q0" and "obs" in p and len(p["obs"]) > 1 and p["list"]["summary"]:
            out.samples.append({"op": "cp", "args": sp["args"], "configs": {k: v for k, v in sp["files"].items() if k.endswith(".toml")},
                                "outcome": p["outcome"], "stdout": p["stdout"][:1200]})
    # per-file independence: the joint run against the runs over one file at a time (all mixed module/plain trees, a
    # few of the random ones)
    chosen = [gi for gi in sorted(groups) if gi >= nrandom][:ctx.n(5, 60)] + [gi for gi in sorted(groups) if 0 <= gi < nrandom][:ctx.n(2, 30)]
    singles, sowner = [], []
    for gi in chosen:
        g = groups[gi]
        if "q0" not in g or not g["q0"]["plain"]["outcome"].startswith("returned:"):
            continue
        spec = next(sp for (g2, name, sp) in cases if g2 == gi and name == "q0")
        if spec["args"].get("full") or spec["args"].get("validate"):
            continue
        ss = cp_single_specs(spec, g["q0"])
        if ss is None:
            continue
        for loc, l10n, sp1 in ss:
            singles.append([sp1])
            sowner.append((gi, loc, l10n))
    sres = pool.pmap("impl.projects", "run_handle", singles, timeout=30.0, batch=4)
    by_group = {}
    for (gi, loc, l10n), r in zip(sowner, sres):
        by_group.setdefault(gi, []).append((loc, l10n, r))
    for gi, rs in by_group.items():
        out.evaluations += len(rs)
        spec = next(sp for (g2, name, sp) in cases if g2 == gi and name == "q0")
        small = {"files": spec["files"], "dirs": spec.get("dirs", []), "args": spec["args"], "relative": spec.get("relative", False),
                 "meta": spec.get("meta"), "tags": spec.get("tags", [])}
        if any("r" not in r for _, _, r in rs):
            out.violations.append({"what": "compareProjects/handle: a single-file run raised in the adapter", "op": "cp-indep",
                                   "input": small, "finding": None})
            continue
        bad = oracle_cp_independence(groups[gi]["q0"], [(loc, l10n, r["r"]) for loc, l10n, r in rs])
        if bad:
            out.violations.append({"what": "compareProjects/handle, per-file independence: " + bad, "op": "cp-indep", "input": small,
                                   "finding": None})
        else:
            out.count("proj.cp.independence_groups")
            out.count("proj.cp.independence_single_runs", len(rs))
            if "mix" in spec.get("tags", ()):
                mods = sum(1 for c in groups[gi]["q0"]["canon"].split(" |calls=")[1].split(" |")[0].split(";") if c and c.split(",")[1] != "-")
                out.count("proj.cp.mix.calls_with_module", mods)
    # across the runs of one tree: quiet monotonicity, order of the locales
    for gi, g in groups.items():
        if gi < 0:
            continue
        spec = next(sp for (g2, name, sp) in cases if g2 == gi and name == "q0")
        small = {"files": spec["files"], "dirs": spec.get("dirs", []), "args": spec["args"], "relative": spec.get("relative", False),
                 "meta": spec.get("meta"), "tags": []}
        if all(("q%d" % q) in g for q in range(5)):
            bad = oracle_cp_quiet([g["q%d" % q] for q in range(5)])
            if bad:
                out.violations.append({"what": "compareProjects/handle: " + bad, "op": "cp-quiet", "input": small, "finding": None})
                continue
            out.count("proj.cp.quiet_groups")
        if "perm" in g and "q0" in g:
            a, b = g["q0"]["plain"], g["perm"]["plain"]
            same = (a["outcome"] == b["outcome"] and a["stdout"] == b["stdout"] and a.get("json") == b.get("json")
                    and a.get("obs") == b.get("obs"))
            explicit = bool(spec["args"]["locales"])
            # with no explicit locales the permuted run names them explicitly: only comparable when every config has every locale
            if explicit and not same:
                out.violations.append({"what": "compareProjects/handle: the order of the locales argument changes the result",
                                       "op": "cp-perm", "input": small, "finding": None})
            elif explicit:
                out.count("proj.cp.perm_groups")

def run(ctx):
    from impl import observer as I
    out = Outcome()
    out.rule = ("tree: every sequence of <=3 (quick) / <=4 (thorough) tree[path] calls over the 14 paths of depth <=3 on {a,b}, plus random "
                "sequences over prefix-free and arbitrary path sets; obs: every history of <=2 / <=3 events over 21 events x 3 files x 4 "
                "observer configurations (two of them with filters that DOWNGRADE every error: a TOML catch-all key rule, a legacy filter.py), "
                "plus random histories (<=30 events, <=8 files with shared directory prefixes, File keys with/without "
                "module, 0-3 project observers with hash-table or real ProjectConfig filters incl. catch-all / message-text key rules and "
                "legacy filter.py callables) and a family in which every project filter answers warning/ignore for every error, each at "
                "quiet 0..4; the exit status of a history is what the REAL CompareLocales.handle returns when compareProjects hands it that "
                "ObserverList; command: generated project trees (with catch-all filters) through CompareLocales().handle at quiet 0..4 x "
                "return_zero. non-trivial = at least two stored paths under a shared compressed prefix; distinct = distinct canonical "
                "results among those")
    # ---------------- tree
    cases, exhaustive, probes = tree_cases(ctx)
    out.count("tree.cases", len(cases))
    out.count("tree.exhaustive", exhaustive)
    lines = [wire_tree(ops) for ops in cases + probes]
    model = C.run_driver_parallel(lines) if ctx.model_ok else [None] * len(lines)
    for idx, (ops, mo) in enumerate(zip(cases + probes, model)):
        canon = I.impl_tree(ops)
        out.evaluations += 1
        probe = idx >= len(cases)
        bad = None if probe else oracle_tree(ops, canon)
        if probe:
            out.count("tree.probe." + ("raises" if canon.startswith("!") else "ok"))
        if bad:
            out.violations.append({"what": "Tree: " + bad, "input": {"ops": ops}, "op": "tree", "finding": finding_of(bad, ops)})
        elif mo is not None and mo != canon:
            out.disagreements.append({"op": "tree", "ops": ops, "impl": canon, "model": mo})
        if not probe and canon.count("(") >= 3 and ">(" in canon:
            out.nontrivial.add(canon)
        if len(out.samples) < 2 and len(ops) >= 4 and canon.count("(") >= 4:
            out.samples.append({"op": "tree", "ops": ops, "result": canon})
    # ---------------- observer histories
    rng = ctx.rng("c10", "obs")
    hist = exhaustive_histories(ctx)
    out.count("obs.exhaustive", len(hist))
    for _ in range(ctx.n(1200, 30000)):
        hist.append(gen_history(rng, 30 if rng.random() < 0.3 else 10, prefix_free=True))
    # the class of round 5: project filters that DOWNGRADE (or ignore) error notifications — the message text is the
    # entity they are asked about —, single- and multi-project, with no un-downgraded error in the history
    rngd = ctx.rng("c10", "obs-downgrade")
    for _ in range(ctx.n(300, 6000)):
        hist.append(gen_history(rngd, rngd.choice([1, 2, 3, 6, 12]), prefix_free=True, downgrade=True))
    informational = []
    for _ in range(ctx.n(150, 3000)):
        informational.append(gen_history(rng, 12, prefix_free=False))
    # excluded point of exit_iff_errors: an `errors` entry with value 0
    zero = {"files": [("de/a", None, "de")], "observers": [None], "events": [["s", 0, [[0, 0]]]], "rz": 0, "prefix_free": True}
    informational.append(zero)
    # excluded points of the text theorems: non-textual data of a displayed error (serialize_details_total_iff),
    # no project observer but counted stats, a None locale next to a str locale (summaries_total_iff)
    text_probes = {
        "details_error_tuple_data": {"files": [("de/a", None, "de")], "observers": [None],
                                     "events": [["n", "e", 0, ["k", None]]], "rz": 0, "prefix_free": True},
        "summaries_no_observers_stats": {"files": [("de/a", None, "de")], "observers": [],
                                         "events": [["s", 0, [[2, 1]]]], "rz": 0, "prefix_free": True},
        "summaries_none_and_str_locale": {"files": [("a", None, None), ("de/b", None, "de")], "observers": [None],
                                          "events": [["n", "e", 0, "m"], ["n", "e", 1, "m"]], "rz": 0, "prefix_free": True},
    }
    informational += list(text_probes.values())
    allh = hist + informational
    out.count("obs.cases", len(allh))
    lines = []
    tabs = []
    for case in allh:
        tables = I.filter_tables(case)
        tabs.append(tables)
        for q in range(5):
            lines.append(wire_obs(case, tables, q))
    model = C.run_driver_parallel(lines) if ctx.model_ok else [None] * len(lines)
    for hi, (case, tables) in enumerate(zip(allh, tabs)):
        results = [I.impl_obs(case, q) for q in range(5)]
        out.evaluations += 5
        # filter value of every observer on every event
        acts = []
        for ev in case["events"]:
            row = []
            for tbl in tables:
                if tbl is None:
                    row.append("error")
                    continue
                if ev[0] == "n":
                    key = (ev[2], None) if ev[1] in FILE_CATS else (ev[2], I.mk_data(ev[3]))
                else:
                    key = (ev[1], "")
                row.append(dict(((fi, d), a) for fi, d, a in tbl)[key])
            acts.append(row)
        bad = oracle_history(case, acts, results)
        if case is zero:
            out.contracts["errors_zero_stats_sets_flag"] = results[0].get("exit")
            bad = None
        for name, pc in text_probes.items():
            if case is pc:
                which = "details_text" if name.startswith("details") else "summaries_text"
                out.contracts["text_probe." + name] = results[0].get(which, {}).get("exc", "returns")
        if bad:
            out.violations.append({"what": "Observer: " + bad, "op": "obs", "finding": finding_of(bad, case),
                                   "input": {k: case[k] for k in ("files", "observers", "events", "rz", "prefix_free")}})
            out.count("obs.violations")
            continue
        for q in range(5):
            mo = model[hi * 5 + q]
            canon = results[q]["canon"]
            if mo is not None and mo != canon:
                out.disagreements.append({"op": "obs", "quiet": q, "case": case, "impl": canon, "model": mo})
                break
        c0 = results[0]["canon"]
        if ">{" in c0 and c0.count("[") >= 3:
            out.nontrivial.add(c0)
        # how much of the class of round 5 was explored: errors counted although NO project filter answered "error"
        counted = [row for ev, row in zip(case["events"], acts) if ev[0] == "n" and ev[1] == "e" and any(a != "ignore" for a in row)]
        if counted and case["observers"] and not any(ev[0] == "s" and any(k == 0 for k, _ in ev[2]) for ev in case["events"]):
            if all(a != "error" for row in counted for a in row):
                out.count("obs.class.errors_all_downgraded")
                out.count("obs.class.errors_all_downgraded.observers=%d" % len(case["observers"]))
            elif any("warning" in row for row in counted):
                out.count("obs.class.errors_some_downgraded")
        out.count("obs.observers=%d" % len(case["observers"]))
        if len(out.samples) < 5 and len(case["events"]) >= 6 and len(case["observers"]) >= 2 and ">{" in c0:
            out.samples.append({"op": "obs", "case": case, "quiet0": c0[:1500]})
    for k, v in sorted(TEXT_STATS.items()):
        out.count("obs." + k, v)
    TEXT_STATS.clear()
    # ---------------- whole command
    rngc = ctx.rng("c10", "cmd")
    nproj = ctx.n(12, 150)
    specs = [gen_project(rngc) for _ in range(nproj)]
    tasks, keys = [], []
    base = os.path.join(SCRATCH, "cmd-%d" % os.getpid())
    for pi, spec in enumerate(specs):
        for q in range(5):
            for rz in (0, 1):
                if rz == 1 and q not in (0, 3):
                    continue
                keys.append((pi, q, rz))
                tasks.append([os.path.join(base, "p%d-%d-%d" % (pi, q, rz)), spec, q, rz])
    res = pool.pmap("impl.observer", "impl_command", tasks, timeout=20.0, batch=4)
    runs = {}
    for (pi, q, rz), r in zip(keys, res):
        runs.setdefault(pi, {})[(q, rz)] = r
    import shutil
    shutil.rmtree(base, ignore_errors=True)
    for pi, spec in enumerate(specs):
        out.evaluations += len(runs[pi])
        bad = oracle_command(spec, runs[pi])
        out.count("cmd.projects")
        if bad:
            out.violations.append({"what": "CompareLocales: " + bad, "op": "cmd", "finding": finding_of(bad, spec),
                                   "input": {"files": spec["files"], "configs": spec["configs"], "locales": spec["locales"],
                                             "expect": spec["expect"]}})
        else:
            r0 = runs[pi].get((0, 0), {}).get("r")
            if r0 and spec["expect"]["dups"]:
                out.nontrivial.add(json.dumps(r0["json"], sort_keys=True))
                out.count("cmd.with_errors")
            if r0 and len(out.samples) < 7 and spec["expect"]["dups"] and len(spec["configs"]) == 2:
                out.samples.append({"op": "cmd", "configs": spec["configs"], "rc": r0["rc"], "json": r0["json"]})
    run_projects(ctx, out)
    return out


def classify(v):
    return v.get("finding")


def replay(payload):
    from impl import observer as I
    res = []
    for v in payload.get("violations", []):
        i = v["input"]
        if v.get("op") == "tree":
            canon = I.impl_tree(i["ops"])
            res.append({"input": i, "result": canon, "oracle": oracle_tree(i["ops"], canon)})
        elif v.get("op") == "obs":
            case = dict(i)
            tables = I.filter_tables(case)
            results = [I.impl_obs(case, q) for q in range(5)]
            acts = []
            for ev in case["events"]:
                row = []
                for tbl in tables:
                    if tbl is None:
                        row.append("error")
                        continue
                    if ev[0] == "n":
                        key = (ev[2], None) if ev[1] in FILE_CATS else (ev[2], I.mk_data(ev[3]))
                    else:
                        key = (ev[1], "")
                    row.append(dict(((fi, d), a) for fi, d, a in tbl)[key])
                acts.append(row)
            res.append({"input": i, "oracle": oracle_history(case, acts, results)})
        elif v.get("op") == "cmd":
            spec = dict(i)
            runs = {}
            base = os.path.join(SCRATCH, "replay-%d" % os.getpid())
            for q in range(5):
                for rz in (0, 1):
                    try:
                        runs[(q, rz)] = {"r": I.impl_command(os.path.join(base, "p-%d-%d" % (q, rz)), spec, q, rz)}
                    except Exception as e:   # noqa
                        runs[(q, rz)] = {"exc": type(e).__name__, "msg": str(e)}
            res.append({"input": {"configs": i["configs"]}, "oracle": oracle_command(spec, runs)})
        elif v.get("op") == "pos":
            r = pool.pmap("impl.projects", "impl_pos", [[i]], timeout=30.0)[0]
            res.append({"input": i, "oracle": oracle_pos(i, r["r"]) if "r" in r else "adapter raised %s" % r.get("exc")})
        elif v.get("op") == "cp":
            r = pool.pmap("impl.projects", "run_handle", [[i]], timeout=60.0)[0]
            if "r" not in r:
                res.append({"input": i["args"], "oracle": "CompareLocales.handle: %s (%s)" % (r.get("exc"), r.get("msg"))})
            else:
                bad = oracle_cp_run(i, i["args"], r["r"])
                if not bad and i.get("expect_outcome") and r["r"]["plain"]["outcome"] != i["expect_outcome"]:
                    bad = "outcome %s, by construction %s" % (r["r"]["plain"]["outcome"], i["expect_outcome"])
                res.append({"input": i["args"], "outcome": r["r"]["plain"]["outcome"], "oracle": bad})
        elif v.get("op") == "cp-quiet":
            rs = pool.pmap("impl.projects", "run_handle", [[dict(i, args=dict(i["args"], quiet=q))] for q in range(5)], timeout=60.0)
            ok = all("r" in r for r in rs)
            res.append({"input": i["args"], "oracle": oracle_cp_quiet([r["r"] for r in rs]) if ok else "a run raised"})
        elif v.get("op") == "cp-indep":
            j = pool.pmap("impl.projects", "run_handle", [[i]], timeout=60.0)[0]
            if "r" not in j:
                res.append({"input": i["args"], "oracle": "the joint run raised"})
            else:
                ss = cp_single_specs(i, j["r"]) or []
                rs = pool.pmap("impl.projects", "run_handle", [[sp1] for _, _, sp1 in ss], timeout=60.0)
                ok = all("r" in r for r in rs)
                res.append({"input": i["args"], "oracle": oracle_cp_independence(j["r"], [(a, b, r["r"]) for (a, b, _), r in zip(ss, rs)])
                            if ok else "a single-file run raised"})
        elif v.get("op") == "cp-perm":
            locs = list(i["args"]["locales"])
            rs = pool.pmap("impl.projects", "run_handle", [[i], [dict(i, args=dict(i["args"], locales=list(reversed(locs)) + locs[:1]))]], timeout=60.0)
            ok = all("r" in r for r in rs)
            same = ok and all(rs[0]["r"]["plain"].get(k) == rs[1]["r"]["plain"].get(k) for k in ("outcome", "stdout", "json", "obs"))
            res.append({"input": i["args"], "oracle": None if same else "the order of the locales argument changes the result"})
    return {"violates": any(r["oracle"] for r in res), "cases": res}

"""C10 — Summaries count every event once; quiet hides only details; exit = errors."""
import itertools
import json
import os

from lib import common as C
from lib import pool
from lib.runner import Outcome

ID = "C10"
LEAN_TARGETS = ["CLModel.Props.C10"]
M = "CLModel.Props.C10"
THEOREMS = [
    (M, "C10.tree_invariant", "Tree.__get never raises on a non-empty path and keeps sibling keys non-empty with pairwise distinct first segments"),
    (M, "C10.tree_refines_map", "after tree[path].append(x) the value stored for `path` got x appended and every other path is untouched (all paths, any nesting)"),
    (M, "C10.tree_flatten_once", "every path is stored at exactly one node: the flattened tree lists each path once, with the value the lookup finds"),
    (M, "C10.tojson_paths", "for prefix-free path sets toJSON shows every stored list exactly once, under dict keys that joined with '/' give the file's path"),
    (M, "C10.details_spec", "after any history the details of a path are exactly the non-ignored, non-hidden notifications raised for files with that path, in order"),
    (M, "C10.summary_counts", "after any history every summary number = number of non-ignored error/warning notifications (+ sum of non-ignored stats) of that locale"),
    (M, "C10.quiet_summary_inv", "summary, error flag and return values do not depend on the quiet level"),
    (M, "C10.quiet_monotone", "raising the quiet level only removes details: per path the details are a sublist"),
    (M, "C10.list_fanout", "ObserverList returns ignore iff every project observer ignores (always, with no observers); otherwise it notifies itself unfiltered and returns error if any does, else warning; the assert cannot fail"),
    (M, "C10.list_summary_counts", "the list's own summary counts the notifications not ignored by all project observers, and all stats"),
    (M, "C10.exit_iff_errors", "exit status is 1 iff not return_zero and the list's own error total is positive"),
    (M, "C10.list_errors_iff_observers", "the list has counted an error iff some project observer has"),
    (M, "C10.run_total", "no notification sequence over modelled files makes an Observer raise; the tree invariant holds afterwards"),
    (M, "C10.list_run_total", "no notification sequence over modelled files makes an ObserverList raise (the assert holds)"),
    (M, "C10.tojson_history", "after any history over prefix-free file paths toJSON of the details shows every stored list once, under its file's path"),
    (M, "C10.notify_ret", "notify returns the filter's answer (error without filter), independent of quiet"),
    (M, "C10.list_own_as_observer", "the list's own state = an unfiltered Observer fed the events not ignored by all project observers"),
    (M, "C10.prefix_case_witness", "negation witness: a value at an interior node hides its subtree in toJSON (why prefix-freeness is assumed)"),
    (M, "C10.exit_witness", "negation witness: updateStats with errors=0 raises the flag without a counted error"),
    (M, "C10.getcontent_rec", "Tree.getContent yields the node's value first (also at an interior node), then per branch in sorted-key order the key at this depth and the sub-tree's content one level deeper"),
    (M, "C10.getcontent_spec", "read as an outline, getContent() shows every stored path exactly once: one value row holding the list the lookup finds, under key rows whose keys concatenate to the path; nothing else; files in the order of sorted(path tuples); interior values included (no prefix-freeness needed)"),
    (M, "C10.interior_shown_witness", "the interior-node case as it is: getContent shows the list of `a` and then that of `a/b`, toJSON only the first"),
    (M, "C10.serialize_details_spec", "after any history with textual data serializeDetails() returns the newline-join of the row lines (indentation + '/'-joined key; one line per detail with ERROR:/WARNING:/+/-/file-comment prefixes, tuple keys joined with ' | '); the rows are, per path with displayed details, exactly details_spec, under keys concatenating to the file's path, files sorted"),
    (M, "C10.serialize_details_total_iff", "after a history over modelled files serializeDetails returns iff the data of every displayed notification is textual; otherwise TypeError"),
    (M, "C10.line_of_row", "the lines of one getContent row and the text of every kind of details item, spelled out"),
    (M, "C10.list_serialize_details_spec", "the same for the ObserverList itself (what the command prints): details of the events not ignored by all project observers"),
    (M, "C10.serialize_details_witness", "negation witness: an error whose data is a tuple makes serializeDetails raise TypeError"),
    (M, "C10.quiet_text_monotone", "raising quiet only removes (file path, detail line) pairs from what serializeDetails displays, order kept; the displayed files are a sublist"),
    (M, "C10.list_quiet_text_monotone", "the same for the ObserverList at two quiet levels with equally filtered project observers"),
    (M, "C10.quiet_text_lines_witness", "negation witness: the raw text lines are NOT a sublist (path compression changes key lines and indentation)"),
    (M, "C10.summaries_total_iff", "serializeSummaries returns iff the list's summary does not mix None and str locales and (has no locale or there is a project observer); otherwise exactly TypeError resp. IndexError"),
    (M, "C10.serialize_summaries_spec", "where it returns: the newline-join of one block per locale of the list's summary, locales sorted, columns = project observers (+ the list itself with more than one)"),
    (M, "C10.summary_block", "a block: `locale:`, the ten keys in fixed order (rows with a non-zero column only; key left-aligned in 12, cells ' {:6}', blank for zero/missing), then changed*100 // (changed+unchanged+report+missing) of the last column, <= 100, 0 if nothing was counted"),
    (M, "C10.summaries_never_raise", "after any history through a list with >= 1 project observer over files whose locales are all str or all None, serializeSummaries returns"),
    (M, "C10.summaries_witness", "negation witnesses: no project observers + stats -> IndexError; a None locale next to a str locale -> TypeError"),
]
PARTIAL = [
    "quiet_text_monotone is proved for the (file path, detail line) pairs and the displayed files; the literal claim 'the text lines at a "
    "higher quiet level are a sublist' is false (quiet_text_lines_witness: path compression changes key lines and indentation)",
    "the text theorems speak about the rows of getContent() (read as an outline by C10T.outline) and their lines; the key lines between two "
    "value rows are characterised recursively (getcontent_rec), not in closed form from the list of files",
    "serializeSummaries: the model rounds changed*100/total down with integer division; Python formats a float with %d (equal below 2^46 entries)",
    "the list's own details are covered through list_own_as_observer + details_spec / list_serialize_details_spec",
]
TRUSTED = [
    "hand-written models CLModel/Compare/Tree.lean (Tree.__get/toJSON/getContent) and CLModel/Compare/Observer.lean "
    "(Observer/ObserverList notify, updateStats, serializeDetails, serializeSummaries, exit status), tied by the `tree`/`obs` correspondence",
    "Python dicts/defaultdicts modelled as insertion-ordered association lists, sets of return values as duplicate-free lists",
    "filters are pure functions File x entity -> {error, warning, ignore} (the contract of ProjectConfig.filter)",
]
ASSUMPTIONS = [
    "quiet is a non-negative integer (argparse count)",
    "text renderings: the data of error/warning notifications is a str, of missingEntity/obsoleteEntity a str or a tuple (TextData; what the callers pass)",
    "stats dicts use the eleven summary keys; an `errors` entry, which no caller passes, has a positive value (zero is probed separately)",
    "a File that has a module also has a locale (a None locale would become a None path segment)",
]
LEVEL_TEXT = ("Lean 4 theorems over an executable transliteration of Tree, Observer, ObserverList and the exit-status expression: for ALL "
              "notification histories, filters and quiet levels the summaries equal the counts of non-ignored findings, details sit at "
              "exactly the path they were raised for (radix-tree invariant + refinement to a path->list map, toJSON complete for "
              "prefix-free paths; the printed text of serializeDetails shows every file's details exactly once under its own path, "
              "interior paths included; serializeSummaries is total exactly off the TypeError/IndexError points and prints the counters), "
              "quiet only removes details, and exit=1 iff errors were counted and not return_zero; the model is tied to "
              "the Python by bounded-exhaustive + random differential runs, an independent oracle recomputes everything from the history "
              "(reading the printed details outline and the summary table back), and "
              "whole-command runs over generated project trees tie commands.py")
LEVEL_NOTE = ("trusted: Lean kernel; hand-written model validated by correspondence (dict order, set semantics, string formatting); "
              "filters assumed pure with values error/warning/ignore; toJSON completeness needs prefix-free paths (negation witness: an "
              "interior value hides its subtree); exit theorem needs positive `errors` stats (witness: errors=0 sets the flag); text lines are "
              "not monotone in quiet, only the (file, detail) pairs (witness); serializeDetails needs textual data (witness: TypeError)")
TECHNIQUE = "Lean 4 proof (radix-tree refinement, induction over histories) + differential correspondence + independent oracle + whole-command runs"

STATKEYS = ["errors", "warnings", "missing", "missing_w", "report", "obsolete", "changed", "changed_w",
            "unchanged", "unchanged_w", "keys"]
FILE_CATS = ("mf", "of")
DETAIL_CATS = ("e", "w", "me", "oe", "mf", "of")
SCRATCH = "/tmp/wt/c10"


# ------------------------------------------------------------------ wire
def wire_opt(t):
    return "-" if t is None else C.enc(t)


def wire_data(d):
    if d is None:
        return ["-"]
    if isinstance(d, (list, tuple)):
        return ["T", str(len(d))] + [wire_opt(p) for p in d]
    return [C.enc(d)]


def split_op(op):
    """a tree op is a list of segments (get + append) or [segments, append?]"""
    if len(op) == 2 and isinstance(op[1], bool):
        return op[0], op[1]
    return op, True


def wire_tree(ops):
    toks = ["tree", str(len(ops))]
    for op in ops:
        parts, app = split_op(op)
        toks.append(str(len(parts)))
        toks += [C.enc(p) for p in parts]
        toks.append("a" if app else "g")
    return " ".join(toks)


def wire_obs(case, tables, quiet):
    toks = ["obs", str(quiet), str(int(case["rz"])), "F", str(len(case["files"]))]
    for file, module, locale in case["files"]:
        toks += [C.enc(file), wire_opt(module), wire_opt(locale)]
    toks += ["O", str(len(tables))]
    for tbl in tables:
        if tbl is None:
            toks.append("N")
        else:
            toks += ["T", str(len(tbl))]
            for fi, d, a in tbl:
                toks += [str(fi)] + wire_data(d) + [a[0]]
    toks += ["E", str(len(case["events"]))]
    for ev in case["events"]:
        if ev[0] == "n":
            toks += ["n", ev[1], str(ev[2])] + wire_data(ev[3])
        else:
            toks += ["s", str(ev[1]), str(len(ev[2]))]
            for k, v in ev[2]:
                toks += [str(k), str(v)]
    return " ".join(toks)


# ------------------------------------------------------------------ generators
SEGS = ["browser", "toolkit", "a", "b", "chrome", "x.ftl", "y.properties", "z.dtd", "de", "fr", "", "é", "a b", "ab"]
LOCALES = ["de", "fr", "sr-Latn"]


def is_prefix(a, b):
    return len(a) <= len(b) and list(b[:len(a)]) == list(a)


def gen_prefix_free(rng, n, alphabet=SEGS, maxlen=5):
    """n segment lists, none a prefix of another, with shared directory prefixes"""
    acc = []
    tries = 0
    while len(acc) < n and tries < 50 * n:
        tries += 1
        if acc and rng.random() < 0.6:
            base = rng.choice(acc)
            cut = rng.randrange(0, len(base))
            cand = list(base[:cut])
        else:
            cand = [rng.choice(LOCALES)] if rng.random() < 0.7 else []
        for _ in range(rng.randrange(1, 4)):
            if len(cand) < maxlen:
                cand.append(rng.choice(alphabet))
        if not cand:
            continue
        if any(is_prefix(p, cand) or is_prefix(cand, p) for p in acc):
            continue
        acc.append(cand)
    return acc


def file_of_parts(rng, parts):
    """a File (file, module, locale) whose Tree segments are `parts`"""
    if len(parts) >= 3 and parts[1] != "" and rng.random() < 0.45:
        k = rng.randrange(2, len(parts))
        module = "/".join(parts[1:k])
        if module:      # an empty module string is falsy: the File would be keyed by `file` alone
            return ("/".join(parts[k:]), module, parts[0])
    r = rng.random()
    loc = parts[0] if r < 0.7 else (None if r < 0.8 else rng.choice(LOCALES))
    return ("/".join(parts), "" if rng.random() < 0.1 else None, loc)


def parts_of(f):
    file, module, locale = f
    if module:
        return [locale] + module.split("/") + file.split("/")
    return file.split("/")


DATA = ["k", "key2", "msg at line 1", "", "é-ü", "-brand"]


def gen_data(rng, cat):
    if cat in FILE_CATS:
        return None
    r = rng.random()
    if cat in ("me", "oe") and r < 0.12:
        return [rng.choice(DATA), rng.choice([None, "ctx"])]
    return rng.choice(DATA)


def gen_observers(rng, allow_project=True):
    n = rng.choice([0, 1, 1, 1, 2, 2, 3])
    obs = []
    for _ in range(n):
        r = rng.random()
        if r < 0.15:
            obs.append(None)
        elif r < 0.85 or not allow_project:
            a = rng.choice([300, 500, 700, 900])
            b = a + rng.choice([0, 100, 200])
            obs.append({"kind": "table", "seed": rng.randrange(1 << 30), "weights": [a, min(b, 1000)],
                        "ignore_locales": [l for l in LOCALES if rng.random() < 0.2]})
        else:
            rules = []
            for _ in range(rng.randrange(0, 4)):
                rule = {"path": "{l}/" + rng.choice(["**", "browser/**", "**/x.ftl", "a/**"]),
                        "action": rng.choice(["ignore", "warning", "error"])}
                if rng.random() < 0.6:
                    rule["key"] = rng.choice(["k", "key2", "re:^k", "-brand"])
                rules.append(rule)
            obs.append({"kind": "project", "locales": [l for l in LOCALES if rng.random() < 0.8] or ["de"], "rules": rules})
    return obs


def gen_history(rng, maxlen, prefix_free=True):
    nfiles = rng.randrange(1, 8)
    if prefix_free:
        paths = gen_prefix_free(rng, nfiles)
    else:
        paths = [[rng.choice(["a", "b"]) for _ in range(rng.randrange(1, 4))] for _ in range(nfiles)]
    files = [file_of_parts(rng, p) for p in paths]
    # sometimes a second File object for the same path (reference file and localized file share it)
    for p in list(paths):
        if rng.random() < 0.15:
            f = ("/".join(p), None, None)
            if f not in files:
                files.append(f)
    observers = gen_observers(rng)
    project = any(o and o["kind"] == "project" for o in observers)
    events = []
    for _ in range(rng.randrange(0, maxlen + 1)):
        fi = rng.randrange(len(files))
        r = rng.random()
        if r < 0.8:
            cat = rng.choice(["e", "e", "w", "w", "me", "me", "oe", "oe", "mf", "of", "x"])
            d = gen_data(rng, cat)
            if project and isinstance(d, list):
                d = "k"         # key rules of a ProjectConfig are regexes over str entities
            events.append(["n", cat, fi, d])
        else:
            ks = rng.sample(range(1, 11), rng.randrange(0, 4))
            st = [[k, rng.choice([0, 1, 2, 7, 123456])] for k in ks]
            if rng.random() < 0.05:
                st.append([0, rng.randrange(1, 4)])      # an `errors` entry, positive
            events.append(["s", fi, st])
    return {"files": files, "observers": observers, "events": events, "rz": rng.randrange(2), "prefix_free": prefix_free}


def exhaustive_histories(ctx):
    files = [("de/a/x", None, "de"), ("y", "a", "de"), ("fr/z", None, "fr")]
    evs = [["n", c, fi, None if c in FILE_CATS else "k"] for c in DETAIL_CATS for fi in range(3)]
    evs += [["n", "x", 0, "k"], ["s", 0, [[2, 2]]], ["s", 2, [[6, 1], [0, 1]]]]
    configs = [
        [None],
        [{"kind": "table", "seed": 1, "weights": [500, 700], "ignore_locales": []}],
        [{"kind": "table", "seed": 2, "weights": [400, 600], "ignore_locales": ["fr"]}, None],
        [],
    ]
    L = 2 if ctx.tier == "quick" else 3
    out = []
    for n in range(L + 1):
        for idx, h in enumerate(itertools.product(evs, repeat=n)):
            cfgs = configs if n <= 2 else [configs[idx % len(configs)]]
            for ci, cfg in enumerate(cfgs):
                out.append({"files": files, "observers": cfg, "events": [list(e) for e in h], "rz": (idx + ci) % 2,
                            "prefix_free": True})
    return out


# ------------------------------------------------------------------ oracle
def json_leaves(j, prefix=()):
    """[(tuple of dict keys from the root, list)] of a toJSON value"""
    if isinstance(j, list):
        return [(prefix, j)]
    out = []
    for k, v in j.items():
        out += json_leaves(v, prefix + (k,))
    return out


def is_sublist(a, b):
    it = iter(b)
    return all(any(x == y for y in it) for x in a)


def expected_observer(case, acts, j):
    """expected rets / counts / error / details(q=0) of project observer j (or of the list for j=None)
    straight from the history.  acts[i][k] = filter result of observer k on event i ("error" without filter)"""
    counts = {}
    error = False
    details = {}
    lines = {}
    rets = []
    for i, ev in enumerate(case["events"]):
        f = case["files"][ev[2] if ev[0] == "n" else ev[1]]
        loc = f[2]
        if j is None:
            a = acts[i]
            if ev[0] == "n":
                if all(x == "ignore" for x in a):
                    act, seen = "ignore", False
                else:
                    act, seen = ("error" if "error" in a else "warning"), True
                own = "error"        # the list itself has no filter
            else:
                seen, own, act = True, "error", None
        else:
            act = acts[i][j]
            seen = act != "ignore"
            own = act
        if ev[0] == "s":
            rets.append(None)
            if seen:
                for k, v in ev[2]:
                    counts[(loc, k)] = counts.get((loc, k), 0) + v
                    if k == 0:
                        error = True
            continue
        rets.append(act)
        if not seen:
            continue
        cat = ev[1]
        if cat == "e":
            counts[(loc, 0)] = counts.get((loc, 0), 0) + 1
            error = True
        elif cat == "w":
            counts[(loc, 1)] = counts.get((loc, 1), 0) + 1
        if cat in DETAIL_CATS:
            item = cat + ":r" + own[0] if cat in FILE_CATS else cat + ":" + show_data(ev[3])
            details.setdefault("/".join(parts_of(f)), []).append(item)
            lines.setdefault("/".join(parts_of(f)), []).append(render_detail(CAT_NAMES[cat], ev[3]))
    return {"rets": rets, "counts": {k: v for k, v in counts.items() if v}, "error": error, "details": details,
            "lines": lines}


def show_data(d):
    if d is None:
        return "d-"
    if isinstance(d, (list, tuple)):
        return "dT" + "|".join("-" if p is None else "t" + ".".join(str(ord(c)) for c in p) for p in d)
    return "dt" + ".".join(str(ord(c)) for c in d)


def counts_of(plain):
    out = {}
    for loc, cs in plain["summary"]:
        for k, v in enumerate(cs):
            if v:
                out[(loc, k)] = v
    return out


# ------------------------------------------------------------------ oracle for the text renderings
CAT_NAMES = {"e": "error", "w": "warning", "me": "missingEntity", "oe": "obsoleteEntity", "mf": "missingFile",
             "of": "obsoleteFile"}
DETAIL_LEADS = ("ERROR: ", "WARNING: ", "+", "-")
DETAIL_FILE_LINES = ("// add and localize this file", "// remove this file")
SUMMARY_KEYS = ("errors", "warnings", "missing", "missing_w", "obsolete", "changed", "changed_w", "unchanged",
                "unchanged_w", "keys")


def render_detail(cat, val):
    """the line the report owes a details item, without indentation (independent reference; `val` is the data
    of the notification, ignored for file categories)"""
    def name(k):
        return " | ".join(x for x in k if x is not None) if isinstance(k, (list, tuple)) else k
    if cat in ("error", "warning") and not isinstance(val, str):
        return None         # not textual: outside what serializeDetails can print (text_judgeable says so)
    if cat == "error":
        return "ERROR: " + val
    if cat == "warning":
        return "WARNING: " + val
    if cat == "missingEntity":
        return "+" + name(val)
    if cat == "obsoleteEntity":
        return "-" + name(val)
    return DETAIL_FILE_LINES[0] if cat == "missingFile" else DETAIL_FILE_LINES[1]


def is_detail_line(body):
    return body.startswith(DETAIL_LEADS) or body in DETAIL_FILE_LINES


def text_judgeable(case):
    """the printed outline can be read back unambiguously: no path segment looks like a details line or starts
    with a space, no text contains a newline"""
    for f in case["files"]:
        if f[1] and f[2] is None:
            return False
        for seg in parts_of(f):
            if seg.startswith(" ") or is_detail_line(seg) or "\n" in seg:
                return False
    for ev in case["events"]:
        if ev[0] == "n" and ev[1] in DETAIL_CATS and ev[1] not in FILE_CATS:
            d = ev[3]
            if d is None or (ev[1] in ("e", "w") and not isinstance(d, str)):
                return False
            if any(x is not None and "\n" in x for x in (d if isinstance(d, (list, tuple)) else [d])):
                return False
    return True


def parse_outline(text):
    """read the report the way a person does: a key line at depth d (2d spaces) replaces the chain of keys from
    level d on; details lines (indented one level deeper than the chain is long) belong to the file named by the
    chain above them.  -> ([(path, [details lines])] in print order, None) or (None, complaint)"""
    if text == "":
        return [], None
    stack, out, cur = [], [], None
    for ln in text.split("\n"):
        body = ln.lstrip(" ")
        ind = len(ln) - len(body)
        if ind % 2:
            return None, "line %r has an odd indentation" % ln
        if is_detail_line(body):
            d = ind // 2 - 1
            if d != len(stack):
                return None, "details line %r at level %d under a chain of %d keys %r" % (ln, d, len(stack), stack)
            if cur is None:
                cur = ["/".join(stack), []]
                out.append(cur)
            cur[1].append(body)
        else:
            d = ind // 2
            if d > len(stack):
                return None, "key line %r at depth %d under a chain of %d keys %r" % (ln, d, len(stack), stack)
            stack = stack[:d] + [body]
            cur = None
    return out, None


TEXT_STATS = {}


def _tick(name, n=1):
    TEXT_STATS[name] = TEXT_STATS.get(name, 0) + n


def oracle_details_text(case, exp_lines, results):
    """serializeDetails(): every file with details appears exactly once, under keys that joined give its own
    path, with exactly its details, one line each: = what the tree stores at every quiet level, = everything
    raised (by construction from the history) at quiet 0"""
    if not text_judgeable(case):
        _tick("text.details.not_judgeable")
        return None
    _tick("text.details.judged")
    if len(exp_lines) >= 2:
        _tick("text.details.judged_2+files")
    for q, r in enumerate(results):
        dt = r["details_text"]
        if "exc" in dt:
            return "quiet=%d: serializeDetails() raised %s" % (q, dt["exc"])
        rows, err = parse_outline(dt["text"])
        if err:
            return "quiet=%d: serializeDetails(): %s" % (q, err)
        shown = {}
        for path, lines in rows:
            if path in shown:
                return "quiet=%d: serializeDetails() shows the file %r twice" % (q, path)
            shown[path] = lines
        want = {"/".join(p): [render_detail(c, v) for c, v in items] for p, items in r["list_items"] if items}
        if shown != want:
            return "quiet=%d: serializeDetails() shows %r, the details tree stores %r" % (q, shown, want)
        if q == 0 and shown != exp_lines:
            return "quiet=0: serializeDetails() shows %r, raised (history): %r" % (shown, exp_lines)
    return None


def parse_summaries(text, ncols):
    """-> ({locale or None: ({key: [ints per column]}, rate)}, None) or (None, complaint)"""
    out = {}
    if text == "":
        return out, None
    block = []
    for ln in text.split("\n"):
        block.append(ln)
        if not (ln.endswith("% of entries changed") and ln[:-len("% of entries changed")].isdigit()):
            continue
        rate = int(ln[:-len("% of entries changed")])
        body = block[:-1]
        block = []
        loc = None
        if body and body[0].endswith(":") and not body[0].startswith(tuple(k.ljust(12) for k in SUMMARY_KEYS)):
            loc = body[0][:-1]
            body = body[1:]
        rows = {}
        for row in body:
            key = row[:12].rstrip(" ")
            cells = row[12:]
            if key not in SUMMARY_KEYS or key in rows or len(cells) != 7 * ncols:
                return None, "summary row %r (expected a key and %d cells of 7 characters)" % (row, ncols)
            vals = []
            for i in range(ncols):
                c = cells[7 * i:7 * i + 7]
                if c.strip() == "":
                    vals.append(0)
                elif c.startswith(" ") and c.strip().isdigit() and c == c.strip().rjust(7):
                    vals.append(int(c))
                else:
                    return None, "summary cell %r in row %r" % (c, row)
            rows[key] = vals
        if loc in out:
            return None, "locale %r printed twice" % (loc,)
        out[loc] = (rows, rate)
    if block:
        return None, "trailing lines %r" % (block,)
    return out, None


def oracle_summaries_text(case, results):
    """serializeSummaries(): per locale of the list's summary one block; every printed number is the (already
    checked) counter of that observer, columns = project observers (+ the list with more than one); the
    percentage is changed*100 // (changed+unchanged+report+missing) of the last column"""
    nobs = len(case["observers"])
    for q, r in enumerate(results):
        own = r["list"]["summary"]
        locs = [loc for loc, _ in own]
        mixed = any(l is None for l in locs) and any(l is not None for l in locs)
        st = r["summaries_text"]
        if mixed or (locs and nobs == 0):
            _tick("text.summaries.excluded_point." + ("raises" if "exc" in st else "returns"))
            continue        # excluded points (TypeError from sorted / IndexError from summaries[-1]); contract probes
        if "exc" in st:
            return "quiet=%d: serializeSummaries() raised %s" % (q, st["exc"])
        cols = [dict((loc, cs) for loc, cs in o["summary"]) for o in r["obs"]]
        if nobs > 1:
            cols.append(dict((loc, cs) for loc, cs in own))
        if any(v >= 10 ** 6 for c in cols for cs in c.values() for v in cs):
            continue        # wider cells; fixed-width reading does not apply
        got, err = parse_summaries(st["text"], len(cols))
        if err:
            return "quiet=%d: serializeSummaries(): %s" % (q, err)
        want = {}
        for loc in locs:
            rows = {}
            for k in SUMMARY_KEYS:
                vals = [c.get(loc, [0] * 11)[STATKEYS.index(k)] for c in cols]
                if any(vals):
                    rows[k] = vals
            last = cols[-1].get(loc, [0] * 11)
            ch, un, rep, mi = (last[STATKEYS.index(k)] for k in ("changed", "unchanged", "report", "missing"))
            total = ch + un + rep + mi
            want[loc or None] = (rows, ch * 100 // total if total else 0)
        if got != want:
            return "quiet=%d: serializeSummaries() prints %r, the counters are %r" % (q, got, want)
        _tick("text.summaries.judged")
        if len(want) >= 2 and len(cols) >= 2:
            _tick("text.summaries.judged_2+locales_2+columns")
    return None


def oracle_history(case, acts, results):
    """results[q] = impl_obs(case, q) for q in 0..4.  Returns None or a message."""
    for q, r in enumerate(results):
        if "rets" not in r:
            return "quiet=%d: the run raised %s" % (q, r["canon"])
    nobs = len(case["observers"])
    zero_err_stats = any(ev[0] == "s" and any(k == 0 and v == 0 for k, v in ev[2]) for ev in case["events"])
    err_stats = any(ev[0] == "s" and any(k == 0 for k, v in ev[2]) for ev in case["events"])
    for j in [None] + list(range(nobs)):
        who = "ObserverList" if j is None else "observer %d" % j
        exp = expected_observer(case, acts, j)
        for q, r in enumerate(results):
            got = r["list"] if j is None else r["obs"][j]
            if j is None and r["rets"] != exp["rets"]:
                return "quiet=%d: %s returned %r, expected %r" % (q, who, r["rets"], exp["rets"])
            if counts_of(got) != exp["counts"]:
                return "quiet=%d: %s summary %r, expected from the history %r" % (q, who, counts_of(got), exp["counts"])
            if got["error"] != exp["error"]:
                return "quiet=%d: %s error flag %r, expected %r" % (q, who, got["error"], exp["error"])
            # details: every stored list sits at the path it was raised for; at quiet 0 nothing is hidden
            stored = {}
            for p, items in got["flat"]:
                key = "/".join(p)
                if key in stored:
                    return "quiet=%d: %s stores path %r twice" % (q, who, key)
                stored[key] = items
            if case["prefix_free"]:
                shown = {}
                for keys, items in json_leaves(got["json"]):
                    key = "/".join(keys)
                    if key in shown:
                        return "quiet=%d: %s toJSON shows %r twice" % (q, who, key)
                    shown[key] = [show_detail_py(x) for x in items]
                if shown != stored:
                    return "quiet=%d: %s toJSON shows %r but the tree stores %r" % (q, who, shown, stored)
            for key, items in stored.items():
                if not is_sublist(items, exp["details"].get(key, [])):
                    return "quiet=%d: %s details of %r are %r, raised for that file: %r" % (
                        q, who, key, items, exp["details"].get(key, []))
            if q == 0 and {k: v for k, v in stored.items() if v} != exp["details"]:
                return "quiet=0: %s details %r, expected everything raised: %r" % (who, stored, exp["details"])
            if q > 0:
                prev = results[q - 1]["list"] if j is None else results[q - 1]["obs"][j]
                pstored = {"/".join(p): items for p, items in prev["flat"]}
                for key, items in stored.items():
                    if not is_sublist(items, pstored.get(key, [])):
                        return "quiet %d->%d: %s details of %r grew: %r vs %r" % (q - 1, q, who, key, pstored.get(key), items)
                if got["summary"] != prev["summary"] or got["error"] != prev["error"]:
                    return "quiet %d->%d: %s summary changed" % (q - 1, q, who)
        if j is None:
            bad = oracle_details_text(case, exp["lines"], results) or oracle_summaries_text(case, results)
            if bad:
                return bad
        if j is None and not zero_err_stats:
            total = sum(v for (loc, k), v in exp["counts"].items() if k == 0)
            want = 1 if (not case["rz"] and total > 0) else 0
            for q, r in enumerate(results):
                if r["exit"] != want:
                    return "quiet=%d: exit status %d, expected %d (errors counted: %d, return_zero=%r)" % (
                        q, r["exit"], want, total, bool(case["rz"]))
                if nobs and not err_stats and (total > 0) != any(sum(cs[0] for _, cs in o["summary"]) > 0 for o in r["obs"]):
                    return "quiet=%d: list counted %d errors but the project observers disagree" % (q, total)
    return None


def show_detail_py(item):
    from impl import observer as I
    return I.show_detail(item)


# ------------------------------------------------------------------ tree level
def tree_cases(ctx):
    rng = ctx.rng("c10", "tree")
    univ = [list(p) for n in (1, 2, 3) for p in itertools.product(["a", "b"], repeat=n)]
    L = 3 if ctx.tier == "quick" else 4
    cases = [list(s) for n in range(L + 1) for s in itertools.product(univ, repeat=n)]
    # the same with plain reads (`tree[path]` without append) mixed in, up to length 2
    for n in (1, 2):
        for seq in itertools.product(univ, repeat=n):
            for flags in itertools.product([True, False], repeat=n):
                if not all(flags):
                    cases.append([[list(p), f] for p, f in zip(seq, flags)])
    exhaustive = len(cases)
    for _ in range(ctx.n(1500, 40000)):
        if rng.random() < 0.6:
            paths = gen_prefix_free(rng, rng.randrange(1, 9))
        else:
            paths = [[rng.choice(["a", "b", "c", ""]) for _ in range(rng.randrange(1, 5))] for _ in range(rng.randrange(1, 7))]
        if not paths:
            continue
        seq = [list(rng.choice(paths)) for _ in range(rng.randrange(1, 14))]
        if rng.random() < 0.3:      # some plain `tree[path]` reads that do not append
            seq = [[p, rng.random() < 0.6] for p in seq]
        cases.append(seq)
    # excluded points of tree_invariant: an empty segment list, segments containing '/'
    probes = [[[]], [["a"], []], [[], ["a"]], [["a", "b"], ["a"], []], [["a/b"], ["a", "b"]], [["a/b", "c"], ["a/b"], ["a"]]]
    return cases, exhaustive, probes


def oracle_tree(ops, canon):
    """independent reference: the tree is a map path -> list of op indices, each path once"""
    if canon.startswith("!"):
        return "tree[path] raised %s" % canon
    flat = canon.split(" flat=")[1]
    got = {}
    for ent in filter(None, flat.split(";")):
        k, v = ent.rsplit("=", 1)
        if k in got:
            return "path stored twice: %s" % k
        got[k] = v
    exp = {}
    for i, op in enumerate(ops):
        parts, app = split_op(op)
        lst = exp.setdefault("/".join("t" + ".".join(str(ord(c)) for c in p) for p in parts), [])
        if app:
            lst.append(str(i))
    exp = {k: ",".join(v) for k, v in exp.items()}
    if got != exp:
        return "tree stores %r, expected %r" % (got, exp)
    paths = [tuple(split_op(op)[0]) for op in ops]
    if all(not (is_prefix(a, b) and a != b) for a in paths for b in paths):
        # prefix-free: toJSON must show everything
        js = canon.split(" json=")[1].split(" content=")[0]
        if js.count("[") != len(exp):
            return "toJSON shows %d lists for %d paths" % (js.count("["), len(exp))
    return None


# ------------------------------------------------------------------ whole command
PROPS_KEYS = ["k1", "k2", "k3", "k4", "k5"]


def gen_project(rng):
    """a small project: reference en/, localizations l10n/<loc>/, one or two TOML configs"""
    locales = rng.sample(LOCALES, rng.randrange(1, 3))
    dirs = ["browser", "browser/sub", "toolkit"]
    files = {}
    expect = {"dups": {}, "missing_files": [], "obsolete_files": []}
    ref_files = []
    for d in dirs:
        for name in ["a.properties", "b.properties"]:
            if rng.random() < 0.7:
                ref_files.append(d + "/" + name)
    if not ref_files:
        ref_files = ["browser/a.properties"]
    for rf in ref_files:
        keys = rng.sample(PROPS_KEYS, rng.randrange(1, 5))
        files["en/" + rf] = "".join("%s = value %s\n" % (k, k) for k in keys)
        for loc in locales:
            r = rng.random()
            if r < 0.2:
                expect["missing_files"].append("%s/%s" % (loc, rf))
                continue
            lkeys = [k for k in keys if rng.random() < 0.7] + [k for k in ["o1", "o2"] if rng.random() < 0.3]
            dup = [k for k in lkeys if rng.random() < 0.25]
            text = "".join("%s = wert %s\n" % (k, k) for k in lkeys + dup)
            files["l10n/%s/%s" % (loc, rf)] = text
            if dup:
                expect["dups"]["%s/%s" % (loc, rf)] = sorted(set(dup))
    for loc in locales:
        if rng.random() < 0.3:
            files["l10n/%s/browser/gone.properties" % loc] = "x = y\n"
            expect["obsolete_files"].append("%s/browser/gone.properties" % loc)
    two = rng.random() < 0.3
    toml = 'basepath = "."\nlocales = [%s]\n[[paths]]\n    reference = "en/%s**"\n    l10n = "{l10n_base}/{locale}/%s**"\n'
    locs = ", ".join('"%s"' % l for l in locales)
    if two:
        files["one.toml"] = toml % (locs, "browser/", "browser/")
        files["two.toml"] = toml % (locs, "toolkit/", "toolkit/")
        configs = ["one.toml", "two.toml"]
    else:
        files["l10n.toml"] = toml % (locs, "", "")
        configs = ["l10n.toml"]
    return {"files": files, "configs": configs, "locales": locales if rng.random() < 0.5 else [], "expect": expect,
            "all_locales": locales}


def oracle_command(spec, runs):
    """runs[(q, rz)] = impl_command result"""
    exp = spec["expect"]
    base = None
    prev_leaves = None
    for q in range(5):
        for rz in (0, 1):
            r = runs.get((q, rz))
            if r is None:
                continue
            if "exc" in r:
                return "quiet=%d return_zero=%d: command raised %s: %s" % (q, rz, r["exc"], r.get("msg"))
            r = r["r"]
            js = r["json"]
            total = sum(c.get("errors", 0) for o in js for c in o["summary"].values())
            want = 1 if (not rz and total > 0) else 0
            if r["rc"] != want:
                return "quiet=%d return_zero=%d: exit status %r, errors in the JSON summaries: %d" % (q, rz, r["rc"], total)
            errs = {}
            for o in js:
                for loc, c in o["summary"].items():
                    errs[loc] = errs.get(loc, 0) + c.get("errors", 0)
            want_errs = {}
            for path, dups in exp["dups"].items():
                loc = path.split("/")[0]
                want_errs[loc] = want_errs.get(loc, 0) + len(dups)
            if {k: v for k, v in errs.items() if v} != want_errs:
                return "quiet=%d: errors per locale %r, duplicated keys written: %r" % (q, errs, want_errs)
            summ = [o["summary"] for o in js]
            if base is None:
                base = summ
            elif summ != base:
                return "quiet=%d return_zero=%d: summaries differ from quiet=0: %r vs %r" % (q, rz, summ, base)
        r0 = runs.get((q, 0))
        if r0 is None or "r" not in r0:
            continue
        leaves = {}
        for o in r0["r"]["json"]:
            for keys, items in json_leaves(o["details"]):
                leaves.setdefault("/".join(keys), []).extend(items)
        if q == 0:
            for path, items in leaves.items():
                got = sorted(x["error"].split(" ")[0] for x in items if "error" in x)
                if got != exp["dups"].get(path, []):
                    return "quiet=0: errors shown for %s: %r, duplicated keys written there: %r" % (path, got, exp["dups"].get(path, []))
            for path in exp["dups"]:
                if path not in leaves:
                    return "quiet=0: no details for %s which has duplicated keys" % path
            mf = sorted(p for p, items in leaves.items() if any("missingFile" in x for x in items))
            of = sorted(p for p, items in leaves.items() if any("obsoleteFile" in x for x in items))
            if mf != sorted(exp["missing_files"]) or of != sorted(exp["obsolete_files"]):
                return "quiet=0: missing files %r (expected %r), obsolete files %r (expected %r)" % (
                    mf, sorted(exp["missing_files"]), of, sorted(exp["obsolete_files"]))
        if prev_leaves is not None:
            for path, items in leaves.items():
                if not is_sublist(items, prev_leaves.get(path, [])):
                    return "quiet %d->%d: details of %s grew" % (q - 1, q, path)
        prev_leaves = leaves
    return None


# ------------------------------------------------------------------ run
def finding_of(msg, case):
    return None


def run(ctx):
    from impl import observer as I
    out = Outcome()
    out.rule = ("tree: every sequence of <=3 (quick) / <=4 (thorough) tree[path] calls over the 14 paths of depth <=3 on {a,b}, plus random "
                "sequences over prefix-free and arbitrary path sets; obs: every history of <=2 / <=3 events over 21 events x 3 files x 4 "
                "observer configurations, plus random histories (<=30 events, <=8 files with shared directory prefixes, File keys with/without "
                "module, 0-3 project observers with hash-table or real ProjectConfig filters), each at quiet 0..4; command: generated project "
                "trees through CompareLocales().handle at quiet 0..4 x return_zero. non-trivial = at least two stored paths under a shared "
                "compressed prefix; distinct = distinct canonical results among those")
    # ---------------- tree
    cases, exhaustive, probes = tree_cases(ctx)
    out.count("tree.cases", len(cases))
    out.count("tree.exhaustive", exhaustive)
    lines = [wire_tree(ops) for ops in cases + probes]
    model = C.run_driver_parallel(lines) if ctx.model_ok else [None] * len(lines)
    for idx, (ops, mo) in enumerate(zip(cases + probes, model)):
        canon = I.impl_tree(ops)
        out.evaluations += 1
        probe = idx >= len(cases)
        bad = None if probe else oracle_tree(ops, canon)
        if probe:
            out.count("tree.probe." + ("raises" if canon.startswith("!") else "ok"))
        if bad:
            out.violations.append({"what": "Tree: " + bad, "input": {"ops": ops}, "op": "tree", "finding": finding_of(bad, ops)})
        elif mo is not None and mo != canon:
            out.disagreements.append({"op": "tree", "ops": ops, "impl": canon, "model": mo})
        if not probe and canon.count("(") >= 3 and ">(" in canon:
            out.nontrivial.add(canon)
        if len(out.samples) < 2 and len(ops) >= 4 and canon.count("(") >= 4:
            out.samples.append({"op": "tree", "ops": ops, "result": canon})
    # ---------------- observer histories
    rng = ctx.rng("c10", "obs")
    hist = exhaustive_histories(ctx)
    out.count("obs.exhaustive", len(hist))
    for _ in range(ctx.n(1200, 30000)):
        hist.append(gen_history(rng, 30 if rng.random() < 0.3 else 10, prefix_free=True))
    informational = []
    for _ in range(ctx.n(150, 3000)):
        informational.append(gen_history(rng, 12, prefix_free=False))
    # excluded point of exit_iff_errors: an `errors` entry with value 0
    zero = {"files": [("de/a", None, "de")], "observers": [None], "events": [["s", 0, [[0, 0]]]], "rz": 0, "prefix_free": True}
    informational.append(zero)
    # excluded points of the text theorems: non-textual data of a displayed error (serialize_details_total_iff),
    # no project observer but counted stats, a None locale next to a str locale (summaries_total_iff)
    text_probes = {
        "details_error_tuple_data": {"files": [("de/a", None, "de")], "observers": [None],
                                     "events": [["n", "e", 0, ["k", None]]], "rz": 0, "prefix_free": True},
        "summaries_no_observers_stats": {"files": [("de/a", None, "de")], "observers": [],
                                         "events": [["s", 0, [[2, 1]]]], "rz": 0, "prefix_free": True},
        "summaries_none_and_str_locale": {"files": [("a", None, None), ("de/b", None, "de")], "observers": [None],
                                          "events": [["n", "e", 0, "m"], ["n", "e", 1, "m"]], "rz": 0, "prefix_free": True},
    }
    informational += list(text_probes.values())
    allh = hist + informational
    out.count("obs.cases", len(allh))
    lines = []
    tabs = []
    for case in allh:
        tables = I.filter_tables(case)
        tabs.append(tables)
        for q in range(5):
            lines.append(wire_obs(case, tables, q))
    model = C.run_driver_parallel(lines) if ctx.model_ok else [None] * len(lines)
    for hi, (case, tables) in enumerate(zip(allh, tabs)):
        results = [I.impl_obs(case, q) for q in range(5)]
        out.evaluations += 5
        # filter value of every observer on every event
        acts = []
        for ev in case["events"]:
            row = []
            for tbl in tables:
                if tbl is None:
                    row.append("error")
                    continue
                if ev[0] == "n":
                    key = (ev[2], None) if ev[1] in FILE_CATS else (ev[2], I.mk_data(ev[3]))
                else:
                    key = (ev[1], "")
                row.append(dict(((fi, d), a) for fi, d, a in tbl)[key])
            acts.append(row)
        bad = oracle_history(case, acts, results)
        if case is zero:
            out.contracts["errors_zero_stats_sets_flag"] = results[0].get("exit")
            bad = None
        for name, pc in text_probes.items():
            if case is pc:
                which = "details_text" if name.startswith("details") else "summaries_text"
                out.contracts["text_probe." + name] = results[0].get(which, {}).get("exc", "returns")
        if bad:
            out.violations.append({"what": "Observer: " + bad, "op": "obs", "finding": finding_of(bad, case),
                                   "input": {k: case[k] for k in ("files", "observers", "events", "rz", "prefix_free")}})
            out.count("obs.violations")
            continue
        for q in range(5):
            mo = model[hi * 5 + q]
            canon = results[q]["canon"]
            if mo is not None and mo != canon:
                out.disagreements.append({"op": "obs", "quiet": q, "case": case, "impl": canon, "model": mo})
                break
        c0 = results[0]["canon"]
        if ">{" in c0 and c0.count("[") >= 3:
            out.nontrivial.add(c0)
        out.count("obs.observers=%d" % len(case["observers"]))
        if len(out.samples) < 5 and len(case["events"]) >= 6 and len(case["observers"]) >= 2 and ">{" in c0:
            out.samples.append({"op": "obs", "case": case, "quiet0": c0[:1500]})
    for k, v in sorted(TEXT_STATS.items()):
        out.count("obs." + k, v)
    TEXT_STATS.clear()
    # ---------------- whole command
    rngc = ctx.rng("c10", "cmd")
    nproj = ctx.n(12, 150)
    specs = [gen_project(rngc) for _ in range(nproj)]
    tasks, keys = [], []
    base = os.path.join(SCRATCH, "cmd-%d" % os.getpid())
    for pi, spec in enumerate(specs):
        for q in range(5):
            for rz in (0, 1):
                if rz == 1 and q not in (0, 3):
                    continue
                keys.append((pi, q, rz))
                tasks.append([os.path.join(base, "p%d-%d-%d" % (pi, q, rz)), spec, q, rz])
    res = pool.pmap("impl.observer", "impl_command", tasks, timeout=20.0, batch=4)
    runs = {}
    for (pi, q, rz), r in zip(keys, res):
        runs.setdefault(pi, {})[(q, rz)] = r
    import shutil
    shutil.rmtree(base, ignore_errors=True)
    for pi, spec in enumerate(specs):
        out.evaluations += len(runs[pi])
        bad = oracle_command(spec, runs[pi])
        out.count("cmd.projects")
        if bad:
            out.violations.append({"what": "CompareLocales: " + bad, "op": "cmd", "finding": finding_of(bad, spec),
                                   "input": {"files": spec["files"], "configs": spec["configs"], "locales": spec["locales"],
                                             "expect": spec["expect"]}})
        else:
            r0 = runs[pi].get((0, 0), {}).get("r")
            if r0 and spec["expect"]["dups"]:
                out.nontrivial.add(json.dumps(r0["json"], sort_keys=True))
                out.count("cmd.with_errors")
            if r0 and len(out.samples) < 7 and spec["expect"]["dups"] and len(spec["configs"]) == 2:
                out.samples.append({"op": "cmd", "configs": spec["configs"], "rc": r0["rc"], "json": r0["json"]})
    return out


def classify(v):
    return v.get("finding")


def replay(payload):
    from impl import observer as I
    res = []
    for v in payload.get("violations", []):
        i = v["input"]
        if v.get("op") == "tree":
            canon = I.impl_tree(i["ops"])
            res.append({"input": i, "result": canon, "oracle": oracle_tree(i["ops"], canon)})
        elif v.get("op") == "obs":
            case = dict(i)
            tables = I.filter_tables(case)
            results = [I.impl_obs(case, q) for q in range(5)]
            acts = []
            for ev in case["events"]:
                row = []
                for tbl in tables:
                    if tbl is None:
                        row.append("error")
                        continue
                    if ev[0] == "n":
                        key = (ev[2], None) if ev[1] in FILE_CATS else (ev[2], I.mk_data(ev[3]))
                    else:
                        key = (ev[1], "")
                    row.append(dict(((fi, d), a) for fi, d, a in tbl)[key])
                acts.append(row)
            res.append({"input": i, "oracle": oracle_history(case, acts, results)})
        elif v.get("op") == "cmd":
            spec = dict(i)
            runs = {}
            base = os.path.join(SCRATCH, "replay-%d" % os.getpid())
            for q in range(5):
                for rz in (0, 1):
                    try:
                        runs[(q, rz)] = {"r": I.impl_command(os.path.join(base, "p-%d-%d" % (q, rz)), spec, q, rz)}
                    except Exception as e:   # noqa
                        runs[(q, rz)] = {"exc": type(e).__name__, "msg": str(e)}
            res.append({"input": {"configs": i["configs"]}, "oracle": oracle_command(spec, runs)})
    return {"violates": any(r["oracle"] for r in res), "cases": res}

"""C05 — Comparison and linting always produce a report, whatever the content."""
from lib import common as C
from lib import pool
from lib.runner import Outcome
from gen import records as R

ID = "C05"
LEAN_TARGETS = ["CLModel.Props.C05", "CLModel.Proofs.C05Props"]
M = "CLModel.Props.C05"
THEOREMS = [
    (M, "C05.parse_never_stuck", "for every regex format and every text the parser model terminates with a finite entry list (no hang)"),
    (M, "C05.search_complete", "regex search finds a match whenever one exists at or after the start position (engine lemma)"),
    (M, "C05.mochibake_match", "the generated mochibake regex matches at i iff the character at i is U+FFFD"),
    (M, "C05.ufffd_warned", "every entity text containing U+FFFD yields at least one 'encodings' warning from the base check (generated mochibake regex)"),
    (M, "C05.encoding_results_wellformed", "all results of the base check are warnings with a position inside the text"),
    (M, "C05.merge_no_type_error", "ContentComparer.merge never raises the None-span TypeError when every skip has a span"),
    (M, "C05.merge_type_error_iff", "…and raises it exactly when two or more skips are present and one has no span (Android: finding F5 of C04)"),
    (M, "C05.compare_never_raises_partial", "the composed Except-valued model of ContentComparer.compare (parse, duplicates, AddRemove loop, base / properties checker, positions, observers, merge, updateStats) returns a report for ALL pairs of texts of ini/inc/po/properties, any file, any fresh observers/filters/quiet, with or without merge — unless a key is shared with a Junk of the reference (NoJunkClashT)"),
    (M, "C05.compareTexts_never_raises_partial", "the same for the harness configuration (one unfiltered Observer, a.<ext>, locale de)"),
    (M, "C05.report_wellformed_partial", "every item of toJSON()['details'] of that report is an error/warning whose value is a str of one of the four message shapes with %d-formatted integer positions, or a missing/obsolete key"),
    (M, "C05.ufffd_warned_end_to_end_partial", "for every shared key whose last localized entry contains U+FFFD the finished report has the warning '� in: <key> at line l, column c for <key>' (base and properties checker)"),
    (M, "C05.lint_never_raises", "the composed model of L10nLinter.lint_file returns a result list for ALL texts of ini/inc/po/properties, with or without a reference (no hypothesis)"),
    (M, "C05.fileName_parser", "getParser('a.<ext>') selects the parser class of the format (generated constructor table)"),
    (M, "C05.fileName_checker", "PropertiesChecker.pattern matches a.properties; no special checker pattern matches a.ini / a.inc / a.po (base Checker)"),
    (M, "C05.junk_key_clash_raises", "negation witness for NoJunkClashT: reference 'abc' against '_junk_1_0-3=x' makes the model raise AttributeError, as the code does"),
    (M, "C05.ex_noClash", "NoJunkClashT holds on a text pair with junk + missing + obsolete + U+FFFD (non-vacuity)"),
    ("CLModel.Proofs.C05Props", "Pipe.unescape_eq_propsVal", "the unescape model used by the properties checker (C06) equals the one of C02 on every text, hence is total"),
    ("CLModel.Proofs.C05Props", "Pipe.check_shape", "PropertiesChecker.check never raises and yields the base check results first"),
]
PARTIAL = [
    "one composed Except-valued model (CLModel/Compare/Pipeline.lean: compareFiles / compareTexts / lintText) exists for ini, inc, po and "
    "properties and is tied to the real ContentComparer.compare + toJSON() + merge file and to L10nLinter.lint_file by correspondence; "
    "the end-to-end theorems are proved for these four; dtd (expat), ftl (fluent.syntax), android (minidom) are not in "
    "the composed model: for them 'never raises / report well-formed' is decided by the execution oracle under the watchdog",
    "compare_never_raises / report_wellformed / ufffd_warned_end_to_end carry the hypothesis NoJunkClashT (no shared key belongs to a Junk "
    "of the reference): without it the statement is false for the code (Junk has no `equals`: AttributeError, finding "
    "F8-junk-key-clash-raise; negation witness C05.junk_key_clash_raises, probed on the real code by the directed family 'junk-key-clash')",
    "the end-to-end theorems cover ini, inc, po and properties; for properties the missing piece of C06 (totality of its unescape model) "
    "is proved here (Pipe.unescape_eq_propsVal)",
    "decoding (bytes -> text, errors='replace', universal newlines) is outside the model: the model texts are read off Parser.readFile",
]
TRUSTED = [
    "codecs / open(errors='replace') replace undecodable bytes (CPython); expat, minidom, fluent.syntax are external",
    "subprocess watchdog observes hangs (deadline, retried with 10x)",
]
ASSUMPTIONS = []
LEVEL_TEXT = ("Lean 4 theorems about ONE composed Except-valued model of compare(+merge staging)+toJSON and of lint for ini, inc, po, properties: never raises "
              "on any pair of texts (outside the junk-key clash, a recorded finding), report items well formed, U+FFFD warned end to end; the "
              "model is tied to the real code by differential correspondence of the whole report; all seven file types "
              "additionally run under an execution oracle over structured, mutated and arbitrary byte pairs with a watchdog")
LEVEL_NOTE = "trusted: Lean kernel, regex model, CPython codecs and the external XML/Fluent parsers; the end-to-end claim is sampled, not proved"
TECHNIQUE = "Lean 4 proof over one composed Except-valued pipeline model + differential correspondence + watchdog-supervised execution oracle on arbitrary byte pairs"

FORMATS = ["properties", "dtd", "ini", "inc", "ftl", "po", "android"]
PIPE_FORMATS = ("ini", "inc", "po", "properties")      # formats of the composed model (CLModel/Compare/Pipeline.lean)
BAD_BYTES = [b"\xff", b"\xfe\xff", b"\xc3", b"\xe2\x82", b"\x00", b"\xef\xbf\xbd", b"\xed\xa0\x80", b"\x80", b"\xf0\x9f"]


RISKY = [b"%0$S", b"%00$S", b"%1$", b"%.", b"%*S", b"%", b"%%", b"%1$S%1$d", b"%10$S", b"&#x;", b"&#0;", b"&;", b"&", b"<!--", b"-->", b"]]>",
         b"<![CDATA[", b"<", b">", b"{ -", b"{ $", b"{", b"}", b"->", b"*[", b"\\u", b"\\ud800", b"\\u0000", b"\\", b"@string/", b"\\'", b"'",
         b'"', b'""', b"#1", b"#0", b";", b"\n", b"\n\n", b"=", b" = ", b"[", b"]", b"msgid", b"msgstr", b"#define", b"<!ENTITY", b"0", b"9", b"$"]


def byte_mutate(b, rng, n):
    b = bytearray(b)
    for _ in range(n):
        r = rng.random()
        p = rng.randrange(len(b) + 1)
        if r < 0.25:
            tok = rng.choice(RISKY)
            if rng.random() < 0.5 and b:
                q = min(len(b), p + rng.randrange(1, 4))
                b[p:q] = tok          # replace a few bytes by a risky token
            else:
                b[p:p] = tok
            continue
        r = (r - 0.25) / 0.75
        if r < 0.3 and b:
            del b[p % len(b)]
        elif r < 0.55:
            b[p:p] = rng.choice(BAD_BYTES)
        elif r < 0.75:
            b[p:p] = bytes([rng.choice(b'"\'<>&=#\\\n %{}[];:-!@$')])
        elif r < 0.85 and b:
            q = rng.randrange(len(b))
            a, c = min(p, q), max(p, q)
            b[a:a] = b[a:c][:40]
        elif r < 0.93 and b:
            q = rng.randrange(len(b))
            a, c = min(p, q), max(p, q)
            del b[a:c]
        else:
            b[p:p] = bytes(rng.randrange(256) for _ in range(rng.randrange(1, 6)))
    return bytes(b)


def gen_cases(ctx):
    rng = ctx.rng("c05")
    cases = []
    per = ctx.n(1200, 12000)
    for fmt in FORMATS:
        for i in range(per):
            recs, kinds = R.gen_reference(fmt, rng)
            ref = R.print_file(fmt, recs).encode("utf-8")
            l10n, _ = R.derive_l10n(fmt, recs, kinds, rng)
            l10n = l10n.encode("utf-8")
            r = rng.random()
            tag = "structured"
            if r < 0.25:
                pass
            elif r < 0.6:
                l10n = byte_mutate(l10n, rng, rng.randrange(1, 4))
                tag = "l10n-mutated"
            elif r < 0.75:
                ref = byte_mutate(ref, rng, rng.randrange(1, 3))
                l10n = byte_mutate(l10n, rng, rng.randrange(0, 3))
                tag = "both-mutated"
            elif r < 0.85:
                l10n = l10n[:rng.randrange(len(l10n) + 1)]
                tag = "truncated"
            elif r < 0.93:
                l10n = bytes(rng.randrange(256) for _ in range(rng.randrange(0, 60)))
                tag = "arbitrary-l10n"
            else:
                ref = bytes(rng.randrange(256) for _ in range(rng.randrange(0, 60)))
                l10n = bytes(rng.randrange(256) for _ in range(rng.randrange(0, 60)))
                tag = "arbitrary-both"
            # replacement characters inside values of shared strings
            if tag == "structured" and rng.random() < 0.6:
                # replacement characters (or bytes that decode to one) inside the values of some strings
                words = [w.encode("utf-8") for w in R.WORDS] + [b"L10N", b"und", b"von", b"Text", b"fett", b"siehe", b"einfach"]
                hit = [w for w in words if w in l10n]
                for w in rng.sample(hit, min(len(hit), rng.randrange(1, 3))):
                    rep = w[:1] + (b"\xef\xbf\xbd" if rng.random() < 0.5 else b"\xff") + w[1:]
                    l10n = l10n.replace(w, rep, 1 if rng.random() < 0.5 else 5)
                tag = "ufffd"
            cases.append({"fmt": fmt, "ref": ref.decode("latin-1"), "l10n": l10n.decode("latin-1"),
                          "merge": rng.random() < 0.5, "tag": tag})
    # directed: names at the edges of what the parsers' own grammars accept, empty and multi-line values
    EXOTIC = ["Ⰰ", "a·b", "à", "ͿX", "_‿x", "豈", "ﷰ", "a.b-c", ":x", "x̀", "、"]
    for i in range(ctx.n(60, 1500)):
        n = rng.randrange(1, 4)
        keys = rng.sample(EXOTIC, n)
        vals = [rng.choice(["", "v", "a\nb", "%", "&amp;", "<b>x</b>"]) for _ in keys]
        def dtd(ks, vs):
            out = []
            for k, v in zip(ks, vs):
                if rng.random() < 0.5:
                    out.append("<!-- c -->\n")
                sep = rng.choice([" ", "\n", "  "])
                out.append('<!ENTITY%s%s%s"%s">\n' % (sep, k, sep, v))
            return "".join(out)
        ref = dtd(keys, [rng.choice(["r", "10em", "see &x;"]) for _ in keys])
        l10n = dtd(keys, vals)
        cases.append({"fmt": "dtd", "ref": ref.encode("utf-8").decode("latin-1"), "l10n": l10n.encode("utf-8").decode("latin-1"),
                      "merge": rng.random() < 0.5, "tag": "dtd-exotic-names"})
        props = "".join("%s = %s\n" % (k, v) for k, v in zip(keys, vals))
        cases.append({"fmt": "properties", "ref": props.encode("utf-8").decode("latin-1"),
                      "l10n": props.replace("= v", "= %").encode("utf-8").decode("latin-1"),
                      "merge": rng.random() < 0.5, "tag": "props-exotic-names"})
    # ---- directed families for the composed pipeline model (ini, inc, po, properties)
    def lat(t):
        return t.encode("utf-8").decode("latin-1")

    def add(fmt, ref, l10n, tag, merge=None):
        cases.append({"fmt": fmt, "ref": lat(ref), "l10n": lat(l10n), "merge": (rng.random() < 0.5) if merge is None else merge, "tag": tag})

    # (i) the key of a localized entity equals the key of a reference Junk (and the other way round): Junk has no `equals`
    for i in range(ctx.n(24, 200)):
        fmt = rng.choice(["ini", "properties", "ini", "properties", "inc", "po"])   # inc keys are \\w+, po keys tuples: no clash possible
        junk = rng.choice(["??", "abc", "? ?", "%%"])
        pre_n = rng.randrange(0, 3)
        if fmt == "ini":
            head = "[Strings]\n" + "".join("p%d=v\n" % j for j in range(pre_n))
            ent = lambda k, v: "%s=%s\n" % (k, v)
        elif fmt == "inc":
            head = "".join("#define p%d v\n" % j for j in range(pre_n))
            ent = lambda k, v: "#define %s %s\n" % (k, v)
        elif fmt == "properties":
            head = "".join("p%d = v\n" % j for j in range(pre_n))
            ent = lambda k, v: "%s = %s\n" % (k, v)
        else:
            head = "".join('msgid "p%d"\nmsgstr "v"\n\n' % j for j in range(pre_n))
            ent = lambda k, v: 'msgid "%s"\nmsgstr "%s"\n\n' % (k, v)
        side = rng.random() < 0.5
        jtext = junk + "\n"
        a, b = len(head), len(head) + len(jtext)
        if fmt == "po":
            b = a + len(junk) + 1
        with_junk = head + jtext + ent("z", "v")
        # the junk id: first Junk of the reference is 1; the first Junk of the localization follows the reference's junk
        if side:
            key = "_junk_1_%d-%d" % (a, b)
            other = head + ent(key, rng.choice(["v", "%S", "w�"])) + ent("z", "v")
            add(fmt, with_junk, other, "junk-key-clash")
        else:
            key = "_junk_1_%d-%d" % (a, b)
            other = head + ent(key, rng.choice(["v", "%S %S", "%1$S"])) + ent("z", "v")
            add(fmt, other, with_junk, "junk-key-clash-l10n")
    # (ii) gettext keys are tuples: `repr` of msgid / msgctxt in duplicate and check messages
    ODD = ["it's", 'say \\"hi\\"', "tab\\there", "back\\\\slash", "é", "­", "​", "\U0001F600", "\U000e0001", "x\u0085y", "a'b\\\"c", "\x7f", " "]
    for i in range(ctx.n(60, 600)):
        ids = [rng.choice(ODD) + str(rng.randrange(3)) for _ in range(rng.randrange(1, 4))]
        def po(ids, bad):
            out = []
            for k in ids:
                if rng.random() < 0.3:
                    out.append('msgctxt "%s"\n' % rng.choice(ODD))
                v = rng.choice(["v", "w�", ""]) if bad else "v"
                out.append('msgid "%s"\nmsgstr "%s"\n\n' % (k, v))
            return "".join(out)
        ref = po(ids + ([ids[0]] if rng.random() < 0.3 else []), False)
        l10n = po(ids + ([ids[-1]] if rng.random() < 0.4 else []), True)
        add("po", ref, l10n, "po-repr")
    # (iii) properties: printf / plural / escape findings (errors become skips when merging), duplicates, key bindings
    PV = [("%S and %S", ["%S und %S", "%d und", "%S", "%1$S %S", "100%"]), ("%1$S of %2$S", ["%2$S von %1$S", "%3$S", "%1$S"]),
          ("#1 item;#1 items", ["#1 Ding;#1 Dinge", "#2 Ding", "ein Ding", "#1;#1;#1"]), ("plain", ["schlicht \\q", "a\\u00e9b", "x\\\n  y", "w�"]),
          ("50%", ["50 %", "%"]), ("", ["", " "]), ("a<b>c</b>d e", ["x<i>y</i>z", "a<b>c</b>d e"]), ("one<br>two", ["eins<br>zwei"])]
    for i in range(ctx.n(80, 800)):
        n = rng.randrange(1, 5)
        refl, l10l = [], []
        for j in range(n):
            rv, lvs = rng.choice(PV)
            k = rng.choice(["s%d" % j, "accessKey%d" % j, "cmd.key%d" % j, "pluralRule", "t%d.label" % j])
            c = rng.choice(["", "", "# LOCALIZATION NOTE: see Localization_and_Plurals\n", "# a comment\n"])
            refl.append("%s%s = %s\n" % (c, k, rv))
            r = rng.random()
            if r < 0.75:
                l10l.append("%s = %s\n" % (k, rng.choice(lvs + [rv])))
            if r > 0.9:
                l10l.append("%s = %s\n" % (k, rng.choice(lvs)))
            if rng.random() < 0.1:
                l10l.append("junk line\n")
        if rng.random() < 0.2:
            l10l.append("extra%d = x\n" % i)
        add("properties", "".join(refl), "".join(l10l), "props-checks")
    # (iv) ini / inc: duplicates, key bindings, junk, U+FFFD in values and in attached comments
    for i in range(ctx.n(60, 600)):
        fmt = rng.choice(["ini", "inc"])
        ks = [rng.choice(["a", "b", "openKey", "cmd.key", "c"]) + rng.choice(["", "1"]) for _ in range(rng.randrange(1, 5))]
        def body(ks, bad):
            out = ["[Strings]\n"] if fmt == "ini" else []
            for k in ks:
                if bad and rng.random() < 0.15:
                    out.append(rng.choice(["??\n", "= x\n", "\n\n", "#bad\n"]))
                if rng.random() < 0.25:
                    out.append(("; c%s\n" if fmt == "ini" else "# c%s\n") % ("�" if bad and rng.random() < 0.5 else ""))
                v = rng.choice(["v", "two words", "w�x", "<b>x</b> y", ""]) if bad else rng.choice(
                    ["v", "two words", "a<b>c</b>d e", "<p>x</p>y", "one<br/>two", "1<2>3 4"])
                out.append(("%s=%s\n" if fmt == "ini" else "#define %s %s\n") % (k, v))
            return "".join(out)
        l10k = [k for k in ks if rng.random() < 0.8] + ([rng.choice(ks)] if rng.random() < 0.3 else []) + (["zz"] if rng.random() < 0.3 else [])
        rng.shuffle(l10k)
        add(fmt, body(ks, False), body(l10k, True), "%s-directed" % fmt)
    return cases


def finding_of(case, stage, info):
    if case["fmt"] == "android" and stage == "compare" and info.get("exc") == "TypeError" and any("merge" in w for w in info.get("where", [])):
        return "F5-android-no-spans-raise"
    if case["fmt"] == "dtd" and info.get("exc") == "IndexError" and any("dtd.py" in w for w in info.get("where", [])):
        return "F9-dtd-empty-value-index"
    # root cause: an object of class Junk is used where the loop expects an Entity (it has no equals / value_position /
    # pre_comment): only possible when a key is shared between a Junk of one file and an entry of the other
    if stage == "compare" and info.get("exc") == "AttributeError" and "'Junk' object has no attribute" in (info.get("msg") or ""):
        return "F8-junk-key-clash-raise"
    return None


def oracle(case, r):
    out = []
    if r.get("exc") == "Hang":
        return [("comparison/lint does not terminate", None)]
    if "exc" in r:
        return [("adapter raised %s: %s %s" % (r["exc"], r.get("msg"), r.get("where")), None)]
    v = r["r"]
    for stage, st in v["stages"].items():
        if st != "ok":
            out.append(("%s raised %s: %s at %s" % (stage, st["exc"], st["msg"], st["where"]), finding_of(case, stage, st)))
    for s in v["shape"][:3]:
        out.append(("malformed report entry: %s" % s, None))
    for k in v["ufffd_missing"][:3]:
        out.append(("shared localized string %s contains U+FFFD but got no encoding warning" % k, None))
    return out


def run(ctx):
    out = Outcome()
    out.rule = ("per file type: reference and localization from the record generators, then byte-level mutations (delete/insert/duplicate/"
                "splice, invalid UTF-8 sequences, NULs, unbalanced quotes and tags), truncation, arbitrary bytes on one or both sides; "
                "half of the cases with merge staging; non-trivial = the comparison produced at least one detail or lint result; "
                "distinct = distinct (format, localized bytes)")
    cases = gen_cases(ctx)
    res = pool.pmap("impl.robust", "impl_robust", [[c["fmt"], c["ref"], c["l10n"], c["merge"]] for c in cases],
                    timeout=10.0, batch=8)
    for c, r in zip(cases, res):
        out.evaluations += 1
        out.count("%s.%s" % (c["fmt"], c["tag"]))
        bad = oracle(c, r)
        for msg, fid in bad[:3]:
            out.violations.append({"what": "%s: %s" % (c["fmt"], msg), "input": c, "finding": fid})
            out.count("violation." + (fid or "NEW"))
        if "r" in r:
            v = r["r"]
            if v.get("n_details", 0) + v.get("n_lint", 0) > 0:
                out.nontrivial.add((c["fmt"], c["l10n"]))
            if len(out.samples) < 8 and c["tag"] in ("l10n-mutated", "ufffd") and v.get("n_details", 0) > 1 and not bad:
                out.samples.append({"fmt": c["fmt"], "l10n_bytes_latin1": c["l10n"][:300], "summary": v.get("summary"), "lint_results": v.get("n_lint")})
    # ---- correspondence of the composed pipeline model (compare + toJSON + merge outcome, lint with / without reference)
    pcases = [c for c in cases if c["fmt"] in PIPE_FORMATS]
    pres = pool.pmap("impl.pipeline", "impl_pipeline", [[c["fmt"], c["ref"], c["l10n"], c["merge"]] for c in pcases],
                     timeout=10.0, batch=8)
    lines, idx = [], []
    for i, (c, r) in enumerate(zip(pcases, pres)):
        r = r.get("r", r)
        if "ref_text" not in r:
            continue            # the adapter itself failed or hung: the execution oracle above reports it
        lines.append("c05.compare %s %s %s %d" % (c["fmt"], C.enc(r["ref_text"]), C.enc(r["l10n_text"]), 1 if c["merge"] else 0))
        idx.append((i, "compare"))
        lines.append("c05.lint %s %s %s" % (c["fmt"], C.enc(r["ref_text"]), C.enc(r["l10n_text"])))
        idx.append((i, "lint"))
        lines.append("c05.lint %s - %s" % (c["fmt"], C.enc(r["l10n_text"])))
        idx.append((i, "lint_noref"))
    # oracle on the same runs (fresh-process state: Junk.junkid = 0): neither compare nor lint raises or hangs
    for c, r0 in zip(pcases, pres):
        r = r0.get("r", r0)
        if r0.get("exc") == "Hang":
            out.violations.append({"what": "%s: comparison/lint (fresh junk counter) does not terminate" % c["fmt"], "input": c, "finding": None})
            continue
        for stage in ("compare", "lint", "lint_noref"):
            info = r.get(stage + "_exc")
            if info:
                fid = finding_of(c, "compare" if stage == "compare" else stage, info)
                out.violations.append({"what": "%s: %s (fresh junk counter) raised %s: %s at %s" % (
                    c["fmt"], stage, info["exc"], info["msg"], info["where"]), "input": dict(c, fresh=True), "finding": fid})
                out.count("violation." + (fid or "NEW"))
    model = C.run_driver_parallel(lines) if ctx.model_ok else []
    for (i, k), mo in zip(idx, model):
        c, r = pcases[i], pres[i].get("r", pres[i])
        out.evaluations += 1
        im = r[k]
        if im != mo:
            out.disagreements.append({"op": "c05." + k, "fmt": c["fmt"], "tag": c["tag"], "merge": c["merge"],
                                      "ref": r["ref_text"][:400], "l10n": r["l10n_text"][:400], "impl": im[:600], "model": mo[:600]})
            out.count("pipeline.disagree.%s.%s" % (c["fmt"], k))
        elif k == "compare" and ("details[]" not in im):
            out.nontrivial.add(("pipe", c["fmt"], im))
        out.count("pipeline.%s.%s" % (c["fmt"], k))
        if im.startswith("raise"):
            out.count("pipeline.raise.%s" % im.split()[1])
    # correspondence of the base (encoding) check model
    from compare_locales.checks.base import Checker

    class Ent:
        def __init__(self, all):
            self.all = all
            self.key = "k"
    rng = ctx.rng("c05-base")
    texts = []
    for _ in range(ctx.n(3000, 40000)):
        n = rng.randrange(0, 12)
        texts.append("".join(rng.choice(["a", "�", " ", "\n", "é", "\U0001F600", "￼"]) for _ in range(n)))
    lines = ["basecheck " + C.enc(t) for t in texts]
    model = C.run_driver_parallel(lines) if ctx.model_ok else []
    for t, mo in zip(texts, model):
        res = list(Checker(None).check(Ent(t), Ent(t)))
        canon = " ".join("%s%d:%s" % (tp[0], int(pos), cat) for tp, pos, msg, cat in res)
        out.evaluations += 1
        exp = [i for i, ch in enumerate(t) if ch == "�"]
        if [int(pos) for tp, pos, msg, cat in res] != exp or any(tp != "warning" or cat != "encodings" for tp, pos, msg, cat in res):
            out.violations.append({"what": "base check: U+FFFD occurrences %r but results %r" % (exp, canon), "input": {"all": t}, "finding": None})
        elif mo != canon:
            out.disagreements.append({"op": "basecheck", "text": t, "impl": canon, "model": mo})
        if exp:
            out.nontrivial.add(("base", t))
    return out


def classify(v):
    return v.get("finding")


def replay(payload):
    res = []
    for v in payload.get("violations", []):
        c = v["input"]
        if "fmt" not in c:
            continue
        if c.get("fresh"):
            r = pool.pmap("impl.pipeline", "impl_pipeline", [[c["fmt"], c["ref"], c["l10n"], c["merge"]]], timeout=30.0)[0]
            r = r.get("r", r)
            res.append({"input": c, "oracle": ["%s raised %s" % (st, r[st + "_exc"]) for st in ("compare", "lint", "lint_noref") if r.get(st + "_exc")]})
            continue
        r = pool.pmap("impl.robust", "impl_robust", [[c["fmt"], c["ref"], c["l10n"], c["merge"]]], timeout=30.0)[0]
        res.append({"input": c, "oracle": [m for m, _ in oracle(c, r)]})
    return {"violates": any(r["oracle"] for r in res), "cases": res}

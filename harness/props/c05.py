"""C05 — Comparison and linting always produce a report, whatever the content."""
from lib import common as C
from lib import pool
from lib.runner import Outcome
from gen import records as R

ID = "C05"
LEAN_TARGETS = ["CLModel.Props.C05"]
M = "CLModel.Props.C05"
THEOREMS = [
    (M, "C05.parse_never_stuck", "for every regex format and every text the parser model terminates with a finite entry list (no hang)"),
    (M, "C05.search_complete", "regex search finds a match whenever one exists at or after the start position (engine lemma)"),
    (M, "C05.mochibake_match", "the generated mochibake regex matches at i iff the character at i is U+FFFD"),
    (M, "C05.ufffd_warned", "every entity text containing U+FFFD yields at least one 'encodings' warning from the base check (generated mochibake regex)"),
    (M, "C05.encoding_results_wellformed", "all results of the base check are warnings with a position inside the text"),
    (M, "C05.merge_no_type_error", "ContentComparer.merge never raises the None-span TypeError when every skip has a span"),
    (M, "C05.merge_type_error_iff", "…and raises it exactly when two or more skips are present and one has no span (Android: finding F5 of C04)"),
]
PARTIAL = [
    "the full pipeline (decoding, expat, minidom, fluent.syntax, every checker) is not modelled as one Except-valued function yet; "
    "'never raises / report well-formed' for it is decided by executing the real code under a subprocess watchdog (oracle), "
    "the theorems cover termination of the regex parsers, the encoding warning and the only raise site of the merge splice",
]
TRUSTED = [
    "codecs / open(errors='replace') replace undecodable bytes (CPython); expat, minidom, fluent.syntax are external",
    "subprocess watchdog observes hangs (deadline, retried with 10x)",
]
ASSUMPTIONS = []
LEVEL_TEXT = ("Lean 4 theorems for the parts of 'always produces a report' that are logic of this code base (regex parsers terminate on every "
              "text, U+FFFD always yields an encoding warning, the merge splice raises only for span-less entries), and an execution oracle "
              "on the real compare/merge/lint pipeline over structured, mutated and arbitrary byte pairs per file type under a watchdog")
LEVEL_NOTE = "trusted: Lean kernel, regex model, CPython codecs and the external XML/Fluent parsers; the end-to-end claim is sampled, not proved"
TECHNIQUE = "Lean 4 proof of the pure parts + watchdog-supervised execution oracle on arbitrary byte pairs"

FORMATS = ["properties", "dtd", "ini", "inc", "ftl", "po", "android"]
BAD_BYTES = [b"\xff", b"\xfe\xff", b"\xc3", b"\xe2\x82", b"\x00", b"\xef\xbf\xbd", b"\xed\xa0\x80", b"\x80", b"\xf0\x9f"]


RISKY = [b"%0$S", b"%00$S", b"%1$", b"%.", b"%*S", b"%", b"%%", b"%1$S%1$d", b"%10$S", b"&#x;", b"&#0;", b"&;", b"&", b"<!--", b"-->", b"]]>",
         b"<![CDATA[", b"<", b">", b"{ -", b"{ $", b"{", b"}", b"->", b"*[", b"\\u", b"\\ud800", b"\\u0000", b"\\", b"@string/", b"\\'", b"'",
         b'"', b'""', b"#1", b"#0", b";", b"\n", b"\n\n", b"=", b" = ", b"[", b"]", b"msgid", b"msgstr", b"#define", b"<!ENTITY", b"0", b"9", b"$"]


def byte_mutate(b, rng, n):
    b = bytearray(b)
    for _ in range(n):
        r = rng.random()
        p = rng.randrange(len(b) + 1)
        if r < 0.25:
            tok = rng.choice(RISKY)
            if rng.random() < 0.5 and b:
                q = min(len(b), p + rng.randrange(1, 4))
                b[p:q] = tok          # replace a few bytes by a risky token
            else:
                b[p:p] = tok
            continue
        r = (r - 0.25) / 0.75
        if r < 0.3 and b:
            del b[p % len(b)]
        elif r < 0.55:
            b[p:p] = rng.choice(BAD_BYTES)
        elif r < 0.75:
            b[p:p] = bytes([rng.choice(b'"\'<>&=#\\\n %{}[];:-!@$')])
        elif r < 0.85 and b:
            q = rng.randrange(len(b))
            a, c = min(p, q), max(p, q)
            b[a:a] = b[a:c][:40]
        elif r < 0.93 and b:
            q = rng.randrange(len(b))
            a, c = min(p, q), max(p, q)
            del b[a:c]
        else:
            b[p:p] = bytes(rng.randrange(256) for _ in range(rng.randrange(1, 6)))
    return bytes(b)


def gen_cases(ctx):
    rng = ctx.rng("c05")
    cases = []
    per = ctx.n(1200, 12000)
    for fmt in FORMATS:
        for i in range(per):
            recs, kinds = R.gen_reference(fmt, rng)
            ref = R.print_file(fmt, recs).encode("utf-8")
            l10n, _ = R.derive_l10n(fmt, recs, kinds, rng)
            l10n = l10n.encode("utf-8")
            r = rng.random()
            tag = "structured"
            if r < 0.25:
                pass
            elif r < 0.6:
                l10n = byte_mutate(l10n, rng, rng.randrange(1, 4))
                tag = "l10n-mutated"
            elif r < 0.75:
                ref = byte_mutate(ref, rng, rng.randrange(1, 3))
                l10n = byte_mutate(l10n, rng, rng.randrange(0, 3))
                tag = "both-mutated"
            elif r < 0.85:
                l10n = l10n[:rng.randrange(len(l10n) + 1)]
                tag = "truncated"
            elif r < 0.93:
                l10n = bytes(rng.randrange(256) for _ in range(rng.randrange(0, 60)))
                tag = "arbitrary-l10n"
            else:
                ref = bytes(rng.randrange(256) for _ in range(rng.randrange(0, 60)))
                l10n = bytes(rng.randrange(256) for _ in range(rng.randrange(0, 60)))
                tag = "arbitrary-both"
            # replacement characters inside values of shared strings
            if tag == "structured" and rng.random() < 0.6:
                # replacement characters (or bytes that decode to one) inside the values of some strings
                words = [w.encode("utf-8") for w in R.WORDS] + [b"L10N", b"und", b"von", b"Text", b"fett", b"siehe", b"einfach"]
                hit = [w for w in words if w in l10n]
                for w in rng.sample(hit, min(len(hit), rng.randrange(1, 3))):
                    rep = w[:1] + (b"\xef\xbf\xbd" if rng.random() < 0.5 else b"\xff") + w[1:]
                    l10n = l10n.replace(w, rep, 1 if rng.random() < 0.5 else 5)
                tag = "ufffd"
            cases.append({"fmt": fmt, "ref": ref.decode("latin-1"), "l10n": l10n.decode("latin-1"),
                          "merge": rng.random() < 0.5, "tag": tag})
    # directed: names at the edges of what the parsers' own grammars accept, empty and multi-line values
    EXOTIC = ["Ⰰ", "a·b", "à", "ͿX", "_‿x", "豈", "ﷰ", "a.b-c", ":x", "x̀", "、"]
    for i in range(ctx.n(60, 1500)):
        n = rng.randrange(1, 4)
        keys = rng.sample(EXOTIC, n)
        vals = [rng.choice(["", "v", "a\nb", "%", "&amp;", "<b>x</b>"]) for _ in keys]
        def dtd(ks, vs):
            out = []
            for k, v in zip(ks, vs):
                if rng.random() < 0.5:
                    out.append("<!-- c -->\n")
                sep = rng.choice([" ", "\n", "  "])
                out.append('<!ENTITY%s%s%s"%s">\n' % (sep, k, sep, v))
            return "".join(out)
        ref = dtd(keys, [rng.choice(["r", "10em", "see &x;"]) for _ in keys])
        l10n = dtd(keys, vals)
        cases.append({"fmt": "dtd", "ref": ref.encode("utf-8").decode("latin-1"), "l10n": l10n.encode("utf-8").decode("latin-1"),
                      "merge": rng.random() < 0.5, "tag": "dtd-exotic-names"})
        props = "".join("%s = %s\n" % (k, v) for k, v in zip(keys, vals))
        cases.append({"fmt": "properties", "ref": props.encode("utf-8").decode("latin-1"),
                      "l10n": props.replace("= v", "= %").encode("utf-8").decode("latin-1"),
                      "merge": rng.random() < 0.5, "tag": "props-exotic-names"})
    return cases


def finding_of(case, stage, info):
    if case["fmt"] == "android" and stage == "compare" and info.get("exc") == "TypeError" and any("merge" in w for w in info.get("where", [])):
        return "F5-android-no-spans-raise"
    if case["fmt"] == "dtd" and info.get("exc") == "IndexError" and any("dtd.py" in w for w in info.get("where", [])):
        return "F9-dtd-empty-value-index"
    return None


def oracle(case, r):
    out = []
    if r.get("exc") == "Hang":
        return [("comparison/lint does not terminate", None)]
    if "exc" in r:
        return [("adapter raised %s: %s %s" % (r["exc"], r.get("msg"), r.get("where")), None)]
    v = r["r"]
    for stage, st in v["stages"].items():
        if st != "ok":
            out.append(("%s raised %s: %s at %s" % (stage, st["exc"], st["msg"], st["where"]), finding_of(case, stage, st)))
    for s in v["shape"][:3]:
        out.append(("malformed report entry: %s" % s, None))
    for k in v["ufffd_missing"][:3]:
        out.append(("shared localized string %s contains U+FFFD but got no encoding warning" % k, None))
    return out


def run(ctx):
    out = Outcome()
    out.rule = ("per file type: reference and localization from the record generators, then byte-level mutations (delete/insert/duplicate/"
                "splice, invalid UTF-8 sequences, NULs, unbalanced quotes and tags), truncation, arbitrary bytes on one or both sides; "
                "half of the cases with merge staging; non-trivial = the comparison produced at least one detail or lint result; "
                "distinct = distinct (format, localized bytes)")
    cases = gen_cases(ctx)
    res = pool.pmap("impl.robust", "impl_robust", [[c["fmt"], c["ref"], c["l10n"], c["merge"]] for c in cases],
                    timeout=10.0, batch=8)
    for c, r in zip(cases, res):
        out.evaluations += 1
        out.count("%s.%s" % (c["fmt"], c["tag"]))
        bad = oracle(c, r)
        for msg, fid in bad[:3]:
            out.violations.append({"what": "%s: %s" % (c["fmt"], msg), "input": c, "finding": fid})
            out.count("violation." + (fid or "NEW"))
        if "r" in r:
            v = r["r"]
            if v.get("n_details", 0) + v.get("n_lint", 0) > 0:
                out.nontrivial.add((c["fmt"], c["l10n"]))
            if len(out.samples) < 8 and c["tag"] in ("l10n-mutated", "ufffd") and v.get("n_details", 0) > 1 and not bad:
                out.samples.append({"fmt": c["fmt"], "l10n_bytes_latin1": c["l10n"][:300], "summary": v.get("summary"), "lint_results": v.get("n_lint")})
    # correspondence of the base (encoding) check model
    from compare_locales.checks.base import Checker

    class Ent:
        def __init__(self, all):
            self.all = all
            self.key = "k"
    rng = ctx.rng("c05-base")
    texts = []
    for _ in range(ctx.n(3000, 40000)):
        n = rng.randrange(0, 12)
        texts.append("".join(rng.choice(["a", "�", " ", "\n", "é", "\U0001F600", "￼"]) for _ in range(n)))
    lines = ["basecheck " + C.enc(t) for t in texts]
    model = C.run_driver_parallel(lines) if ctx.model_ok else []
    for t, mo in zip(texts, model):
        res = list(Checker(None).check(Ent(t), Ent(t)))
        canon = " ".join("%s%d:%s" % (tp[0], int(pos), cat) for tp, pos, msg, cat in res)
        out.evaluations += 1
        exp = [i for i, ch in enumerate(t) if ch == "�"]
        if [int(pos) for tp, pos, msg, cat in res] != exp or any(tp != "warning" or cat != "encodings" for tp, pos, msg, cat in res):
            out.violations.append({"what": "base check: U+FFFD occurrences %r but results %r" % (exp, canon), "input": {"all": t}, "finding": None})
        elif mo != canon:
            out.disagreements.append({"op": "basecheck", "text": t, "impl": canon, "model": mo})
        if exp:
            out.nontrivial.add(("base", t))
    return out


def classify(v):
    return v.get("finding")


def replay(payload):
    res = []
    for v in payload.get("violations", []):
        c = v["input"]
        if "fmt" not in c:
            continue
        r = pool.pmap("impl.robust", "impl_robust", [[c["fmt"], c["ref"], c["l10n"], c["merge"]]], timeout=30.0)[0]
        res.append({"input": c, "oracle": [m for m, _ in oracle(c, r)]})
    return {"violates": any(r["oracle"] for r in res), "cases": res}

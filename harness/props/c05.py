"""C05 — Comparison and linting always produce a report, whatever the content."""
from lib import common as C
from lib import pool
from lib.runner import Outcome
from gen import records as R

ID = "C05"
LEAN_TARGETS = ["CLModel.Props.C05", "CLModel.Proofs.C05Props", "CLModel.Proofs.C05Steps", "CLModel.Proofs.C05Sess"]
M = "CLModel.Props.C05"
THEOREMS = [
    (M, "C05.parse_never_stuck", "for every regex format and every text the parser model terminates with a finite entry list (no hang)"),
    (M, "C05.search_complete", "regex search finds a match whenever one exists at or after the start position (engine lemma)"),
    (M, "C05.mochibake_match", "the generated mochibake regex matches at i iff the character at i is U+FFFD"),
    (M, "C05.ufffd_warned", "every entity text containing U+FFFD yields at least one 'encodings' warning from the base check (generated mochibake regex)"),
    (M, "C05.encoding_results_wellformed", "all results of the base check are warnings with a position inside the text"),
    (M, "C05.merge_no_type_error", "ContentComparer.merge never raises the None-span TypeError when every skip has a span"),
    (M, "C05.merge_type_error_iff", "…and raises it exactly when two or more skips are present and one has no span (Android: finding F5 of C04)"),
    (M, "C05.checkerOK_fmt", "the checker of every format (base, PropertiesChecker, DTDChecker with ANY expat verdict function) answers for every pair of Entities compare hands to it, with positions the localized entity can resolve"),
    (M, "C05.compare_never_raises_partial", "the composed Except-valued model of ContentComparer.compare (parse, duplicates, AddRemove loop, base / properties / DTD checker, positions, observers, merge, updateStats) returns a report for ALL pairs of texts of ini/inc/po/properties/dtd, any file, any fresh observers/filters/quiet, with or without merge, every expat and html.unescape — unless a key is shared with a Junk of the other file (NoJunkClashT); dtd texts must hold scalar values"),
    (M, "C05.compareTexts_never_raises_partial", "the same for the harness configuration (one unfiltered Observer, a.<ext>, locale de)"),
    (M, "C05.report_wellformed_partial", "every item of toJSON()['details'] of that report is an error/warning whose value is a str of one of the four message shapes with %d-formatted integer positions, or a missing/obsolete key"),
    (M, "C05.base_in_results_fmt", "whatever the checker of a format yields for two Entities contains the results of the base check (PropertiesChecker and DTDChecker yield them first)"),
    (M, "C05.ufffd_warned_end_to_end_partial", "for every shared key whose last localized entry contains U+FFFD the finished report has the warning '� in: <key> at line l, column c for <key>' (base, properties and DTD checker)"),
    (M, "C05.lint_never_raises", "the composed model of L10nLinter.lint_file returns a result list for ALL texts of ini/inc/po/properties/dtd, with or without a reference, every expat (dtd: scalar text)"),
    (M, "C05.fileName_parser", "getParser('a.<ext>') selects the parser class of the format (generated constructor table)"),
    (M, "C05.fileName_checker", "PropertiesChecker.pattern matches a.properties, DTDChecker.pattern a.dtd; no special checker pattern matches a.ini / a.inc / a.po (base Checker)"),
    (M, "C05.junk_key_clash_raises", "negation witness for NoJunkClashT: reference 'abc' against '_junk_1_0-3=x' makes the model raise AttributeError, as the code does"),
    (M, "C05.ex_noClash", "NoJunkClashT holds on a text pair with junk + missing + obsolete + U+FFFD (non-vacuity)"),
    (M, "C05.surrogate_raises", "negation witness for the scalar-text hypothesis: a lone surrogate in a shared DTD value makes value.encode('utf-8') raise inside DTDChecker.check (no file read by readFile has one)"),
    (M, "C05.junk_keys_differ", "two Junk objects of the two files never have the same key: the class-wide counter value is part of the key and the format is injective — a clash needs an ENTITY whose key is literally a junk key"),
    (M, "C05.clashFree_iff", "NoJunkClashT is decidable on the two texts, exactly: clashFree parses both and inspects the last entry of every shared key"),
    (M, "C05.noClash_of_keys", "sufficient on each text alone, independent of expat / html.unescape: no string id begins with '_junk_'"),
    (M, "C05.compare_never_raises", "compare never raises for all texts whose string ids do not begin with '_junk_' (decidable hypothesis instead of NoJunkClashT)"),
    (M, "C05.compare_never_raises_po", "gettext: compare never raises, no hypothesis (keys are tuples, a Junk key is a str)"),
    (M, "C05.decode_no_cr", "Parser.readFile: the decoded text has no carriage return (universal newlines)"),
    (M, "C05.decode_scalar", "Parser.readFile: the decoded text holds Unicode scalar values only (errors='replace' never yields a surrogate)"),
    (M, "C05.no_ufffd_wellformed", "if the decoded text has no U+FFFD the bytes were exactly its UTF-8 encoding: every ill-formed byte string leaves at least one U+FFFD"),
    (M, "C05.invalid_yields_ufffd", "after a well-formed prefix, an ill-formed sequence is decoded to one U+FFFD for its first 1..3 bytes, then decoding goes on: nothing is dropped"),
    (M, "C05.decode_encode", "well-formed UTF-8 is decoded to the text it encodes"),
    (M, "C05.compare_never_raises_bytes_partial", "compare never raises from the BYTES of the two files (any bytes, invalid UTF-8 included; no scalar-text hypothesis left)"),
    (M, "C05.lint_never_raises_bytes", "lint never raises from the bytes: no hypothesis at all"),
    (M, "C05.ufffd_warned_from_bytes_partial", "U+FFFD is warned end to end starting from the bytes of the files"),
    (M, "C05.parsed_never_raises", "the comparison core (after parsing) never raises and reports well-formed details for ANY checker whose check answers, without a junk-key clash, with spans to cut when merging"),
    (M, "C05.parsed_ufffd_warned", "the comparison core warns about every U+FFFD of a shared entity for any checker that yields the base check's results"),
    (M, "C05.compare_ftl_never_raises_partial", "Fluent, from the body fluent.syntax returned (entry kinds, spans, AST per Message/Term) on: compare never raises and every detail is well formed, every locale, with or without merge — unless a key is shared with a Junk"),
    (M, "C05.ftl_noClash_of_keys", "Fluent: no clash when no Message / Term key begins with '_junk_' (identifiers begin with a letter, Term keys with '-')"),
    (M, "C05.ufffd_warned_ftl_partial", "Fluent: U+FFFD in a shared entry is warned in the finished report"),
    (M, "C05.compare_android_never_raises_partial", "Android, from the objects the walk over the minidom tree yields on: compare WITHOUT merge staging never raises and every detail is well formed — unless a key is shared with an XMLJunk"),
    (M, "C05.ufffd_warned_android_partial", "Android: U+FFFD in a shared string is warned in the finished report"),
    (M, "C05.android_noClash_of_keys", "Android: no clash when no name attribute begins with '_junk_'"),
    (M, "C05.android_merge_raises", "negation witness (known finding F5-android-no-spans-raise): with merge staging two AndroidEntities in `skips` make the merge call raise TypeError (their span is (None, None))"),
    (M, "C05.lint_android_never_raises", "Android: lint_file never raises, no hypothesis"),
    (M, "C05.lint_ftl_never_raises_partial", "Fluent: lint_file never raises unless a FluentEntity shares its key with a Junk of the reference (decidable lintJunkClash)"),
    (M, "C05.lint_ftl_parser_raises", "Fluent, when the external parser raises (RecursionError on ~200 nested placeables): lint_file yields the one error entry line 1 / column 1 / level error / str(e) (upstream fix 9f11b8c), for the reference as for the current file"),
    (M, "C05.compare_ftl_parser_raises", "…and compare reports it as an error detail on ref_file (upstream fix d91dd73) or on l10n, without merging or counting: never raises"),
    (M, "C05.remove_never_raises", "ContentComparer.remove never raises (any file, any filters)"),
    (M, "C05.add_never_raises", "ContentComparer.add never raises for every text of a regex format, any file, any filters: the except branch around readFile/parse is never needed"),
    (M, "C05.session_never_raises_partial", "SESSIONS — one ContentComparer comparing a sequence of file pairs (compareProjects): the state threaded through the jobs is the observers and the junk counters (Junk.junkid, XMLJunk.junkid) and nothing else, the checker is a per-file value built inside each call; every compare call of every session of covered jobs returns, from any fresh observers / filters and any counter values"),
    (M, "C05.ufffd_warned_in_every_job", "for EVERY job of EVERY session, wherever it stands and whatever the other files contain (same format or not, same keys or not): each shared key whose localized text has U+FFFD has its encoding warning in toJSON() after the session, in the leaf whose path is the path of THAT file"),
    (M, "C05.session_report_wellformed_partial", "every item of toJSON()['details'] after a session is a well-formed error / warning / missing / obsolete entry"),
    (M, "C05.job_checker_key", "the checker built for a file is a function of its class, the file's locale and (needs_reference) the parsed reference only: files that agree on these get equal checkers — nothing else a checker object could carry from one file to the next exists in the model"),
    (M, "C05.lint_session_never_raises_partial", "one L10nLinter.lint over any list of covered files (with / without references, any counter values) returns one result list per file"),
    (M, "C05.exSession_ok", "non-vacuity: a session of three jobs over two formats (clean ini, ini with U+FFFD, properties with U+FFFD; with and without merge) satisfies the hypotheses (with exSession_prefixFree), so the session theorems apply to it"),
    (M, "C05.exSession_prefixFree", "…and its three file paths are prefix-free"),
    ("CLModel.Proofs.C05Sess", "C05Sess.session_spec", "the session lemma: the observers after a session are the observers before it run on the concatenation of the jobs' histories; every event belongs to the file of a job and is well formed; the history has the encoding warning, for its own file, of every job"),
    ("CLModel.Proofs.C05Sess", "C05Sess.fresh_run", "the tree invariant of the observers survives every history, so the one-comparison lemmas apply to job k started from what the jobs before it left"),
    ("CLModel.Proofs.C05Sess", "C05Sess.report_has_detail", "toJSON() over a history of several prefix-free files shows every entity / message notification in the leaf of its own file"),
    ("CLModel.Proofs.C05Ext", "C05Ext.runFluent_ok", "FluentChecker.check (model of C08) answers for every pair of FluentEntities with positions they resolve, starting with the base check's results"),
    ("CLModel.Proofs.C05Ext", "C05Ext.runAndroid_ok", "AndroidChecker.check (model of C09) answers for every pair of AndroidEntities, starting with the base check's results"),
    ("CLModel.Proofs.C05Steps", "C05Steps.mS_sim", "the step-counting regex engine of the guard explores the same search as the engine all parser models run on: within its budget it returns the same verdict"),
    ("CLModel.Proofs.C05Steps", "C05Steps.matchSteps_sound", "a step count reported by the guard is the count of a search whose verdict is that of Pattern.match in the model"),
    ("CLModel.Proofs.C05Props", "Pipe.unescape_eq_propsVal", "the unescape model used by the properties checker (C06) equals the one of C02 on every text, hence is total"),
    ("CLModel.Proofs.C05Props", "Pipe.check_shape", "PropertiesChecker.check never raises and yields the base check results first"),
    ("CLModel.Proofs.C05Dtd", "C05Dtd.check_no_exc", "DTDChecker.check (model of C07) raises nothing on scalar texts without 'android-dtd', whatever expat answers: the lines[lnr-1] IndexError is gone (f80b06f), only UnicodeEncodeError on a lone surrogate is left"),
    ("CLModel.Proofs.C05Dtd", "C05Dtd.utf8_some_iff", "str.encode('utf-8') succeeds exactly on texts of scalar values"),
    ("CLModel.Proofs.C05Decode", "C05Dec.step_cases", "one step of CPython's UTF-8 decoder with errors='replace': the encoding of one scalar value is taken, or 1..3 bytes become one U+FFFD"),
]
PARTIAL = [
    "one composed Except-valued model (CLModel/Compare/Pipeline.lean) covers ini, inc, po, properties and dtd from the TEXT on (from the BYTES "
    "with Compare/Decode.lean), Fluent and Android from the external parser's output on (resource.body with AST summaries / the objects of the "
    "walk over the minidom tree): fluent.syntax and minidom themselves are not modelled (input contract FtlBodyOK), expat and html.unescape are "
    "parameters of the model (every theorem holds for every value of them; the driver uses the tables observed in the real run)",
    "compare_never_raises / report_wellformed / ufffd_warned_end_to_end carry the hypothesis NoJunkClashT (no shared key belongs to a Junk): "
    "without it the statement is false for the code (Junk has no `equals`: AttributeError, finding F8-junk-key-clash-raise; negation witness "
    "C05.junk_key_clash_raises).  The hypothesis is decidable exactly (clashFree_iff) and follows from 'no string id begins with _junk_' "
    "(compare_never_raises); gettext needs none (compare_never_raises_po); two Junks of the two files never clash (junk_keys_differ).  Not "
    "proved: .inc without hypothesis, and 'clash => raises' as a theorem",
    "dtd: texts must hold scalar values (str.encode raises on a lone surrogate: surrogate_raises); from bytes this is a theorem (decode_scalar); "
    "DTDChecker with extra_tests=['android-dtd'] is outside the pipeline (compare passes extra_tests=None; C07 covers processAndroidContent)",
    "Android: compare_android_never_raises_partial is stated WITHOUT merge staging: with it two skipped AndroidEntities make merge raise TypeError "
    "(known finding F5-android-no-spans-raise, witness android_merge_raises)",
    "sessions (one comparer / one linter over a sequence of files): the session theorems carry the per-job hypotheses of the one-comparison "
    "theorems (C05Sess.JobOK: scalar dtd texts, FtlBodyOK, no string id beginning with _junk_, no merge staging for Android) and, for the "
    "statements about toJSON(), prefix-free file paths (C10's hypothesis, witness C10.prefix_case_witness); a job whose external Fluent parser "
    "raises is outside the session model (covered by the one-comparison theorems and streams); the linter session is tied by correspondence and "
    "'never raises' only (the property promises the encoding warning for comparisons)",
    "termination: proved for the regex parsers' outer loops (parse_never_stuck); the running time of a single regex match is guarded, not proved: "
    "long-run inputs under a deadline plus the step-counting engine (C05Steps.mS_sim: same search as the model engine) with the bound "
    "'doubling a run at most quadruples the steps' over all generated regexes",
]
TRUSTED = [
    "CPython's codecs / TextIOWrapper are modelled by Pipe.decode (tied by the c05.decode stream on random bytes), not proved against CPython",
    "expat, html.unescape (parameters), minidom, fluent.syntax (inputs) are external",
    "subprocess watchdog observes hangs (deadline, retried with 10x)",
]
ASSUMPTIONS = [
    "Fluent input contract FtlBodyOK: every Message / Term of resource.body comes with its AST (what fluent.syntax returns)",
]
LEVEL_TEXT = ("Lean 4 theorems about ONE composed Except-valued model of compare(+merge staging)+toJSON, lint, add and remove: never raises on any pair "
              "of texts / byte strings of ini, inc, po, properties, dtd (every expat verdict, every html.unescape) and on every parser output of "
              "Fluent / Android (outside the junk-key clash and Android merge staging, recorded findings with kernel-checked witnesses), report "
              "items well formed, U+FFFD warned end to end from the bytes, readFile's decoding characterised; the model is tied to the real code "
              "by differential correspondence of the whole report for all seven file types, add/remove/filters and decoding; all seven file types "
              "additionally run under an execution oracle over structured, mutated, arbitrary and long-run byte pairs with a watchdog, and every "
              "regex of the code base under a step-count guard")
LEVEL_NOTE = ("trusted: Lean kernel, regex model (validated differentially), the decode model vs CPython, the external XML/Fluent parsers as "
              "inputs; termination of single regex matches is guarded by sampling, not proved")
TECHNIQUE = ("Lean 4 proof over one composed Except-valued pipeline model (externals as parameters) and its SESSION form (state = observers + junk "
             "counters, the checker a per-file value) + differential correspondence of whole reports, single and per session, "
             "+ watchdog-supervised execution oracle on arbitrary and long-run byte pairs + step-counting regex guard")

FORMATS = ["properties", "dtd", "ini", "inc", "ftl", "po", "android"]
PIPE_FORMATS = ("ini", "inc", "po", "properties", "dtd")      # formats of the composed model from the TEXT on (CLModel/Compare/Pipeline.lean)
BAD_BYTES = [b"\xff", b"\xfe\xff", b"\xc3", b"\xe2\x82", b"\x00", b"\xef\xbf\xbd", b"\xed\xa0\x80", b"\x80", b"\xf0\x9f"]


RISKY = [b"%0$S", b"%00$S", b"%1$", b"%.", b"%*S", b"%", b"%%", b"%1$S%1$d", b"%10$S", b"&#x;", b"&#0;", b"&;", b"&", b"<!--", b"-->", b"]]>",
         b"<![CDATA[", b"<", b">", b"{ -", b"{ $", b"{", b"}", b"->", b"*[", b"\\u", b"\\ud800", b"\\u0000", b"\\", b"@string/", b"\\'", b"'",
         b'"', b'""', b"#1", b"#0", b";", b"\n", b"\n\n", b"=", b" = ", b"[", b"]", b"msgid", b"msgstr", b"#define", b"<!ENTITY", b"0", b"9", b"$"]


def byte_mutate(b, rng, n):
    b = bytearray(b)
    for _ in range(n):
        r = rng.random()
        p = rng.randrange(len(b) + 1)
        if r < 0.25:
            tok = rng.choice(RISKY)
            if rng.random() < 0.5 and b:
                q = min(len(b), p + rng.randrange(1, 4))
                b[p:q] = tok          # replace a few bytes by a risky token
            else:
                b[p:p] = tok
            continue
        r = (r - 0.25) / 0.75
        if r < 0.3 and b:
            del b[p % len(b)]
        elif r < 0.55:
            b[p:p] = rng.choice(BAD_BYTES)
        elif r < 0.75:
            b[p:p] = bytes([rng.choice(b'"\'<>&=#\\\n %{}[];:-!@$')])
        elif r < 0.85 and b:
            q = rng.randrange(len(b))
            a, c = min(p, q), max(p, q)
            b[a:a] = b[a:c][:40]
        elif r < 0.93 and b:
            q = rng.randrange(len(b))
            a, c = min(p, q), max(p, q)
            del b[a:c]
        else:
            b[p:p] = bytes(rng.randrange(256) for _ in range(rng.randrange(1, 6)))
    return bytes(b)


def gen_cases(ctx):
    rng = ctx.rng("c05")
    cases = []
    per = ctx.n(1200, 12000)
    for fmt in FORMATS:
        for i in range(per):
            recs, kinds = R.gen_reference(fmt, rng)
            ref = R.print_file(fmt, recs).encode("utf-8")
            l10n, _ = R.derive_l10n(fmt, recs, kinds, rng)
            l10n = l10n.encode("utf-8")
            r = rng.random()
            tag = "structured"
            if r < 0.25:
                pass
            elif r < 0.6:
                l10n = byte_mutate(l10n, rng, rng.randrange(1, 4))
                tag = "l10n-mutated"
            elif r < 0.75:
                ref = byte_mutate(ref, rng, rng.randrange(1, 3))
                l10n = byte_mutate(l10n, rng, rng.randrange(0, 3))
                tag = "both-mutated"
            elif r < 0.85:
                l10n = l10n[:rng.randrange(len(l10n) + 1)]
                tag = "truncated"
            elif r < 0.93:
                l10n = bytes(rng.randrange(256) for _ in range(rng.randrange(0, 60)))
                tag = "arbitrary-l10n"
            else:
                ref = bytes(rng.randrange(256) for _ in range(rng.randrange(0, 60)))
                l10n = bytes(rng.randrange(256) for _ in range(rng.randrange(0, 60)))
                tag = "arbitrary-both"
            # replacement characters inside values of shared strings
            if tag == "structured" and rng.random() < 0.6:
                # replacement characters (or bytes that decode to one) inside the values of some strings
                words = [w.encode("utf-8") for w in R.WORDS] + [b"L10N", b"und", b"von", b"Text", b"fett", b"siehe", b"einfach"]
                hit = [w for w in words if w in l10n]
                for w in rng.sample(hit, min(len(hit), rng.randrange(1, 3))):
                    rep = w[:1] + (b"\xef\xbf\xbd" if rng.random() < 0.5 else b"\xff") + w[1:]
                    l10n = l10n.replace(w, rep, 1 if rng.random() < 0.5 else 5)
                tag = "ufffd"
            cases.append({"fmt": fmt, "ref": ref.decode("latin-1"), "l10n": l10n.decode("latin-1"),
                          "merge": rng.random() < 0.5, "tag": tag})
    # directed: names at the edges of what the parsers' own grammars accept, empty and multi-line values
    EXOTIC = ["Ⰰ", "a·b", "à", "ͿX", "_‿x", "豈", "ﷰ", "a.b-c", ":x", "x̀", "、"]
    for i in range(ctx.n(60, 1500)):
        n = rng.randrange(1, 4)
        keys = rng.sample(EXOTIC, n)
        vals = [rng.choice(["", "v", "a\nb", "%", "&amp;", "<b>x</b>"]) for _ in keys]
        def dtd(ks, vs):
            out = []
            for k, v in zip(ks, vs):
                if rng.random() < 0.5:
                    out.append("<!-- c -->\n")
                sep = rng.choice([" ", "\n", "  "])
                out.append('<!ENTITY%s%s%s"%s">\n' % (sep, k, sep, v))
            return "".join(out)
        ref = dtd(keys, [rng.choice(["r", "10em", "see &x;"]) for _ in keys])
        l10n = dtd(keys, vals)
        cases.append({"fmt": "dtd", "ref": ref.encode("utf-8").decode("latin-1"), "l10n": l10n.encode("utf-8").decode("latin-1"),
                      "merge": rng.random() < 0.5, "tag": "dtd-exotic-names"})
        props = "".join("%s = %s\n" % (k, v) for k, v in zip(keys, vals))
        cases.append({"fmt": "properties", "ref": props.encode("utf-8").decode("latin-1"),
                      "l10n": props.replace("= v", "= %").encode("utf-8").decode("latin-1"),
                      "merge": rng.random() < 0.5, "tag": "props-exotic-names"})
    # ---- directed families for the composed pipeline model (ini, inc, po, properties)
    def lat(t):
        return t.encode("utf-8").decode("latin-1")

    def add(fmt, ref, l10n, tag, merge=None):
        cases.append({"fmt": fmt, "ref": lat(ref), "l10n": lat(l10n), "merge": (rng.random() < 0.5) if merge is None else merge, "tag": tag})

    # (i) the key of a localized entity equals the key of a reference Junk (and the other way round): Junk has no `equals`
    for i in range(ctx.n(24, 200)):
        fmt = rng.choice(["ini", "properties", "ini", "properties", "inc", "po"])   # inc keys are \\w+, po keys tuples: no clash possible
        junk = rng.choice(["??", "abc", "? ?", "%%"])
        pre_n = rng.randrange(0, 3)
        if fmt == "ini":
            head = "[Strings]\n" + "".join("p%d=v\n" % j for j in range(pre_n))
            ent = lambda k, v: "%s=%s\n" % (k, v)
        elif fmt == "inc":
            head = "".join("#define p%d v\n" % j for j in range(pre_n))
            ent = lambda k, v: "#define %s %s\n" % (k, v)
        elif fmt == "properties":
            head = "".join("p%d = v\n" % j for j in range(pre_n))
            ent = lambda k, v: "%s = %s\n" % (k, v)
        else:
            head = "".join('msgid "p%d"\nmsgstr "v"\n\n' % j for j in range(pre_n))
            ent = lambda k, v: 'msgid "%s"\nmsgstr "%s"\n\n' % (k, v)
        side = rng.random() < 0.5
        jtext = junk + "\n"
        a, b = len(head), len(head) + len(jtext)
        if fmt == "po":
            b = a + len(junk) + 1
        with_junk = head + jtext + ent("z", "v")
        # the junk id: first Junk of the reference is 1; the first Junk of the localization follows the reference's junk
        if side:
            key = "_junk_1_%d-%d" % (a, b)
            other = head + ent(key, rng.choice(["v", "%S", "w�"])) + ent("z", "v")
            add(fmt, with_junk, other, "junk-key-clash")
        else:
            key = "_junk_1_%d-%d" % (a, b)
            other = head + ent(key, rng.choice(["v", "%S %S", "%1$S"])) + ent("z", "v")
            add(fmt, other, with_junk, "junk-key-clash-l10n")
    # (ii) gettext keys are tuples: `repr` of msgid / msgctxt in duplicate and check messages
    ODD = ["it's", 'say \\"hi\\"', "tab\\there", "back\\\\slash", "é", "­", "​", "\U0001F600", "\U000e0001", "x\u0085y", "a'b\\\"c", "\x7f", " "]
    for i in range(ctx.n(60, 600)):
        ids = [rng.choice(ODD) + str(rng.randrange(3)) for _ in range(rng.randrange(1, 4))]
        def po(ids, bad):
            out = []
            for k in ids:
                if rng.random() < 0.3:
                    out.append('msgctxt "%s"\n' % rng.choice(ODD))
                v = rng.choice(["v", "w�", ""]) if bad else "v"
                out.append('msgid "%s"\nmsgstr "%s"\n\n' % (k, v))
            return "".join(out)
        ref = po(ids + ([ids[0]] if rng.random() < 0.3 else []), False)
        l10n = po(ids + ([ids[-1]] if rng.random() < 0.4 else []), True)
        add("po", ref, l10n, "po-repr")
    # (iii) properties: printf / plural / escape findings (errors become skips when merging), duplicates, key bindings
    PV = [("%S and %S", ["%S und %S", "%d und", "%S", "%1$S %S", "100%"]), ("%1$S of %2$S", ["%2$S von %1$S", "%3$S", "%1$S"]),
          ("#1 item;#1 items", ["#1 Ding;#1 Dinge", "#2 Ding", "ein Ding", "#1;#1;#1", "#1 #2 Ding;#1 #2 Dinge", "#1 a;#1 b;#1 c;#1 d"]),
          ("%1$S of %2$S in %3$S", ["%1$S von %3$S", "%3$S %1$S", "%1$S %2$S %3$S"]), ("plain", ["schlicht \\q", "a\\u00e9b", "x\\\n  y", "w�"]),
          ("50%", ["50 %", "%"]), ("", ["", " "]), ("a<b>c</b>d e", ["x<i>y</i>z", "a<b>c</b>d e"]), ("one<br>two", ["eins<br>zwei"])]
    for i in range(ctx.n(80, 800)):
        n = rng.randrange(1, 5)
        refl, l10l = [], []
        for j in range(n):
            rv, lvs = rng.choice(PV)
            k = rng.choice(["s%d" % j, "accessKey%d" % j, "cmd.key%d" % j, "pluralRule", "t%d.label" % j])
            c = rng.choice(["", "", "# LOCALIZATION NOTE: see Localization_and_Plurals\n", "# a comment\n"])
            refl.append("%s%s = %s\n" % (c, k, rv))
            r = rng.random()
            if r < 0.75:
                l10l.append("%s = %s\n" % (k, rng.choice(lvs + [rv])))
            if r > 0.9:
                l10l.append("%s = %s\n" % (k, rng.choice(lvs)))
            if rng.random() < 0.1:
                l10l.append("junk line\n")
        if rng.random() < 0.2:
            l10l.append("extra%d = x\n" % i)
        add("properties", "".join(refl), "".join(l10l), "props-checks")
    # (iv) ini / inc: duplicates, key bindings, junk, U+FFFD in values and in attached comments
    for i in range(ctx.n(60, 600)):
        fmt = rng.choice(["ini", "inc"])
        ks = [rng.choice(["a", "b", "openKey", "cmd.key", "c"]) + rng.choice(["", "1"]) for _ in range(rng.randrange(1, 5))]
        def body(ks, bad):
            out = ["[Strings]\n"] if fmt == "ini" else []
            for k in ks:
                if bad and rng.random() < 0.15:
                    out.append(rng.choice(["??\n", "= x\n", "\n\n", "#bad\n"]))
                if rng.random() < 0.25:
                    out.append(("; c%s\n" if fmt == "ini" else "# c%s\n") % ("�" if bad and rng.random() < 0.5 else ""))
                v = rng.choice(["v", "two words", "w�x", "<b>x</b> y", ""]) if bad else rng.choice(
                    ["v", "two words", "a<b>c</b>d e", "<p>x</p>y", "one<br/>two", "1<2>3 4"])
                out.append(("%s=%s\n" if fmt == "ini" else "#define %s %s\n") % (k, v))
            return "".join(out)
        l10k = [k for k in ks if rng.random() < 0.8] + ([rng.choice(ks)] if rng.random() < 0.3 else []) + (["zz"] if rng.random() < 0.3 else [])
        rng.shuffle(l10k)
        add(fmt, body(ks, False), body(l10k, True), "%s-directed" % fmt)
    # (v) dtd for the composed model: valid records, junk, broken XML values, U+FFFD, empty values, duplicate keys,
    #     key-like ids, entity references known / unknown, numbers / lengths / CSS specs, apostrophe-delimited values, a PE
    DV = [("plain text", ["einfach", "a & b", "a &amp; b", "<b>fett", "<b>f</b>", "w�", "", "x &lt; y", "50%", "&#8230;", "&#x;", "&"]),
          ("see &brandShortName;", ["siehe &brandShortName;", "siehe &brandFullName;", "siehe &brandShortName", "&amp;brandShortName;", "siehe &vendor; &brandShortName;",
                                    "siehe &vendorShortName;", "&vendorShortName; und &brandShortName;"]),
          ("by &vendorShortName;", ["von &vendorShortName;", "von &brandShortName;", "von"]),
          ("10", ["12", "zwölf", "1.5", ".5", "10\n"]), ("20em", ["22em", "22", "2.5ch", "em", ""]),
          ("width: 20em; height: 10px", ["width: 22em; height: 12px", "width: 22em", "width:22em height:1px", "width: 22px; height: 12px;", "breit", "width: 22em; depth: 1em"]),
          ("<a href='x'>link</a>", ["<a href='x'>Verweis</a>", "<a href=x>V</a>", "<a>V", "V</a>"]), ("", ["", " ", "x"]), ("two words", ["zwei Worte", "zwei\nWorte", "&lt;zwei&gt;"])]
    DKEYS = ["a", "b.label", "c.accesskey", "cmd.commandKey", "ö", "w:x", "_junk_1_0-3", "brandShortName", "a-b", "x.y.z"]
    for i in range(ctx.n(220, 2500)):
        n = rng.randrange(1, 5)
        ks = rng.sample(DKEYS, n)
        refl, l10l = [], []
        for k in ks:
            rv, lvs = rng.choice(DV)
            q = rng.choice(['"', '"', "'"])
            if q in rv:
                q = '"' if q == "'" else "'"
            c = rng.choice(["", "", "<!-- note -->\n", "<!-- two\nlines -->\n"])
            refl.append("%s<!ENTITY %s %s%s%s>\n" % (c, k, q, rv, q))
            r = rng.random()
            lv = rng.choice(lvs + [rv])
            lq = '"' if '"' not in lv else "'"
            if r < 0.8:
                l10l.append("%s<!ENTITY%s%s %s%s%s>\n" % (rng.choice(["", "", "<!-- c� -->\n", "<!-- a\nb -->\n"]), rng.choice([" ", "\n", "  "]), k, lq, lv, lq))
            if r > 0.88:
                lv2 = rng.choice(lvs)
                l10l.append('<!ENTITY %s "%s">\n' % (k, lv2.replace('"', "'")))
            if rng.random() < 0.12:
                l10l.append(rng.choice(["stray text\n", "<!ENTITY broken \n", '<!ENTY x "y">\n', "<!ENTITY k 'open\n", "%foo;\n", "<!-- open\n"]))
        if rng.random() < 0.15:
            refl.insert(0, rng.choice(['<!ENTITY % brandDTD SYSTEM "chrome://branding/locale/brand.dtd">\n%brandDTD;\n', "junk in en-US\n", "\ufeff"]))
        if rng.random() < 0.15:
            l10l.insert(0, rng.choice(['<!ENTITY % brandDTD SYSTEM "chrome://branding/locale/brand.dtd">\n%brandDTD;\n', "\ufeff", "<!-- License -->\n"]))
        if rng.random() < 0.2:
            l10l.append('<!ENTITY extra%d "x">\n' % i)
        add("dtd", "".join(refl), "".join(l10l), "dtd-directed")
    # (vii) Fluent: values / attributes / references / select expressions / terms / style attributes on both sides
    FV = ["Text", "zwei Worte", "{ $n } Dinge", "{ other }", "{ other.title }", "{ -brand }", "{ -brand.gender }", "w�",
          "{ $n ->\n        [one] eins\n       *[other] viele\n    }", "{ $n ->\n        [one] a\n        [one] b\n       *[other] c\n    }",
          "{ $n ->\n        [1] a\n       *[few] c\n    }", "{ $n ->\n        [one] a\n       *[many] c\n    }",
          "{ -brand.gender ->\n        [f] sie\n       *[m] er\n    }", "{ other.title }", "{ NUMBER($n, type: \"ordinal\") }", "{ \"lit\" }", "{ -t(case: \"acc\") }", ""]
    FA = ["    .title = T", "    .label = L { other }", "    .style = width: 10em", "    .style = width: 10em; height: 2px", "    .style = breit",
          "    .style = { $n }", "    .title = T\n    .title = U", "    .accesskey = K", "    .style = width: 10px height: 1px"]
    for i in range(ctx.n(200, 2400)):
        ids = rng.sample(["a", "b-c", "other", "label1", "m5"], rng.randrange(1, 4))
        def ftl(ids, l10n):
            out = []
            for k in ids:
                if l10n and rng.random() < 0.15:
                    continue
                v = rng.choice(FV)
                attrs = [rng.choice(FA) for _ in range(rng.choice([0, 0, 1, 1, 2, 3]))]
                if not v and not attrs:
                    attrs = [rng.choice(FA)]
                out.append(rng.choice(["", "", "# c\n"]) + "%s =%s\n" % (k, (" " + v) if v else "") + "".join(a + "\n" for a in attrs))
                if l10n and rng.random() < 0.1:
                    out.append(rng.choice(["!!! junk\n", "= nokey\n", "   \n", "k = { \n"]))
            if rng.random() < 0.5:
                tv = rng.choice(["Marke", "{ $case ->\n        [nom] M\n       *[acc] Mn\n    }", "{ other }", "{ -brand }", "{ $n ->\n [one] x\n [one] y\n *[other] z\n }"])
                out.append("-brand = %s\n%s" % (tv, rng.choice(["", "    .gender = f\n", "    .gender = f\n    .gender = m\n", "    .style = { $n ->\n [a] x\n *[a] y\n }\n"])))
            if l10n and rng.random() < 0.2:
                out.append("extra%d = x\n" % i)
            rng.shuffle(out)
            return "".join(out)
        add("ftl", ftl(ids, False), ftl(ids, True), "ftl-directed")
    # (viii) Android: translatable attribute, @string references, CDATA / mixed content, quotes, apostrophes, printf
    AV = ["plain", "%1$s of %2$d", "%s and %s", "%1$s %1$d", "%1$s %1$s", "@string/foo", "it's", "it\\'s", '\"\" x', '\\"\" x', '"quoted it\'s"',
          "<![CDATA[ <b>x</b> ]]>", " <![CDATA[a]]> ", "<![CDATA[a]]><![CDATA[b]]>", "x <![CDATA[a]]>", "<![CDATA[a]]><b>x</b>", " <![CDATA[a]]> <!-- c -->", "<b>x</b>y", "<b>x</b>", "", "w�",
          "%d %%", "%.2f", "%3$s", "a &amp; b", "%s", "%1$s"]
    AH = '<?xml version="1.0" encoding="utf-8"?>\n<resources>\n'
    for i in range(ctx.n(200, 2400)):
        ks = rng.sample(["a", "b_c", "title", "key4", "_junk_1_0-0"], rng.randrange(1, 4))
        def axml(ks, l10n):
            out = [AH]
            for k in ks:
                if l10n and rng.random() < 0.15:
                    continue
                if rng.random() < 0.2:
                    out.append("  <!-- c%s -->\n" % ("�" if l10n and rng.random() < 0.3 else ""))
                tr = rng.choice(["", "", "", ' translatable="false"', ' translatable="true"'])
                out.append('  <string name="%s"%s>%s</string>\n' % (k, tr, rng.choice(AV)))
                if l10n and rng.random() < 0.12:
                    out.append(rng.choice(["  <foo/>\n", "  <string>noname</string>\n", '  <plurals name="p"><item quantity="one">x</item></plurals>\n', "  stray text\n"]))
            if l10n and rng.random() < 0.2:
                out.append('  <string name="extra%d">x</string>\n' % i)
            out.append("</resources>\n")
            return "".join(out)
        ref, l10n = axml(ks, False), axml(ks, True)
        if rng.random() < 0.06:
            l10n = rng.choice(["not xml", "<resources>", '<?xml version="1.0"?><other/>', ""])
        add("android", ref, l10n, "android-directed")
    # (ix) Fluent placeables nested deeper than Python's recursion limit allows fluent.syntax to follow: the external parser raises
    deep = "k = " + "{ " * 200 + "\n"
    add("ftl", "k = v\n", deep, "ftl-deep-nesting", merge=False)
    add("ftl", deep, "k = v\n", "ftl-deep-nesting-ref", merge=False)
    add("ftl", deep, deep, "ftl-deep-nesting-ref", merge=True)
    # (vi) the localization is a copy of a reference that contains junk: the same junk at the same offsets in both files.
    #      (`Junk.key` embeds the class-wide counter, so the two Junk objects still have different keys)
    for fmt in FORMATS:
        for i in range(ctx.n(14, 120)):
            recs, kinds = R.gen_reference(fmt, rng, n=rng.randrange(1, 4))
            text = R.print_file(fmt, recs)
            lines_ = text.split("\n")
            for _ in range(rng.randrange(1, 3)):
                g = rng.choice(R.GARBAGE[fmt]).rstrip("\n")
                if fmt == "android":
                    pos = rng.randrange(2, max(3, len(lines_) - 1))
                elif fmt == "ini":
                    pos = rng.randrange(1, len(lines_) + 1)
                else:
                    pos = rng.randrange(0, len(lines_) + 1)
                lines_.insert(min(pos, len(lines_)), g)
            text = "\n".join(lines_)
            l10n = text
            if rng.random() < 0.4:       # same junk, same offsets, something else changed behind it
                l10n = text + rng.choice(["\n", "", R.print_file(fmt, [("zz9", "v", None)]) if fmt not in ("android",) else ""])
            add(fmt, text, l10n, "junk-copy")
    return cases


# ---------------------------------------------------------------- long runs: where a regex can fail late
LONG_OPENERS = {
    "po": ['msgid "', 'msgid "a"\nmsgstr "', 'msgctxt "', "# ", "#~ ", 'msgid "x\\', 'msgid ""\n"', ""],
    "dtd": ['<!ENTITY k "', "<!ENTITY k '", "<!--", "<!ENTITY ", "<!ENTITY k ", '<!ENTITY % k SYSTEM "', '<!ENTITY k "v"', "&", ""],
    "properties": ["k = ", "k", "# ", "! ", "k = v\\", "k = \\u", "k = v\\\n", ""],
    "ini": ["[Strings]\nk=", "[Strings]\n", "[", "; ", "# ", "[Strings]\nk", ""],
    "inc": ["#define k ", "#define ", "# ", "#filter ", "#define k v\n", ""],
    "ftl": ["k = ", "k = { ", "k = { $", "# ", "-t = ", "k =\n    .a = ", 'k = { "', "k = {", ""],
    "android": ['<resources><string name="a">', "<resources><!--", '<resources><string name="', '<?xml version="1.0"?><resources>',
                '<resources><string name="a"><![CDATA[', ""],
}
LONG_RUNS = ["a", " ", "\\", '"', "'", "-", "&", "%", "<", "0", "=", ";", "\\u00", "ab ", "a\\", '\\"', "\t", "é", "&a;", "a-", "\\\\", "\\n",
             "{", "}", "\r", "]", "\\P", "x.", ">"]
LONG_TAILS = ["", "\n", "\\", '\\P"\n', "\nk = v\n"]


def gen_long(ctx, wave):
    """(format, opener, run) -> text: a long run (wave 1: 40-60, wave 2: 120-200 characters) of one token class in a lexical state
    that the opener enters and nothing leaves: unterminated strings / values / comments / entities / escapes"""
    rng = ctx.rng("c05-long", wave)
    cases = []
    for fmt in FORMATS:
        combos = [(o, r) for o in LONG_OPENERS[fmt] for r in LONG_RUNS]
        rng.shuffle(combos)
        take = combos[:ctx.n(44 if wave == 1 else 16, len(combos))]
        for o, r in take:
            n = rng.randrange(40, 61) if wave == 1 else rng.randrange(120, 201)
            l10n = o + (r * n)[:n if len(r) == 1 else n * 2] + rng.choice(LONG_TAILS)
            recs, _ = R.gen_reference(fmt, rng, n=1)
            ref = R.print_file(fmt, recs) if rng.random() < 0.6 else l10n
            cases.append({"fmt": fmt, "ref": ref.encode("utf-8").decode("latin-1"), "l10n": l10n.encode("utf-8").decode("latin-1"),
                          "merge": rng.random() < 0.5, "tag": "long-run", "state": (fmt, o)})
    return cases


def finding_of(case, stage, info):
    if case["fmt"] == "android" and stage == "compare" and info.get("exc") == "TypeError" and any("merge" in w for w in info.get("where", [])):
        return "F5-android-no-spans-raise"
    # root cause: fluent.syntax is a recursive-descent parser; placeables nested ~200 deep exceed Python's recursion limit and the
    # RecursionError leaves FluentParser.walk.  `compare` catches it (try/except around readFile + parse -> an "error" detail),
    # `L10nLinter.lint_file` does not.  (The harness's own re-parse for the U+FFFD oracle hits the same exception: stage "ufffd".)
    if case["fmt"] == "ftl" and stage in ("lint", "lint_noref", "adapter") and info.get("exc") == "RecursionError" \
            and any(("parser.py" in w or "stream.py" in w) for w in info.get("where", [])):
        return "C05-ftl-deep-nesting-lint-recursion"          # repaired upstream (9f11b8c): a fresh violation if it comes back
    # the same exception while the REFERENCE is parsed inside compare: `ref_entities = p.parse()` is outside the try block
    if case["fmt"] == "ftl" and stage == "compare" and info.get("exc") == "RecursionError" \
            and any(("parser.py" in w or "stream.py" in w) for w in info.get("where", [])) and "{ " * 150 in case["ref"]:
        return "C05-ftl-deep-nesting-reference-compare-recursion"      # repaired upstream (d91dd73): a fresh violation if it comes back
    if case["fmt"] == "dtd" and info.get("exc") == "IndexError" and any("dtd.py" in w for w in info.get("where", [])):
        return "F9-dtd-empty-value-index"
    # root cause of F8: an object of class Junk is used where the loop expects an Entity (it has no equals / value_position /
    # pre_comment / entry / node) BECAUSE the key of an ENTITY of one file is literally the counter-embedding key text
    # `_junk_<n>_<a>-<b>` of a Junk of the other file (`entity_junk_clash`, decided by the adapter on the input with the
    # real parser).  Two Junk objects of the two files never share a key in the unchanged code (theorem
    # C05.junk_keys_differ): an AttributeError on a Junk without such an entity is a DIFFERENT defect and stays a fresh violation.
    if stage == "compare" and info.get("exc") == "AttributeError" and "Junk' object has no attribute" in (info.get("msg") or "") \
            and info.get("entity_junk_clash") is True:
        return "F8-junk-key-clash-raise"
    return None


def oracle(case, r):
    out = []
    if r.get("exc") == "Hang":
        return [("comparison/lint does not terminate", None)]
    if "exc" in r:
        return [("adapter raised %s: %s %s" % (r["exc"], r.get("msg"), r.get("where")), None)]
    v = r["r"]
    for stage, st in v["stages"].items():
        if st != "ok":
            out.append(("%s raised %s: %s at %s" % (stage, st["exc"], st["msg"], st["where"]), finding_of(case, stage, st)))
    for s in v["shape"][:3]:
        out.append(("malformed report entry: %s" % s, None))
    for k in v["ufffd_missing"][:3]:
        out.append(("shared localized string %s contains U+FFFD but got no encoding warning" % k, None))
    return out


def judge(out, cases, res):
    """the execution oracle on the results of impl_robust"""
    hung = []
    for c, r in zip(cases, res):
        out.evaluations += 1
        out.count("%s.%s" % (c["fmt"], c["tag"]))
        bad = oracle(c, r)
        if r.get("exc") == "Hang":
            hung.append(c)
        for msg, fid in bad[:3]:
            out.violations.append({"what": "%s: %s" % (c["fmt"], msg), "input": {k: v for k, v in c.items() if k != "state"}, "finding": fid})
            out.count("violation." + (fid or "NEW"))
        if "r" in r:
            v = r["r"]
            if v.get("n_details", 0) + v.get("n_lint", 0) > 0:
                out.nontrivial.add((c["fmt"], c["l10n"]))
            if len(out.samples) < 8 and c["tag"] in ("l10n-mutated", "ufffd") and v.get("n_details", 0) > 1 and not bad:
                out.samples.append({"fmt": c["fmt"], "l10n_bytes_latin1": c["l10n"][:300], "summary": v.get("summary"), "lint_results": v.get("n_lint")})
    return hung


def fresh_oracle(out, c, r0):
    """on the runs of the pipeline adapters (fresh-process state: Junk.junkid = 0): neither compare nor lint raises or hangs"""
    r = r0.get("r", r0)
    ci = {k: v for k, v in c.items() if k != "state"}
    if r0.get("exc") == "Hang":
        out.violations.append({"what": "%s: comparison/lint (fresh junk counter) does not terminate" % c["fmt"], "input": dict(ci, fresh=True), "finding": None})
        return
    if r0.get("exc"):
        fid = finding_of(c, "adapter", r0)
        out.violations.append({"what": "%s: adapter raised %s: %s at %s" % (c["fmt"], r0.get("exc"), r0.get("msg"), r0.get("where")),
                               "input": dict(ci, fresh=True), "finding": fid})
        out.count("violation." + (fid or "NEW"))
        return
    for stage in ("compare", "lint", "lint_noref"):
        info = r.get(stage + "_exc")
        if info:
            fid = finding_of(c, "compare" if stage == "compare" else stage, info)
            out.violations.append({"what": "%s: %s (fresh junk counter) raised %s: %s at %s" % (
                c["fmt"], stage, info["exc"], info["msg"], info["where"]), "input": dict(ci, fresh=True), "finding": fid})
            out.count("violation." + (fid or "NEW"))


def drive(out, lines, what):
    """the native driver on `lines`; a model that does not answer in time is a disagreement, not a crash of the check"""
    import subprocess
    try:
        return C.run_driver_parallel(lines, timeout=420)
    except subprocess.TimeoutExpired:
        out.disagreements.append({"op": what, "impl": "answered", "model": "no answer within 420 s (a regex of the regenerated model backtracks without end?)"})
        out.count("pipeline.disagree.model-timeout")
        return None


MISSING_ATTR = C.enc("Missing attribute: ")[2:]      # code points of the prefix, as they appear inside an encoded text


def canon_set_order(s):
    """FluentChecker reports the attributes missing in the localization by iterating over a Python `set` (`ref_attrs -
    l10n_attrs`): the order of these items (all at position 0, kept adjacent by the stable sort) is the hash order, which the
    model does not reproduce (it lists them in the reference's order, see NOTES-C08).  Both sides are normalised: every run of
    adjacent items that carry the text "Missing attribute: " is sorted."""
    import re
    if MISSING_ATTR not in s:
        return s
    if " details[" in s:
        a = s.index(" details[") + len(" details[")
        b = s.rindex("] merge=")
        m = re.search(r"(?:error|warning|missingEntity|obsoleteEntity|missingFile|obsoleteFile)=", s[a:b])
        if not m:
            return s
        a += m.start()
    elif s.startswith("ok "):
        a, b = 3, len(s)
    else:
        return s
    toks = s[a:b].split("|")
    i = 0
    while i < len(toks):
        j = i
        while j < len(toks) and MISSING_ATTR in toks[j]:
            j += 1
        if j > i + 1:
            toks[i:j] = sorted(toks[i:j])
        i = max(j, i + 1)
    return s[:a] + "|".join(toks) + s[b:]


def diff_stream(out, ctx, pcases, pres, mk_lines, prefix):
    """whole-report correspondence: compare / lint with reference / lint without, model vs implementation"""
    lines, idx = [], []
    for i, (c, r) in enumerate(zip(pcases, pres)):
        r = r.get("r", r)
        if "ref_text" not in r:
            continue            # the adapter itself failed or hung: reported by fresh_oracle
        for k, line in mk_lines(c, r):
            lines.append(line)
            idx.append((i, k))
    for c, r0 in zip(pcases, pres):
        fresh_oracle(out, c, r0)
    model = (drive(out, lines, prefix) or []) if ctx.model_ok else []
    for (i, k), mo in zip(idx, model):
        c, r = pcases[i], pres[i].get("r", pres[i])
        out.evaluations += 1
        im = r[k]
        if c["fmt"] == "ftl":
            im, mo = canon_set_order(im), canon_set_order(mo)
        if im != mo:
            out.disagreements.append({"op": "%s.%s" % (prefix, k), "fmt": c["fmt"], "tag": c["tag"], "merge": c["merge"],
                                      "ref": r["ref_text"][:400], "l10n": r["l10n_text"][:400], "impl": im[:600], "model": mo[:600]})
            out.count("pipeline.disagree.%s.%s" % (c["fmt"], k))
        elif k == "compare" and ("details[]" not in im):
            out.nontrivial.add(("pipe", c["fmt"], im))
        out.count("pipeline.%s.%s" % (c["fmt"], k))
        if im.startswith("raise"):
            out.count("pipeline.raise.%s" % im.split()[1])


def lines_regex(c, r):
    ext = (" " + r["ext"]) if r.get("ext") else ""      # dtd: expat verdicts + html.unescape values observed in the real run
    m = 1 if c["merge"] else 0
    return [("compare", "c05.compare %s %s %s %d%s" % (c["fmt"], C.enc(r["ref_text"]), C.enc(r["l10n_text"]), m, ext)),
            ("lint", "c05.lint %s %s %s%s" % (c["fmt"], C.enc(r["ref_text"]), C.enc(r["l10n_text"]), ext)),
            ("lint_noref", "c05.lint %s - %s%s" % (c["fmt"], C.enc(r["l10n_text"]), ext))]


def lines_ftl(c, r):
    m = 1 if c["merge"] else 0
    return [("compare", "c05.cmpftl %s %s %d %s %s" % (C.enc(r["ref_text"]), C.enc(r["l10n_text"]), m, r["ref_body"], r["l10n_body"])),
            ("lint", "c05.lintftl %s %s %s %s" % (C.enc(r["l10n_text"]), r["l10n_body"], C.enc(r["ref_text"]), r["ref_body"])),
            ("lint_noref", "c05.lintftl %s %s -" % (C.enc(r["l10n_text"]), r["l10n_body"]))]


def lines_android(c, r):
    m = 1 if c["merge"] else 0
    return [("compare", "c05.cmpxml %s %d %s %s" % (C.enc(r["l10n_text"]), m, r["ref_items"], r["l10n_items"])),
            ("lint", "c05.lintxml %s %s %s" % (C.enc(r["l10n_text"]), r["l10n_items"], r["ref_items"])),
            ("lint_noref", "c05.lintxml %s %s -" % (C.enc(r["l10n_text"]), r["l10n_items"]))]


def files_stream(out, ctx, cases):
    """`ContentComparer.add`, `.remove` and `.compare` with a filtering observer (verdicts error / warning / ignore for files,
    entities and the `entity=""` probe of updateStats): whole report + merge outcome, model vs implementation; oracle: no raise"""
    rng = ctx.rng("c05-files")
    pool_ = [c for c in cases if c["fmt"] in PIPE_FORMATS and c["tag"] not in ("junk-key-clash", "junk-key-clash-l10n")]
    fc = rng.sample(pool_, min(len(pool_), ctx.n(900, 5000)))
    ks = [rng.choice([None, 0, 1, 2, 3, 4, 5]) for _ in fc]
    res = pool.pmap("impl.pipeline", "impl_files", [[c["fmt"], c["ref"], c["l10n"], c["merge"], k] for c, k in zip(fc, ks)],
                    timeout=10.0, batch=8)
    lines, idx = [], []
    for i, (c, k, r0) in enumerate(zip(fc, ks, res)):
        r = r0.get("r", r0)
        ci = {kk: v for kk, v in c.items() if kk != "state"}
        if r0.get("exc"):
            out.violations.append({"what": "%s: add/remove/compare with a filter: %s %s" % (c["fmt"], r0.get("exc"), r0.get("msg")),
                                   "input": dict(ci, files=True, k=k), "finding": None})
            continue
        for op in ("comparef", "addfile", "removefile"):
            info = r.get(op + "_exc")
            if info:
                fid = finding_of(c, "compare", info) if op == "comparef" else None
                out.violations.append({"what": "%s: %s (filter %s) raised %s: %s at %s" % (c["fmt"], op, k, info["exc"], info["msg"], info["where"]),
                                       "input": dict(ci, files=True, k=k), "finding": fid})
        ext = (" " + r["ext"]) if r.get("ext") else ""
        kk, m = ("-" if k is None else str(k)), (1 if c["merge"] else 0)
        lines.append("c05.comparef %s %s %s %s %d%s" % (kk, c["fmt"], C.enc(r["ref_text"]), C.enc(r["l10n_text"]), m, ext))
        idx.append((i, "comparef"))
        lines.append("c05.addfile %s %s %s %d%s" % (kk, c["fmt"], C.enc(r["ref_text"]), m, ext))
        idx.append((i, "addfile"))
        lines.append("c05.removefile %s %s %d" % (kk, c["fmt"], m))
        idx.append((i, "removefile"))
    model = (drive(out, lines, "c05.files") or []) if ctx.model_ok else []
    for (i, op), mo in zip(idx, model):
        c, r = fc[i], res[i].get("r", res[i])
        out.evaluations += 1
        if r[op] != mo:
            out.disagreements.append({"op": "c05." + op, "fmt": c["fmt"], "tag": c["tag"], "merge": c["merge"], "filter": ks[i],
                                      "ref": r["ref_text"][:300], "l10n": r["l10n_text"][:300], "impl": r[op][:600], "model": mo[:600]})
            out.count("pipeline.disagree.%s.%s" % (c["fmt"], op))
        else:
            out.nontrivial.add(("files", op, c["fmt"], r[op]))
        out.count("files.%s.%s" % (c["fmt"], op))


def odd_files(out, ctx):
    """no parser for the file name (merge copies), a file that cannot be read (reported as an error, never raised)"""
    rng = ctx.rng("c05-odd")
    tasks = []
    for i in range(ctx.n(36, 300)):
        kind = ["noparser", "l10n-unreadable", "ref-unreadable"][i % 3]
        text = "".join(rng.choice(["k = v\n", "junk\n", "\xff", "a=b\n", ""]) for _ in range(rng.randrange(0, 4)))
        # copying an unreadable file into the merge stage is an I/O failure outside the property: merge staging only where all files are readable
        tasks.append([kind, text, kind == "noparser" and rng.random() < 0.5])
    res = pool.pmap("impl.pipeline", "impl_files_odd", tasks, timeout=10.0, batch=6)
    for t, r0 in zip(tasks, res):
        r = r0.get("r", r0)
        out.evaluations += 1
        out.count("odd." + t[0])
        if r0.get("exc"):
            out.violations.append({"what": "%s: %s %s" % (t[0], r0.get("exc"), r0.get("msg")), "input": {"odd": t}, "finding": None})
            continue
        for op in ("compare", "add", "remove"):
            if not str(r.get(op, "")).startswith("ok") or "malformed" in str(r.get(op)):
                out.violations.append({"what": "%s: %s on a file %s: %s %s" % (t[0], op, t[0], r.get(op), r.get(op + "_exc")),
                                       "input": {"odd": t}, "finding": None})
            else:
                out.nontrivial.add(("odd", t[0], op, r[op]))


# ---------------------------------------------------------------- decode: Parser.readFile on arbitrary bytes
DEC_POOL = [b"\r", b"\n", b"\r\n", b"a", b"\xef\xbb\xbf", b"\xc3\xa9", b"\xe2\x82\xac", b"\xf0\x9f\x98\x80", b"\xc3", b"\xe2\x82", b"\xe2",
            b"\xf0\x9f\x98", b"\xf0\x9f", b"\xf0", b"\xed\xa0\x80", b"\xed\x9f\xbf", b"\xe0\x80\x80", b"\xe0\xa0\x80", b"\xf0\x80\x80\x80",
            b"\xf0\x90\x80\x80", b"\xf4\x8f\xbf\xbf", b"\xf4\x90\x80\x80", b"\xc0\x80", b"\xc1\xbf", b"\xc2\x80", b"\xf5", b"\xff", b"\x80", b"\xbf",
            b"\x00", b"\xef\xbf\xbd", b"\xdf\xbf", b"\xef\xbf\xbf", b"\xee\x80\x80", b"\xed", b"\xf4", b"\xe0", b"k = v"]


def gen_bytes(ctx):
    rng = ctx.rng("c05-decode")
    out = []
    for i in range(ctx.n(2500, 20000)):
        r = rng.random()
        if r < 0.55:
            b = b"".join(rng.choice(DEC_POOL) for _ in range(rng.randrange(0, 9)))
        elif r < 0.8:
            b = bytes(rng.randrange(256) for _ in range(rng.randrange(0, 14)))
        else:
            b = bytes(rng.choice([0x0d, 0x0a, 0x61, 0xc2, 0xe0, 0xed, 0xf0, 0xf4, 0x80, 0x9f, 0xa0, 0xbf, 0x90, 0x8f, 0xef, 0xbb]) for _ in range(rng.randrange(0, 12)))
        out.append(b)
    return out


def decode_stream(out, ctx):
    """`Parser.readFile` (open(errors="replace", newline=None)) vs `Pipe.decode`; oracle, independent of the model: the text has
    no carriage return, no surrogate, and has U+FFFD unless the bytes are well-formed UTF-8 (strict codec as the judge)"""
    data = gen_bytes(ctx)
    res = pool.pmap("impl.pipeline", "impl_decode", [[b.decode("latin-1"), i] for i, b in enumerate(data)], timeout=10.0, batch=64)
    model = (drive(out, ["c05.decode " + C.enc(b.decode("latin-1")) for b in data], "c05.decode") or []) if ctx.model_ok else []
    for n, (b, r) in enumerate(zip(data, res)):
        out.evaluations += 1
        r = r.get("r", r) if isinstance(r, dict) else r
        if not isinstance(r, str):
            out.violations.append({"what": "readFile raised or hung on bytes: %r" % (r,), "input": {"bytes": b.decode("latin-1")}, "finding": None})
            continue
        text = C.dec(r)
        try:
            b.decode("utf-8")
            well = True
        except UnicodeDecodeError:
            well = False
        bad = None
        if "\r" in text:
            bad = "carriage return survives universal newlines"
        elif any(0xD800 <= ord(ch) <= 0xDFFF for ch in text):
            bad = "surrogate in decoded text"
        elif not well and "�" not in text:
            bad = "ill-formed bytes decoded without U+FFFD"
        elif well and text != b.decode("utf-8").replace("\r\n", "\n").replace("\r", "\n"):
            bad = "well-formed bytes not decoded to their text"
        if bad:
            out.violations.append({"what": "readFile: " + bad, "input": {"bytes": b.decode("latin-1")}, "finding": None})
        elif n < len(model) and model[n] != r:
            out.disagreements.append({"op": "c05.decode", "bytes": b.hex(), "impl": r[:300], "model": model[n][:300]})
        if not well:
            out.nontrivial.add(("decode", b))
        out.count("decode." + ("wellformed" if well else "illformed"))


# ---------------------------------------------------------------- regex step guard
RX_OPENERS = ["", 'msgid "', 'msgstr "', '<!ENTITY k "', "<!ENTITY k '", "<!--", "k = ", "k=", "#define k ", "# ", "; ", "[",
              '<!ENTITY % k SYSTEM "', "&", "%", "\\u", "width: ", "{ $", "-", '"', "#"]
RX_CLASSES = ["a", " ", "\\", '"', "'", "-", "&", "%", "<", "\n", "0", "=", ";", ".", "\\u00", "ab ", "a\\", '\\"', "\t", "é", "&a;", "%S",
              "a;", "a-", "<b>", " \n"]
RX_N = 40
RX_BUDGET = 3000000
RX_RATIO = 4.6        # doubling the run may at most quadruple the steps (the unchanged regexes reach 3.98)


def regex_guard(out, ctx):
    """every regex of compare-locales (the regenerated `Gen.Pat.table`), counted engine: a run of 2n characters needs at most
    ~4x the steps of a run of n characters, for every opener / character class sampled, at one position (`match`) and over all
    start positions (`search`).  A regex that fails this is run on the real `re` under the watchdog."""
    import json, os
    meta = json.load(open(os.path.join(C.HARNESS, "gen_patterns.json")))
    rng = ctx.rng("c05-rx")
    combos = [(o, c) for o in RX_OPENERS for c in RX_CLASSES]
    lines, idx = [], []
    for m in meta:
        take = rng.sample(combos, min(len(combos), ctx.n(110, len(combos))))
        for o, c in take:
            for mode in ("match", "search"):
                for k in (1, 2):
                    lines.append("c05.rxsteps @%s %s %d %s" % (m["name"], mode, RX_BUDGET, C.enc(o + c * (RX_N * k))))
                    idx.append((m["name"], o, c, mode, k))
    model = (drive(out, lines, "c05.rxsteps") or []) if ctx.model_ok else []
    res = dict(zip(idx, model))
    by_name = {m["name"]: m for m in meta}
    suspects = {}
    unknown = set()
    for (name, o, c, mode, k), r in res.items():
        if k != 1:
            continue
        out.evaluations += 1
        r2 = res.get((name, o, c, mode, 2))
        over = r == "over" or r2 == "over"
        if not over and not (str(r).isdigit() and str(r2).isdigit()):
            # the driver does not know this regex (its tables were generated from another source tree than gen_patterns.json):
            # the correspondence is broken, not the check
            if ("rx-unknown", name) not in unknown:
                unknown.add(("rx-unknown", name))
                out.disagreements.append({"op": "c05.rxsteps", "regex": name, "mode": mode, "model": str(r)[:80], "impl": "a regex of the source tree"})
            continue
        if not over:
            a, b = int(r), int(r2)
            over = b > RX_RATIO * max(a, 50)
            out.count("rx.%s" % ("linear" if b <= 2.4 * max(a, 50) else "quadratic" if not over else "worse"))
        if over:
            suspects.setdefault((name, mode), (o, c, r, r2))
    if not suspects:
        return
    tasks, keys = [], []
    for (name, mode), (o, c, r, r2) in sorted(suspects.items()):
        m = by_name[name]
        tasks.append([m["pattern"], m["flags"], o + c * 120, mode])
        keys.append((name, mode, o, c, r, r2))
    times = pool.pmap("impl.pipeline", "impl_rx_time", tasks, timeout=4.0, batch=1)
    for (name, mode, o, c, r, r2), t, task in zip(keys, times, tasks):
        t = t.get("r", t)
        if t.get("exc") == "Hang" or (isinstance(t.get("seconds"), float) and t["seconds"] > 2.0):
            out.violations.append({"what": "regex %s does not terminate in reasonable time: re.%s on %r + %r * 120 (model engine: %s steps for %d, %s for %d characters)" % (
                name, mode, o, c, r, RX_N, r2, 2 * RX_N), "input": {"regex": name, "pattern": task[0], "flags": task[1], "text": task[2], "mode": mode}, "finding": None})
        else:
            out.disagreements.append({"op": "c05.rxsteps", "regex": name, "mode": mode, "opener": o, "run": c,
                                      "model": "steps %s -> %s when the run doubles" % (r, r2), "impl": "re answers in %s s" % t.get("seconds")})


# ---------------------------------------------------------------- sessions: one comparer / one linter over a sequence of files
SESS_KEYS = ["alpha", "beta2", "title", "brand_name", "key4", "gamma", "open_cmd", "zz9"]
SESS_VALS = ["wert", "zwei Worte", "drei kurze Worte", "x", "Seite öffnen", "v", "ein etwas längerer Text mit Worten"]
SESS_BAD = [b"\xef\xbf\xbd", b"\xef\xbf\xbd", b"\xff", b"\xc3", b"\xe2\x82", b"\xf0\x9f", b"\x80", b"\xed\xa0\x80"]
MARK = ""                 # placeholder inside a printed file: replaced, after encoding, by bytes that decode to U+FFFD
MARK_B = MARK.encode("utf-8")


SESS_DTD_VALS = ["siehe &brandShortName;", "von &vendorShortName;", "&brandFullName; und &brandShortName;", "mehr &unknownThing;",
                 "&vendorShortName; &brandFullName;", "&otherThing; hier", "a &amp; b"]


def sess_file(fmt, keys, rng, bad, pad, vals=None):
    """one file of a session from the record printer: the strings `keys` (shared with the other files of the session), `pad`
    extra strings / comment lines in front (so that the same key sits at different offsets in different files); `bad` > 0:
    that many strings get a replacement character (or invalid UTF-8) at the start, inside or at the end of the value, or in
    the attached comment"""
    recs = []
    for n in range(pad):
        recs.append(("pad%d" % n, rng.choice(vals or SESS_VALS), rng.choice([None, "Kommentar %d" % n])))
    hit = set(rng.sample(range(len(keys)), min(len(keys), bad)))
    for n, k in enumerate(keys):
        v = rng.choice(vals or SESS_VALS)
        c = rng.choice([None, None, "Hinweis"])
        if n in hit:
            r = rng.random()
            if r < 0.3:
                v = MARK + v
            elif r < 0.6:
                q = rng.randrange(1, len(v) + 1)
                v = v[:q] + MARK + v[q:]
            elif r < 0.85:
                v = v + MARK
            else:
                c = "Hin" + MARK + "weis"
            if rng.random() < 0.2:
                v = v + " " + MARK
        recs.append((k, v, c))
    text = R.print_file(fmt, recs)
    data = text.encode("utf-8")
    while MARK_B in data:
        data = data.replace(MARK_B, rng.choice(SESS_BAD), 1)
    return data


def gen_sessions(ctx):
    """histories for ONE `ContentComparer` / ONE `L10nLinter`: 2-5 file pairs of the same and of different formats, the same
    keys in several files, replacement characters / invalid bytes in file k but not in the files before it (and the other
    way round), at different offsets; with and without merge staging"""
    rng = ctx.rng("c05-sessions")
    sessions = []
    for i in range(ctx.n(320, 4000)):
        n = rng.randrange(2, 6)
        r = rng.random()
        if r < 0.45:
            kind = "same-format"
            fmts = [rng.choice(FORMATS)] * n
        elif r < 0.6:
            kind = "two-formats"
            a, b = rng.sample(FORMATS, 2)
            fmts = [rng.choice([a, b]) for _ in range(n)]
            fmts[0], fmts[-1] = a, a
        else:
            kind = "mixed"
            fmts = [rng.choice(FORMATS) for _ in range(n)]
        r = rng.random()
        if r < 0.4:               # clean files first, then the damaged one(s)
            first_bad = rng.randrange(1, n)
            bads = [0] * first_bad + [rng.randrange(1, 4) for _ in range(n - first_bad)]
            when = "later-bad"
        elif r < 0.6:             # the first file is damaged, the later ones are clean
            bads = [rng.randrange(1, 4)] + [0 if rng.random() < 0.8 else 1 for _ in range(n - 1)]
            when = "first-bad"
        else:
            bads = [rng.choice([0, 0, 1, 2, 3]) for _ in range(n)]
            when = "any"
        keys = rng.sample(SESS_KEYS, rng.randrange(2, 6))
        jobs = []
        for fmt, bad in zip(fmts, bads):
            if rng.random() < 0.75:
                ks = [k for k in keys if rng.random() < 0.9] or keys[:1]
                # dtd: every file refers to its own few entities (what DTDChecker learns from ONE reference must not leak into the next file)
                rvals = lvals = None
                if fmt == "dtd" and rng.random() < 0.7:
                    rvals = rng.sample(SESS_DTD_VALS, 2) + ["wert"]
                    lvals = rng.sample(SESS_DTD_VALS, 3) + ["wert"]
                ref = sess_file(fmt, ks + (["only_ref"] if rng.random() < 0.2 else []), rng, 0, rng.randrange(0, 3), rvals)
                lks = [k for k in ks if rng.random() < 0.9] or ks[:1]
                l10n = sess_file(fmt, lks + (["only_l10n"] if rng.random() < 0.2 else []), rng, bad, rng.randrange(0, 4), lvals)
                if rng.random() < 0.12:
                    g = rng.choice(R.GARBAGE[fmt]).encode("utf-8")
                    q = l10n.rfind(b"\n", 0, rng.randrange(len(l10n) + 1)) + 1
                    if fmt != "android" or q > 60:
                        l10n = l10n[:q] + g + l10n[q:]
            else:                 # the record generators of C02 with a localization derived from the reference
                recs, kinds = R.gen_reference(fmt, rng, n=rng.randrange(1, 5))
                ref = R.print_file(fmt, recs).encode("utf-8")
                l10n = R.derive_l10n(fmt, recs, kinds, rng)[0].encode("utf-8")
                if bad:
                    words = [w.encode("utf-8") for w in R.WORDS] + [b"L10N", b"und", b"von", b"Text", b"fett", b"siehe", b"einfach"]
                    hitw = [w for w in words if w in l10n]
                    for w in rng.sample(hitw, min(len(hitw), bad)):
                        l10n = l10n.replace(w, w[:1] + rng.choice(SESS_BAD) + w[1:], 1 if rng.random() < 0.5 else 5)
                elif rng.random() < 0.2:
                    l10n = byte_mutate(l10n, rng, 1).replace(b"\xef\xbf\xbd", b"?")
            jobs.append([fmt, ref.decode("latin-1"), l10n.decode("latin-1"), rng.random() < 0.5])
        sessions.append({"jobs": jobs, "lint_refs": [rng.random() < 0.6 for _ in jobs], "kind": kind, "when": when})
    return sessions


def session_oracle(sess, r0):
    """what C05 promises for EVERY file of a session, whatever was compared or linted before it: no raise, well-formed
    entries, the encoding warning for every shared string with U+FFFD (checked in the details of THAT file)"""
    out = []
    if r0.get("exc") == "Hang":
        return [("a session of comparisons / lint runs does not terminate", None)]
    if r0.get("exc"):
        return [("session adapter raised %s: %s %s" % (r0["exc"], r0.get("msg"), r0.get("where")), None)]
    r = r0.get("r", r0)
    for i, j in enumerate(r["jobs"]):
        case = {"fmt": j["fmt"], "ref": sess["jobs"][i][1], "l10n": sess["jobs"][i][2], "merge": j["merge"]}
        where = "file %d of %d (%s)" % (i + 1, len(r["jobs"]), j["rel"])
        if j["compare"] != "ok":
            info = j.get("compare_exc", {})
            out.append(("%s: compare raised %s: %s at %s" % (where, info.get("exc"), info.get("msg"), info.get("where")),
                        finding_of(case, "compare", info)))
        for s in j.get("shape", [])[:2]:
            out.append(("%s: malformed report entry: %s" % (where, s), None))
        for k in j.get("ufffd_missing", [])[:3]:
            fresh_has = ("fresh" in j and "warning=" in j["fresh"].get("leaf", ""))
            out.append(("%s: shared localized string %s contains U+FFFD but got no encoding warning from a comparer that had compared %d "
                        "file(s) before%s" % (where, k, i, " (a fresh comparer warns)" if fresh_has else ""), None))
        if j.get("oracle_exc"):
            out.append(("%s: the oracle's own parse raised %s" % (where, j["oracle_exc"]), finding_of(case, "adapter", j["oracle_exc"])))
    if r.get("report_exc"):
        out.append(("toJSON() after the session raised %s" % (r["report_exc"],), None))
    if r.get("lint") != "ok":
        info = r.get("lint_exc", {})
        out.append(("L10nLinter.lint over the %d files raised %s: %s at %s" % (len(r["jobs"]), info.get("exc"), info.get("msg"), info.get("where")),
                    finding_of({"fmt": "ftl" if any(j["fmt"] == "ftl" for j in r["jobs"]) else "", "ref": "", "l10n": ""}, "lint", info)))
    for s in r.get("lint_shape", [])[:2]:
        out.append(("malformed lint result: %s" % s, None))
    return out


def sess_tokens(j):
    """one job in the wire form of `c05.session` / `c05.lintsession`"""
    m = 1 if j["merge"] else 0
    if j["fmt"] == "ftl":
        if j["ref_body"].startswith("!") or j["l10n_body"].startswith("!"):
            return None
        return "F %s %d %s %s %s %s" % (C.enc(j["rel"]), m, C.enc(j["ref_text"]), C.enc(j["l10n_text"]), j["ref_body"], j["l10n_body"])
    if j["fmt"] == "android":
        return "A %s %d %s %s %s" % (C.enc(j["rel"]), m, C.enc(j["l10n_text"]), j["ref_items"], j["l10n_items"])
    return "T %s %d %s %s %s" % (C.enc(j["rel"]), m, j["fmt"], C.enc(j["ref_text"]), C.enc(j["l10n_text"]))


def session_stream(out, ctx):
    sessions = gen_sessions(ctx)
    res = pool.pmap("impl.pipeline", "impl_session", [[s["jobs"], s["lint_refs"]] for s in sessions], timeout=20.0, batch=4)
    lines, idx = [], []
    for n, (s, r0) in enumerate(zip(sessions, res)):
        out.evaluations += 1
        out.count("session.%s.%s" % (s["kind"], s["when"]))
        bad = session_oracle(s, r0)
        for msg, fid in bad[:3]:
            out.violations.append({"what": "session: " + msg, "input": {"session": s["jobs"], "lint_refs": s["lint_refs"]}, "finding": fid})
            out.count("violation." + (fid or "NEW"))
        if r0.get("exc"):
            continue
        r = r0.get("r", r0)
        # differential: the same step by a fresh comparer / a fresh linter
        total = {}
        for i, j in enumerate(r["jobs"]):
            out.evaluations += 2
            fr = j.get("fresh", {})
            for k in ("compare", "leaf", "merge_out"):
                if fr.get(k) != j.get(k) and not bad:
                    out.disagreements.append({"op": "c05.session-vs-fresh." + k, "file": j["rel"], "position": i, "fmt": j["fmt"], "merge": j["merge"],
                                              "formats": [x["fmt"] for x in r["jobs"]], "impl": str(j.get(k))[:500], "model": "fresh comparer: " + str(fr.get(k))[:500],
                                              "l10n": j["l10n_text"][:300]})
                    out.count("session.disagree.fresh.%s.%s" % (j["fmt"], k))
            for loc, d in (fr.get("summary") or {}).items():
                t = total.setdefault(loc, {})
                for k, v in d.items():
                    t[k] = t.get(k, 0) + v
            if j.get("lint") != j.get("lint_fresh") and not bad:
                out.disagreements.append({"op": "c05.lintsession-vs-fresh", "file": j["rel"], "position": i, "fmt": j["fmt"],
                                          "formats": [x["fmt"] for x in r["jobs"]], "impl": str(j.get("lint"))[:500], "model": "fresh linter: " + str(j.get("lint_fresh"))[:500],
                                          "l10n": j["l10n_text"][:300]})
                out.count("session.disagree.fresh.%s.lint" % j["fmt"])
            if "warning=" in j.get("leaf", "") and i > 0:
                out.nontrivial.add(("session", j["fmt"], i, j["leaf"]))
            out.count("session.file.%s" % j["fmt"])
        if not bad and all(j["compare"] == "ok" for j in r["jobs"]) and "summary" in r and r["summary"] != total:
            out.disagreements.append({"op": "c05.session-vs-fresh.summary", "formats": [x["fmt"] for x in r["jobs"]],
                                      "impl": str(r["summary"])[:500], "model": "sum of the fresh runs: " + str(total)[:500]})
        # correspondence with the session form of the composed model
        toks = [sess_tokens(j) if not j.get("tokens_exc") else None for j in r["jobs"]]
        if all(t is not None for t in toks):
            ext = (" " + r["ext"]) if r.get("ext") else ""
            lines.append("c05.session %d %s%s" % (len(toks), " ".join(toks), ext))
            idx.append((n, "report"))
            lines.append("c05.lintsession %d %s%s" % (len(toks), " ".join("%d %s" % (1 if lr else 0, t) for lr, t in zip(s["lint_refs"], toks)), ext))
            idx.append((n, "lint"))
    model = (drive(out, lines, "c05.session") or []) if ctx.model_ok else []
    for (n, what), mo in zip(idx, model):
        s, r = sessions[n], res[n].get("r", res[n])
        out.evaluations += 1
        if what == "report":
            im = r["report"]
        else:
            im = r["lint"] if r["lint"] != "ok" else "ok " + " & ".join(j["lint"][3:] for j in r["jobs"])
        if any(j["fmt"] == "ftl" for j in r["jobs"]):
            im, mo = canon_set_order_session(im), canon_set_order_session(mo)
        if im != mo:
            out.disagreements.append({"op": "c05.session." + what, "formats": [j["fmt"] for j in r["jobs"]], "merge": [j["merge"] for j in r["jobs"]],
                                      "l10n": [j["l10n_text"][:200] for j in r["jobs"]], "impl": im[:900], "model": mo[:900]})
            out.count("pipeline.disagree.session." + what)
        else:
            out.nontrivial.add(("session-model", what, im))
        out.count("session.model." + what)


def canon_set_order_session(s):
    """`canon_set_order` for a text that holds several files: every run of `|`-adjacent items carrying "Missing attribute: "
    (FluentChecker iterates over a Python set there) is sorted"""
    if MISSING_ATTR not in s:
        return s
    import re
    # the first item of a leaf follows its path: `<path>:<item>|<item>`
    s = re.sub(r":((?:error|warning|missingEntity|obsoleteEntity|missingFile|obsoleteFile)=)", ":\x00\\1", s)
    parts = re.split("([|;&\\[\\] \x00])", s)       # items at even positions, separators at odd ones
    i = 0
    while i < len(parts):
        if MISSING_ATTR not in parts[i]:
            i += 2
            continue
        j = i
        while j + 2 < len(parts) and parts[j + 1] == "|" and MISSING_ATTR in parts[j + 2]:
            j += 2
        if j > i:
            parts[i:j + 1:2] = sorted(parts[i:j + 1:2])
        i = j + 2
    return "".join(parts).replace("\x00", "")


def run(ctx):
    out = Outcome()
    out.rule = ("per file type: reference and localization from the record generators, then byte-level mutations (delete/insert/duplicate/"
                "splice, invalid UTF-8 sequences, NULs, unbalanced quotes and tags), truncation, arbitrary bytes on one or both sides; directed "
                "families (junk-key clash, PO repr, properties / dtd checks, junk copied with its reference, long runs of one token class in "
                "an unterminated lexical state); half of the cases with merge staging; SESSIONS: one ContentComparer and one L10nLinter over "
                "2-5 file pairs of the same and of different formats sharing their keys, U+FFFD / invalid bytes in file k but not before (and "
                "the other way round) at different offsets, dtd files referring to different entities — judged per file by construction and "
                "against a fresh comparer / linter per file; non-trivial = the comparison produced at least one detail or lint result; "
                "distinct = distinct (format, localized bytes)")
    cases = gen_cases(ctx)
    res = pool.pmap("impl.robust", "impl_robust", [[c["fmt"], c["ref"], c["l10n"], c["merge"]] for c in cases],
                    timeout=10.0, batch=8)
    judge(out, cases, res)
    # ---- long runs, two waves with a short deadline; a state that hangs in wave 1 is not tried again with longer runs
    hung_states, long_ok = set(), []
    for wave in (1, 2):
        lc = [c for c in gen_long(ctx, wave) if c["state"] not in hung_states]
        lres = pool.pmap("impl.robust", "impl_robust", [[c["fmt"], c["ref"], c["l10n"], c["merge"]] for c in lc], timeout=3.0, batch=4)
        for c in judge(out, lc, lres):
            hung_states.add(c["state"])
        long_ok += [c for c, r in zip(lc, lres) if r.get("exc") != "Hang"]
    # ---- correspondence of the composed pipeline model (compare + toJSON + merge outcome, lint with / without reference)
    pcases = [c for c in cases + long_ok if c["fmt"] in PIPE_FORMATS]
    pres = pool.pmap("impl.pipeline", "impl_pipeline", [[c["fmt"], c["ref"], c["l10n"], c["merge"]] for c in pcases],
                     timeout=10.0, batch=8)
    diff_stream(out, ctx, pcases, pres, lines_regex, "c05")
    # ---- Fluent / Android: the pipeline from the external parser's output on
    for fmt, fn, mk in (("ftl", "impl_pipeline_ftl", lines_ftl), ("android", "impl_pipeline_android", lines_android)):
        rng = ctx.rng("c05-sub", fmt)
        fc = [c for c in cases + long_ok if c["fmt"] == fmt]
        DIRECTED = ("junk-copy", "long-run", "ufffd", "ftl-directed", "android-directed", "ftl-deep-nesting", "ftl-deep-nesting-ref")
        directed = [c for c in fc if c["tag"] in DIRECTED]
        rest = [c for c in fc if c["tag"] not in DIRECTED]
        fc = directed + rng.sample(rest, min(len(rest), ctx.n(300, 2500)))
        fres = pool.pmap("impl.pipeline", fn, [[c["ref"], c["l10n"], c["merge"]] for c in fc], timeout=10.0, batch=8)
        diff_stream(out, ctx, fc, fres, mk, "c05")
    files_stream(out, ctx, cases)
    session_stream(out, ctx)
    odd_files(out, ctx)
    decode_stream(out, ctx)
    regex_guard(out, ctx)
    # correspondence of the base (encoding) check model
    from compare_locales.checks.base import Checker

    from compare_locales.parser.base import LiteralEntity

    def Ent(all):
        # a REAL entity object of the code under test (literal key/value/all), not a stand-in: the checker may
        # use any attribute an entity has
        return LiteralEntity("k", all, all)
    rng = ctx.rng("c05-base")
    texts = []
    for _ in range(ctx.n(3000, 40000)):
        n = rng.randrange(0, 12)
        texts.append("".join(rng.choice(["a", "�", " ", "\n", "é", "\U0001F600", "￼"]) for _ in range(n)))
    lines = ["basecheck " + C.enc(t) for t in texts]
    model = C.run_driver_parallel(lines) if ctx.model_ok else []
    for t, mo in zip(texts, model):
        try:
            res = list(Checker(None).check(Ent(t), Ent(t)))
        except Exception as e:     # the implementation raises on a literal entity: not a verdict of this stream
            out.disagreements.append({"op": "basecheck", "text": t, "impl": "raises %s: %s" % (type(e).__name__, str(e)[:120]), "model": mo})
            continue
        canon = " ".join("%s%d:%s" % (tp[0], int(pos), cat) for tp, pos, msg, cat in res)
        out.evaluations += 1
        exp = [i for i, ch in enumerate(t) if ch == "�"]
        if [int(pos) for tp, pos, msg, cat in res] != exp or any(tp != "warning" or cat != "encodings" for tp, pos, msg, cat in res):
            out.violations.append({"what": "base check: U+FFFD occurrences %r but results %r" % (exp, canon), "input": {"all": t}, "finding": None})
        elif mo != canon:
            out.disagreements.append({"op": "basecheck", "text": t, "impl": canon, "model": mo})
        if exp:
            out.nontrivial.add(("base", t))
    return out


def classify(v):
    return v.get("finding")


def replay(payload):
    res = []
    for v in payload.get("violations", []):
        c = v["input"]
        if "odd" in c:
            r = pool.pmap("impl.pipeline", "impl_files_odd", [c["odd"]], timeout=30.0)[0]
            r = r.get("r", r)
            res.append({"input": c, "oracle": ["%s: %s" % (op, r.get(op)) for op in ("compare", "add", "remove") if not str(r.get(op, "")).startswith("ok")]})
            continue
        if "regex" in c:
            t = pool.pmap("impl.pipeline", "impl_rx_time", [[c["pattern"], c["flags"], c["text"], c["mode"]]], timeout=6.0)[0]
            t = t.get("r", t)
            res.append({"input": c, "oracle": ["does not terminate in reasonable time"] if (t.get("exc") == "Hang" or t.get("seconds", 0) > 2.0) else []})
            continue
        if "session" in c:
            r0 = pool.pmap("impl.pipeline", "impl_session", [[c["session"], c["lint_refs"]]], timeout=60.0)[0]
            res.append({"input": c, "oracle": [m for m, _ in session_oracle({"jobs": c["session"], "lint_refs": c["lint_refs"]}, r0)]})
            continue
        if "fmt" not in c:
            continue
        if c.get("files"):
            r = pool.pmap("impl.pipeline", "impl_files", [[c["fmt"], c["ref"], c["l10n"], c["merge"], c.get("k")]], timeout=30.0)[0]
            r = r.get("r", r)
            res.append({"input": c, "oracle": ["%s raised %s" % (st, r[st + "_exc"]) for st in ("comparef", "addfile", "removefile") if r.get(st + "_exc")]})
            continue
        if c.get("fresh"):
            if c["fmt"] == "ftl":
                r = pool.pmap("impl.pipeline", "impl_pipeline_ftl", [[c["ref"], c["l10n"], c["merge"]]], timeout=30.0)[0]
            elif c["fmt"] == "android":
                r = pool.pmap("impl.pipeline", "impl_pipeline_android", [[c["ref"], c["l10n"], c["merge"]]], timeout=30.0)[0]
            else:
                r = pool.pmap("impl.pipeline", "impl_pipeline", [[c["fmt"], c["ref"], c["l10n"], c["merge"]]], timeout=30.0)[0]
            if r.get("exc") == "Hang":
                res.append({"input": c, "oracle": ["does not terminate"]})
                continue
            r = r.get("r", r)
            res.append({"input": c, "oracle": ["%s raised %s" % (st, r[st + "_exc"]) for st in ("compare", "lint", "lint_noref") if r.get(st + "_exc")]})
            continue
        r = pool.pmap("impl.robust", "impl_robust", [[c["fmt"], c["ref"], c["l10n"], c["merge"]]], timeout=30.0)[0]
        res.append({"input": c, "oracle": [m for m, _ in oracle(c, r)]})
    return {"violates": any(r["oracle"] for r in res), "cases": res}

"""C19, round 4: streams that drive ONE linter run over several files, lint/util.py and lint/cli.py main on generated
TOML projects, the result side of main on prescribed results, getChecker, and KeyedTuple with its fall-backs.

Every stream has (a) an oracle that is computed by construction from the generating records / project description and
never looks at the Lean model, and (b) a correspondence with a driver op (c19.run, c19.refs, c19.main, c19.cliout,
c19.getchecker, c19.keyed)."""
import itertools
import posixpath

from lib import common as C
from lib import pool
from props import c19 as B


class _SubCtx:
    """a context whose random streams are separate from those of the single-file streams"""

    def __init__(self, ctx, tag):
        self.ctx, self.tag, self.tier = ctx, tag, ctx.tier

    def rng(self, *tags):
        return self.ctx.rng(self.tag, *tags)

    def n(self, q, t):
        return self.ctx.n(q, t)


# =============================================================================================== several files, one run
def dtd_family():
    """four .dtd files whose values reference DIFFERENT entities (a checker that remembers the entities of the first
    file it saw would flag the later ones)"""
    def ent(k, raw):
        return {"kind": "ent", "key": k, "val": B.pal_index("dtd", raw)}
    return [
        [ent("k1", "Welcome to &brandShortName;")],
        [ent("k1", "&vendorShortName; and &OTHER;"), ent("k2", "plain value")],
        [ent("k1", "plain value"), ent("k2", "see &OTHER; of &brandShortName;"), ent("k3", "other text")],
        [ent("k1", "plain value"), {"kind": "junk", "text": B.JUNK["dtd"][0]}, ent("k1", "other text")],
    ]


def ref_variant(items, v):
    """0: no reference, 1: identical, 2: first record re-valued to a plain text, 3: missing path"""
    if v == 0:
        return None
    if v == 3:
        return "missing"
    ents = [dict(x) for x in items if x["kind"] == "ent"]
    if v == 2 and ents:
        ents[0]["val"] = 1 if ents[0]["val"] != 1 else 0
    return ents


def gen_multi(ctx):
    """sequences of (fmt, items, ref) to be linted by ONE L10nLinter.lint call; returns [(seq, unknown_at, name)]"""
    rng = ctx.rng("c19.multi")
    seqs = []
    fam = dtd_family()
    k = 0
    for i, j in itertools.product(range(4), repeat=2):
        seqs.append(([("dtd", fam[i], ref_variant(fam[i], k % 4)), ("dtd", fam[j], ref_variant(fam[j], (k // 4) % 3))], None, "dtd-pair"))
        k += 1
    for tri in itertools.permutations(range(4), 3):
        seqs.append(([("dtd", fam[i], ref_variant(fam[i], (k + n) % 3)) for n, i in enumerate(tri)], None, "dtd-triple"))
        k += 1
    # same format
    for fmt in B.FORMATS:
        poolc = B.gen_random(_SubCtx(ctx, "c19.multi.same"), fmt, ctx.n(60, 900))
        for _ in range(ctx.n(22, 350)):
            n = rng.choice([2, 2, 3, 4])
            seqs.append(([(fmt,) + tuple(rng.choice(poolc)[:2]) for _ in range(n)], None, "same-format"))
    # mixed formats, files without a parser in between
    pools = {fmt: B.gen_random(_SubCtx(ctx, "c19.multi.mixed"), fmt, ctx.n(40, 600)) for fmt in B.FORMATS}
    for _ in range(ctx.n(110, 2200)):
        n = rng.choice([2, 3, 3, 4])
        seq = []
        for _j in range(n):
            fmt = rng.choice(B.FORMATS)
            seq.append((fmt,) + tuple(rng.choice(pools[fmt])[:2]))
        seqs.append((seq, rng.randrange(n + 1) if rng.random() < 0.3 else None, "mixed"))
    # the same three files in every order
    for _ in range(ctx.n(8, 120)):
        three = []
        for _j in range(3):
            fmt = rng.choice(B.FORMATS)
            three.append((fmt,) + tuple(rng.choice(pools[fmt])[:2]))
        for perm in itertools.permutations(range(3)):
            seqs.append(([three[i] for i in perm], None, "permutation"))
    return seqs


def build_multi(idx, seq, unknown_at, util):
    files, infos = [], []
    for j, (fmt, items, ref) in enumerate(seq):
        cur = B.print_file(fmt, items)
        name = "f%d/%s" % (j, B.FNAME[fmt][(idx + j) % len(B.FNAME[fmt])])
        if ref is None or ref == "missing":
            rp, rtext = None, ref
        else:
            rp = B.print_file(fmt, ref)
            rtext = rp.text
        files.append({"path": name, "text": cur.text, "ref": rtext})
        infos.append({"fmt": fmt, "path": name, "cur": cur, "ref": rp, "items": items, "refitems": ref})
    unknown = []
    if unknown_at is not None:
        u = "u/" + B.UNKNOWN[idx % len(B.UNKNOWN)]
        files.insert(unknown_at, {"path": u, "text": "k1 = a\nk1 = b\njunk here\n", "ref": None})
        unknown.append(u)
    return {"dir": "m%d" % idx, "files": files, "util": util}, infos, unknown


def judge_multi(case, infos, unknown, r):
    """the results of one run over several files = the concatenation, in file order, of what each file yields on its own"""
    if r.get("exc") == "Hang":
        return "linting does not terminate"
    if "exc" in r:
        return "linting raised %s: %s" % (r["exc"], r.get("msg"))
    res = r["r"]["results"]
    order = [f["path"] for f in case["files"]]
    for g in res:
        if g["path"] in unknown:
            return "a file without a parser (%s) was linted" % g["path"]
        if g["path"] not in order:
            return "a result carries a path that was not linted (%s)" % g["path"]
    idxs = [order.index(g["path"]) for g in res]
    if idxs != sorted(idxs):
        return "the results are not in the order of the file list (files %s)" % idxs
    descs = dict(zip(order, r["r"]["files"]))
    for n, info in enumerate(infos):
        mine = [g for g in res if g["path"] == info["path"]]
        bad = B.match_expected(B.expected_results(info["fmt"], info["cur"], info["ref"]), mine)
        if bad is None:
            bad = B.check_positions(info["fmt"], descs.get(info["path"]), mine)
        if bad:
            return "file %d of %d (%s, linted after %s): %s" % (
                n + 1, len(infos), info["path"], [i["path"] for i in infos[:n]] or "nothing", bad)
    return None


def run_multi(ctx, out):
    seqs = gen_multi(ctx)
    cases = []
    for idx, (seq, unknown_at, name) in enumerate(seqs):
        util = {3: "mirror", 5: "l10n_base"}.get(idx % 9)
        case, infos, unknown = build_multi(idx, seq, unknown_at, util)
        cases.append((case, infos, unknown, name))
        out.count("multi.%s" % name)
        out.count("multi.files=%d" % len(seq))
    res = pool.pmap("impl.lint", "impl_case", [[c] for c, _, _, _ in cases], timeout=8.0, batch=12)
    lines = [(r["r"]["runline"] if "r" in r else None) for r in res]
    todo = [l for l in lines if l is not None]
    model = C.run_driver_parallel(todo) if (ctx.model_ok and todo) else []
    mit = iter(model)
    for (case, infos, unknown, name), r, line in zip(cases, res, lines):
        out.evaluations += 1
        mo = next(mit, None) if line is not None else None
        bad = judge_multi(case, infos, unknown, r)
        if "r" in r:
            withres = sum(1 for i in infos if any(g["path"] == i["path"] for g in r["r"]["results"]))
            out.count("multi.files-with-results=%d" % min(withres, 4))
            if withres >= 2:
                out.nontrivial.add(("multi", tuple((g["path"], g["lineno"], g["column"], g["message"]) for g in r["r"]["results"])))
        if bad:
            out.violations.append({"what": "one run over %d files: %s" % (len(infos), bad), "op": "multi", "finding": None,
                                   "input": {"files": [{"fmt": i["fmt"], "items": B.describe(i["items"]),
                                                        "ref": i["refitems"] if not isinstance(i["refitems"], list) else B.describe(i["refitems"])}
                                                       for i in infos], "case": case}})
            out.count("multi.violations")
        elif ctx.model_ok and mo is not None and mo != r["r"]["runcanon"]:
            out.disagreements.append({"op": "run", "files": case["files"], "impl": r["r"]["runcanon"], "model": mo})


# =============================================================================================== occurrences of one key
def gen_occurrences(ctx, fmt):
    """one key occurring 3 (thorough: 3 or 4) times with values that disagree about changed-vs-reference, against
    references holding the key once or twice (the LAST one counts); with and without other records in between, so
    that every occurrence has its own line.  Returns (items, ref, name) triples for the single-file stream."""
    quick = ctx.tier == "quick"
    vals = (0, 1) if quick else (0, 1, 2)
    occs = (3,) if quick else (3, 4)
    doubles = [(0, 1), (1, 0), (0, 2)] if quick else list(itertools.product((0, 1, 2), repeat=2))
    refs = [None] + [[v] for v in (0, 1, 2)] + [list(p) for p in doubles]
    cases = []
    for n in occs:
        for combo in itertools.product(vals, repeat=n):
            for layout in (0, 1):
                items = []
                for j, v in enumerate(combo):
                    items.append({"kind": "ent", "key": "k1", "val": v})
                    if layout == 1 and j == 0:
                        items.append({"kind": "ent", "key": "k2", "val": 0})
                    if layout == 1 and j == 1:
                        items.append({"kind": "junk", "text": B.JUNK[fmt][0]})
                for rv in refs:
                    ref = None if rv is None else [{"kind": "ent", "key": "k1", "val": v} for v in rv]
                    cases.append((items, ref, "occurrences"))
    return cases


# =============================================================================================== projects
FILE_OF = {"properties": "a.properties", "dtd": "a.dtd", "ini": "a.ini", "inc": "defines.inc", "ftl": "a.ftl", "android": "strings.xml"}
STAR_OF = {"properties": "*.properties", "dtd": "*.dtd", "ini": "*.ini", "inc": "*.inc", "ftl": "*.ftl", "android": "*.xml"}
ANDROID_DTD_MSG = "Apostrophes in Android DTDs need escaping with \\' or \\u0027, or use ’, or put string in quotes."
APOS = ["it's here", "v11", []]          # a DTD value that is fine unless the entry asks for the `android-dtd` test


def rand_items(rng, fmt, apos=False):
    items = []
    for _ in range(rng.randrange(1, 6)):
        r = rng.random()
        if r < 0.78:
            it = {"kind": "ent", "key": rng.choice(B.KEYS[:3]), "val": rng.randrange(len(B.PALETTE[fmt]))}
            if apos and rng.random() < 0.5:
                it["rawval"] = list(APOS)
            items.append(it)
        elif r < 0.9:
            if items and items[-1]["kind"] == "junk":
                continue
            items.append({"kind": "junk", "text": rng.choice(B.JUNK[fmt])})
        else:
            items.append({"kind": "comment", "text": "a comment"})
    if not any(x["kind"] == "ent" for x in items):
        items.append({"kind": "ent", "key": "k1", "val": 0})
    return items


def derive_ref(rng, fmt, items):
    """reference version of a file: None (no such file) or records identical / re-valued / dropped / duplicated"""
    if rng.random() < 0.15:
        return None
    ref = []
    for it in items:
        if it["kind"] != "ent":
            continue
        r = rng.random()
        v = dict(it)
        if r < 0.15:
            continue
        if r < 0.5:
            v.pop("rawval", None)
            v["val"] = rng.randrange(len(B.PALETTE[fmt]))
        if r > 0.9:
            extra = dict(it)
            extra.pop("rawval", None)
            extra["val"] = rng.randrange(len(B.PALETTE[fmt]))
            ref.append(extra)
        ref.append(v)
    return ref


def gen_project(rng, idx, kinds, mode, variant):
    """kinds: tuple of 'ref' | 'l10nonly' | 'overlap' (one per [[paths]] entry, in TOML order).
    'overlap' = a second, narrower entry for the directory of the previous 'ref' entry (same file, other tests)."""
    entries = []
    d = 0
    for kind in kinds:
        if kind == "overlap" and entries and entries[-1]["kind"] == "ref" and entries[-1]["shape"] == "starstar":
            e = dict(entries[-1], shape="star", tests=rng.choice([[], ["android-dtd"], ["other-test"]]), overlap=True, hastest=True)
            entries.append(e)
            continue
        if kind == "overlap":
            kind = "ref"
        fmt = rng.choice(B.FORMATS + ["dtd"])
        shape = rng.choice(["starstar", "starstar", "star", "literal", "sub"])
        tests = []
        if fmt == "dtd" and rng.random() < 0.6:
            tests = ["android-dtd"]
        elif rng.random() < 0.25:
            tests = ["other-test"]
        items = rand_items(rng, fmt, apos=(fmt == "dtd"))
        entries.append({"kind": kind, "dir": "d%d" % d, "fmt": fmt, "shape": shape, "tests": tests, "items": items,
                        "refitems": derive_ref(rng, fmt, items), "hastest": bool(tests) or rng.random() < 0.5})
        d += 1
    # overlap entries may be moved in front of their partner: the LATER entry in the file wins
    if variant % 4 == 1:
        for i in range(1, len(entries)):
            if entries[i].get("overlap"):
                entries[i - 1], entries[i] = entries[i], entries[i - 1]
    conf_in_sub = variant % 3 == 1
    excluded = None
    refdirs = sorted({e["dir"] for e in entries if e["kind"] == "ref"})
    if variant % 5 == 2 and refdirs:
        excluded = rng.choice(refdirs)
    P = {"entries": entries, "mode": mode, "W": variant % 2 == 1, "cwd": ["proj", ".", "other/deep"][variant % 3],
         "toml": "proj/conf/l10n.toml" if conf_in_sub else "proj/l10n.toml", "basepath": ".." if conf_in_sub else ".",
         "refdir": {"mirror": ["refp", "ext/ref-project"][variant % 2], "l10n_base": "l10nref/en", "default": None}[mode],
         "excluded": excluded, "idx": idx}
    return P


def tail_of(e):
    return ("sub/" if e["shape"] == "sub" else "") + FILE_OF[e["fmt"]]


def pattern_of(e):
    if e["shape"] in ("starstar", "sub"):
        return "**"
    if e["shape"] == "star":
        return STAR_OF[e["fmt"]]
    return FILE_OF[e["fmt"]]


def project_files(P):
    """the tree of the project: [{"path", "text"}] and, per linted file, what the generator knows"""
    files = []
    lines = ['basepath = "%s"' % P["basepath"], 'locales = ["de"]']
    if P["excluded"]:
        lines += ["[[excludes]]", '  path = "ex.toml"']
        files.append({"path": "proj/ex.toml", "text": 'basepath = "."\nlocales = ["de", "en"]\n[[paths]]\n  reference = "app/%s/**"\n'
                      '  l10n = "{l10n_base}/{locale}/%s/**"\n' % (P["excluded"], P["excluded"])})
    for e in P["entries"]:
        lines.append("[[paths]]")
        if e["kind"] == "ref":
            lines.append('  reference = "app/%s/%s"' % (e["dir"], pattern_of(e)))
        lines.append('  l10n = "{l10n_base}/{locale}/%s/%s"' % (e["dir"], pattern_of(e)))
        if e["hastest"]:
            lines.append("  test = [%s]" % ", ".join('"%s"' % t for t in e["tests"]))
    files.append({"path": P["toml"], "text": "\n".join(lines) + "\n"})
    known = {}
    seen_dirs = set()
    for n, e in enumerate(P["entries"]):
        if e["dir"] in seen_dirs:
            continue
        seen_dirs.add(e["dir"])
        cur = B.print_file(e["fmt"], e["items"])
        src = "proj/app/%s/%s" % (e["dir"], tail_of(e))
        files.append({"path": src, "text": cur.text})
        files.append({"path": "proj/app/%s/readme.txt" % e["dir"], "text": "k1 = a\nk1 = b\njunk here\n"})
        rp = None
        if e["refitems"] is not None and P["refdir"] is not None:
            rp = B.print_file(e["fmt"], e["refitems"])
            where = "%s/app/%s/%s" % (P["refdir"], e["dir"], tail_of(e)) if P["mode"] == "mirror" else \
                "%s/%s/%s" % (P["refdir"], e["dir"], tail_of(e))
            files.append({"path": where, "text": rp.text})
        known[src] = {"entry": e, "cur": cur, "refprinted": rp}
    if P["mode"] == "l10n_base":
        files.append({"path": "l10nref/en/.keep", "text": ""})       # the directory must exist
    return files, known


def covering(P, src_dir):
    """the entry that decides about a reference file in that directory: the LAST one in the TOML file that has a
    reference (ProjectFiles iterates last first)"""
    c = [e for e in P["entries"] if e["dir"] == src_dir and e["kind"] == "ref"]
    return c[-1] if c else None


def project_expect(P, known):
    """by construction: which files are linted, in which order, against which reference, with which tests, with which results"""
    linted = []
    for src in sorted(known):
        e0 = known[src]["entry"]
        e = covering(P, e0["dir"])
        if e is None:
            continue                                            # an l10n-only entry: nothing to lint there
        mode = P["mode"]
        if mode == "default":
            ref, tests, refp = None, None, None
        else:
            tests = sorted(e["tests"])
            if mode == "mirror":
                ref = "%s/app/%s/%s" % (P["refdir"], e["dir"], tail_of(e))
            else:
                ref = "%s/%s/%s" % (P["refdir"], e["dir"], tail_of(e))
            refp = known[src]["refprinted"]

        def alt(ref, tests, refp):
            exp = B.expected_results(e["fmt"], known[src]["cur"], refp)
            if tests and "android-dtd" in tests and e["fmt"] == "dtd":
                for it in known[src]["cur"].items:
                    if it["kind"] == "ent" and it["sem"] == APOS[1]:
                        exp.append((None, None, "error", ANDROID_DTD_MSG, True))
            return {"path": src, "fmt": e["fmt"], "ref": ref, "tests": tests, "expected": exp}

        f = alt(ref, tests, refp)
        if mode == "l10n_base" and P["excluded"] == e["dir"]:
            # the localized file belongs to an excluded config: ProjectFiles.match answers None, so there is no reference.
            # Through `main` the exclusion is NOT in force (iter_reference() unsets `exclude` while the linter consumes it,
            # see NOTES): the property says nothing about excluded configurations, both outcomes are accepted there.
            f = dict(alt(None, None, None), alts=[f])
        linted.append(f)
    return linted


def expected_rv(linted, W):
    levels = [x[2] for f in linted for x in f["expected"]]
    if not levels:
        return 0
    if all(l == "warning" for l in levels) and not W:
        return 0
    return 1


def rel_to(path, cwd):
    return posixpath.relpath("/B/" + path, "/B/" + cwd)


def judge_project(P, linted, r):
    if r.get("exc") == "Hang":
        return "the command does not terminate"
    if "exc" in r:
        return "the harness adapter raised %s: %s" % (r["exc"], r.get("msg"))
    m = r["r"]["main"]
    if P.get("expect_usage"):
        return None if m["status"] == "usage" else "a missing l10n reference directory was accepted (%s)" % m["status"]
    if m["status"] != "done":
        return "moz-l10n-lint ended with %s" % m["status"]
    res = m["results"]
    order = [f["path"] for f in linted]
    for g in res:
        if g["path"] not in order:
            return "a result for %s, which is not a reference file of the project" % g["path"]
    idxs = [order.index(g["path"]) for g in res]
    if idxs != sorted(idxs):
        return "the results are not grouped by file in sorted path order (%s)" % idxs
    # every linted file was asked about, in order, and got the reference / tests that belong to it
    chosen = []
    for a, f in itertools.zip_longest(m["trace"], linted):
        if a is None or f is None:
            return "reference of a linted file: got (path, reference, tests) = %s, expected %s" % (a, f and [f["path"], f["ref"], f["tests"]])
        ok = [x for x in [f] + f.get("alts", []) if a == [x["path"], x["ref"], x["tests"]]]
        if not ok:
            return "reference of a linted file: got (path, reference, tests) = %s, expected %s" % (a, [f["path"], f["ref"], f["tests"]])
        chosen.append(ok[0])
    linted = chosen
    descs = dict(zip(m["linted"], m["files"]))
    for f in linted:
        mine = [g for g in res if g["path"] == f["path"]]
        bad = B.match_expected(f["expected"], mine)
        if bad is None:
            bad = B.check_positions(f["fmt"], descs.get(f["path"]), mine)
        if bad:
            return "%s (reference %s, tests %s): %s" % (f["path"], f["ref"], f["tests"], bad)
    # printed lines: one per result, in order, `<path relative to the working directory> (<line>:<column>): <message>`
    want_out = "".join("%s (%s:%s): %s\n" % (rel_to(g["path"], P["cwd"]), g["lineno"], g["column"], g["message"]) for g in res)
    if m["stdout"] != want_out:
        return "printed output differs from one `path (line:column): message` line per result: %r" % m["stdout"][:300]
    rv = expected_rv(linted, P["W"])
    if m["rv"] != rv:
        return "exit status %s, expected %s (%d results expected, levels %s, -W %s)" % (
            m["rv"], rv, sum(len(f["expected"]) for f in linted), sorted({x[2] for f in linted for x in f["expected"]}), P["W"])
    return None


def judge_refs(P, known, linted, queries, r):
    """the callable of lint/util.py on the reference files of the project: by construction"""
    if "exc" in r or "refs" not in r["r"]:
        return None
    ans = dict(zip(queries, r["r"]["refs"]["answers"]))
    want = {f["path"]: [f["ref"], f["tests"]] for f in linted}
    for src in known:
        if src in want:
            if ans.get(src) != want[src]:
                return "get_reference_and_tests(%s) = %s, expected %s" % (src, ans.get(src), want[src])
        elif ans.get(src) != [None, None]:
            return "get_reference_and_tests(%s) = %s for a file no entry with a reference covers" % (src, ans.get(src))
    return None


KIND_SETS = [k for n in (1, 2, 3) for k in itertools.product(("ref", "l10nonly"), repeat=n) if "ref" in k]


def describe_project(P):
    return {"mode": P["mode"], "W": P["W"], "cwd": P["cwd"], "toml": P["toml"], "excluded": P["excluded"],
            "entries": [{k: e[k] for k in ("kind", "dir", "fmt", "shape", "tests", "hastest")} for e in P["entries"]]}


def run_projects(ctx, out):
    rng = ctx.rng("c19.projects")
    projects = []
    idx = 0
    reps = 1 if ctx.tier == "quick" else 8
    for _ in range(reps):
        for kinds in KIND_SETS:
            for mode in ("default", "mirror", "l10n_base"):
                projects.append(gen_project(rng, idx, kinds, mode, idx))
                idx += 1
    for _ in range(ctx.n(50, 900)):
        n = rng.randrange(2, 5)
        kinds = tuple(rng.choice(["ref", "ref", "l10nonly", "overlap"]) for _ in range(n))
        if "ref" not in kinds:
            kinds = ("ref",) + kinds[1:]
        projects.append(gen_project(rng, idx, kinds, rng.choice(["default", "mirror", "mirror", "l10n_base", "l10n_base"]), rng.randrange(60)))
        idx += 1
    # the argument check of main: a reference directory that does not exist; an empty --l10n-reference
    for v in range(2):
        P = gen_project(rng, idx, ("ref", "ref"), "l10n_base", v)
        P["refdir_arg"] = "l10nref/nonexistent"
        P["expect_usage"] = True
        projects.append(P)
        idx += 1
    cases = []
    for P in projects:
        files, known = project_files(P)
        linted = project_expect(P, known)
        queries = sorted(known) + ["proj/app/zz/a.dtd", "proj/app", "elsewhere/a.ftl"]
        if P["refdir"]:
            queries += ["%s/%s/%s" % (P["refdir"], e["dir"], tail_of(e)) for e in P["entries"]]
            queries += ["%s/app/%s/%s" % (P["refdir"], e["dir"], tail_of(e)) for e in P["entries"]]
        queries = list(dict.fromkeys(queries))
        case = {"dir": "p%d" % P["idx"], "files": files, "toml": P["toml"], "mode": P["mode"], "refarg": P.get("refdir_arg", P["refdir"]),
                "W": P["W"], "cwd": P["cwd"], "queries": queries, "main": True}
        cases.append((case, P, known, linted, queries))
        out.count("project.mode=%s" % P["mode"])
        out.count("project.entries=%s" % ",".join(e["kind"][0] + ("o" if e.get("overlap") else "") for e in P["entries"]))
    res = pool.pmap("impl.lintproj", "impl_project", [[c] for c, _, _, _, _ in cases], timeout=10.0, batch=6)
    lines = []
    for r in res:
        if "r" in r:
            if "refs" in r["r"]:
                lines.append(r["r"]["refs"]["line"])
            if "main" in r["r"]:
                lines.append(r["r"]["main"]["line"])
    model = C.run_driver_parallel(lines) if (ctx.model_ok and lines) else []
    mit = iter(model)
    for (case, P, known, linted, queries), r in zip(cases, res):
        out.evaluations += 1
        mrefs = mmain = None
        if "r" in r:
            if "refs" in r["r"]:
                mrefs = next(mit, None)
            if "main" in r["r"]:
                mmain = next(mit, None)
        bad = judge_project(P, linted, r)
        if bad is None and not P.get("expect_usage"):
            bad = judge_refs(P, known, linted, queries, r)
        if "r" in r and "main" in r["r"] and r["r"]["main"]["status"] == "done":
            m = r["r"]["main"]
            out.count("project.rv=%s" % m["rv"])
            out.count("project.results=%d" % min(len(m["results"]), 6))
            out.count("project.with-reference=%d" % sum(1 for t in m["trace"] if t[1] is not None))
            if m["results"]:
                out.nontrivial.add(("project", P["mode"], m["rv"], m["stdout"]))
            if len(out.samples) < 16 and len(m["results"]) >= 3 and out.distribution.get("sampled.project." + P["mode"], 0) < 1:
                out.count("sampled.project." + P["mode"])
                out.samples.append({"project": describe_project(P), "toml": [f for f in case["files"] if f["path"] == P["toml"]][0]["text"],
                                    "stdout": m["stdout"], "exit": m["rv"], "references": m["trace"]})
        if bad:
            out.violations.append({"what": "moz-l10n-lint on a generated project (%s mode): %s" % (P["mode"], bad), "op": "project",
                                   "finding": None, "input": {"project": describe_project(P), "case": case,
                                                              "judge": {"P": {k: P.get(k) for k in ("mode", "W", "cwd", "expect_usage")}, "linted": linted}}})
            out.count("project.violations")
            continue
        if ctx.model_ok and "r" in r:
            if mrefs is not None and mrefs != r["r"]["refs"]["canon"]:
                out.disagreements.append({"op": "refs", "project": describe_project(P), "queries": queries,
                                          "impl": r["r"]["refs"]["canon"], "model": mrefs})
            if mmain is not None and mmain != r["r"]["main"]["canon"]:
                out.disagreements.append({"op": "main", "project": describe_project(P), "impl": r["r"]["main"]["canon"][:2000], "model": mmain[:2000]})


# =============================================================================================== result side of main
def run_cliout(ctx, out):
    rng = ctx.rng("c19.cliout")
    levels = ["error", "warning", "info"]
    cases = []
    for n in range(4):
        for combo in itertools.product(levels, repeat=n):
            for w in (False, True):
                rs = [{"level": lv, "message": "m%d" % j, "path": "x/f%d.ftl" % (j % 2), "lineno": j + 1, "column": 2 * j} for j, lv in enumerate(combo)]
                cases.append((w, rs))
    for n in (4, 5):
        for w in (False, True):
            cases.append((w, [{"level": "warning", "message": "w%d" % j, "path": "x/w.dtd", "lineno": j, "column": j} for j in range(n)]))
            cases.append((w, [{"level": "warning" if j != n - 1 else "error", "message": "w%d" % j, "path": "x/w.dtd", "lineno": j, "column": j} for j in range(n)]))
    for _ in range(ctx.n(40, 600)):
        rs = []
        for j in range(rng.randrange(1, 6)):
            g = {"level": rng.choice(levels + ["warning", "Warning"]), "message": rng.choice(["msg", "two\nlines", "", "ünï"]),
                 "path": rng.choice(["a.dtd", "sub/dir/b.properties", "/elsewhere/c.ftl"])}
            if rng.random() < 0.7:
                g["lineno"] = rng.randrange(0, 40)
            if rng.random() < 0.7:
                g["column"] = rng.randrange(-1, 90)
            rs.append(g)
        cases.append((rng.random() < 0.5, rs))
    res = pool.pmap("impl.lintproj", "impl_cliout", [[w, rs] for w, rs in cases], timeout=5.0, batch=40)
    lines = [r["r"]["line"] for r in res if "r" in r]
    model = C.run_driver(lines) if (ctx.model_ok and lines) else []
    mit = iter(model)
    for (w, rs), r in zip(cases, res):
        out.evaluations += 1
        if "r" not in r:
            out.violations.append({"what": "main raised %s on prescribed results" % r.get("exc"), "op": "cliout", "input": {"W": w, "results": rs}})
            continue
        mo = next(mit, None)
        got = r["r"]
        want_rv = 0 if (not rs or (all(g["level"] == "warning" for g in rs) and not w)) else 1
        want_lines = ["(%s:%s): %s" % (g.get("lineno", 0), g.get("column", 0), g["message"]) for g in rs]
        out.count("cliout.rv=%d" % got["rv"])
        out.nontrivial.add(("cliout", got["rv"], w, tuple(g["level"] for g in rs)))
        bad = None
        if got["rv"] != want_rv:
            bad = "exit status %s for levels %s with -W %s, expected %s" % (got["rv"], [g["level"] for g in rs], w, want_rv)
        else:
            pos = 0
            for g, wl in zip(rs, want_lines):
                j = got["stdout"].find(" " + wl + "\n", pos)
                if j < 0:
                    bad = "the line `<path> %s` is not printed (in order)" % wl
                    break
                pos = j + len(wl) + 2
        if bad:
            out.violations.append({"what": "result side of main: " + bad, "op": "cliout", "finding": None, "input": {"W": w, "results": rs}})
        elif mo is not None and mo != got["canon"]:
            out.disagreements.append({"op": "cliout", "W": w, "results": rs, "impl": got["canon"], "model": mo})


# =============================================================================================== getChecker
CHK_TOKENS = ["a", ".properties", ".dtd", ".ftl", "strings", ".xml", "\n", "/", ".inc"]


def ref_checker(path):
    """independent reference for checks.getChecker: Properties, DTD, Fluent, Android are tried in this order"""
    q = path[:-1] if path.endswith("\n") else path
    if "\n" not in q and q.endswith(".properties"):
        return "PropertiesChecker", False
    if "\n" not in q and q.endswith(".dtd"):
        return "DTDChecker", True
    if ".ftl" in path.split("\n")[0]:
        return "FluentChecker", False
    if "\n" not in q and q.endswith(".xml") and "strings" in q[:-4]:
        return "AndroidChecker", False
    return "Checker", False


def run_getchecker(ctx, out):
    paths = sorted({"".join(t) for n in range(4) for t in itertools.product(CHK_TOKENS, repeat=n)})
    res = pool.pmap("impl.lintproj", "impl_getchecker", [[p] for p in paths], timeout=3.0, batch=300)
    model = C.run_driver(["c19.getchecker %s" % C.enc(p) for p in paths]) if ctx.model_ok else [None] * len(paths)
    for p, r, mo in zip(paths, res, model):
        out.evaluations += 1
        if "r" not in r:
            out.violations.append({"what": "getChecker raised %s" % r.get("exc"), "op": "getchecker", "input": {"path": p}})
            continue
        name, needs = r["r"]
        out.count("checker.%s" % name)
        out.nontrivial.add(("checker", name))
        if (name, needs) != ref_checker(p):
            out.violations.append({"what": "getChecker(%r) is a %s (needs_reference %s), expected %s" % ((p, name, needs) + (ref_checker(p),)),
                                   "op": "getchecker", "finding": None, "input": {"path": p}})
        elif mo is not None and mo != "%s %d" % (C.enc(name), 1 if needs else 0):
            out.disagreements.append({"op": "getchecker", "path": p, "impl": [name, needs], "model": mo})


# =============================================================================================== KeyedTuple
def run_keyed(ctx, out):
    cases = []
    for n in range(4):
        for keys in itertools.product((0, 1), repeat=n):
            items = [[k, j] for j, k in enumerate(keys)]
            variants = [items]
            if n >= 2 and keys[0] == keys[-1]:
                variants.append(items[:-1] + [[keys[0], 0]])          # the same OBJECT twice
            for its in variants:
                qs = [["K", 0], ["K", 1], ["K", 2], ["U"], ["O", 99]] + [["O", j] for j in range(n)] + [["I", i] for i in range(-n - 1, n + 2)]
                for q in qs:
                    cases.append((its, q))
    res = pool.pmap("impl.lintproj", "impl_keyed", [[its, q] for its, q in cases], timeout=3.0, batch=200)
    lines = ["c19.keyed %d %s %s" % (len(its), " ".join("%d %d" % (k, i) for k, i in its), " ".join(str(x) for x in q)) for its, q in cases]
    lines = [" ".join(l.split()) for l in lines]
    model = C.run_driver(lines) if ctx.model_ok else [None] * len(cases)
    for (its, q), r, mo in zip(cases, res, model):
        out.evaluations += 1
        if "r" not in r:
            out.violations.append({"what": "KeyedTuple raised %s" % r.get("exc"), "op": "keyed", "input": {"items": its, "query": q}})
            continue
        got = r["r"]
        # by construction: `in` = some item has the key / is the object; [] = the LAST item with the key, tuple indexing for ints
        if q[0] == "K":
            hit = [i for k, i in its if k == q[1]]
            want = "%d %s" % (1 if hit else 0, hit[-1] if hit else "raise TypeError")
        elif q[0] == "O":
            want = "%d raise TypeError" % (1 if any(i == q[1] for _, i in its) else 0)
        elif q[0] == "U":
            want = "0 raise TypeError"
        else:
            want = "0 %s" % (its[q[1]][1] if -len(its) <= q[1] < len(its) else "raise IndexError")
        out.count("keyed.%s" % q[0])
        out.nontrivial.add(("keyed", got))
        if got != want:
            out.violations.append({"what": "KeyedTuple%s: `q in kt`, kt[q] = %s, expected %s" % (its, got, want), "op": "keyed", "finding": None,
                                   "input": {"items": its, "query": q}})
        elif mo is not None and mo != got:
            out.disagreements.append({"op": "keyed", "items": its, "query": q, "impl": got, "model": mo})


def replay_one(v):
    """re-run the oracle of a round-4 stream on a stored input"""
    i = v["input"]
    op = v["op"]
    if op == "multi":
        case = i["case"]
        seq = [(f["fmt"], f["items"], f["ref"]) for f in i["files"]]
        paths = [f["path"] for f in case["files"]]
        unknown = [p for p in paths if p.startswith("u/")]
        _c, infos, _u = build_multi(int(case["dir"][1:]), seq, None, case.get("util"))
        r = pool.pmap("impl.lint", "impl_case", [[case]], timeout=20.0)[0]
        return {"input": i, "results": r.get("r", {}).get("results") if "r" in r else r, "oracle": judge_multi(case, infos, unknown, r)}
    if op == "project":
        r = pool.pmap("impl.lintproj", "impl_project", [[i["case"]]], timeout=30.0)[0]
        m = r.get("r", {}).get("main") if "r" in r else None
        j = i.get("judge")
        verdict = judge_project(j["P"], j["linted"], r) if j else None
        return {"input": i["project"], "stdout": m and m["stdout"], "exit": m and m["rv"], "references": m and m["trace"], "oracle": verdict}
    if op == "cliout":
        r = pool.pmap("impl.lintproj", "impl_cliout", [[i["W"], i["results"]]], timeout=10.0)[0]
        got = r.get("r")
        want = 0 if (not i["results"] or (all(g["level"] == "warning" for g in i["results"]) and not i["W"])) else 1
        return {"input": i, "got": got and {"rv": got["rv"], "stdout": got["stdout"]}, "oracle": None if got and got["rv"] == want else "exit status differs"}
    if op == "getchecker":
        r = pool.pmap("impl.lintproj", "impl_getchecker", [[i["path"]]], timeout=10.0)[0]
        got = tuple(r["r"]) if "r" in r else None
        return {"input": i, "checker": got, "oracle": None if got == ref_checker(i["path"]) else "checker selection differs"}
    r = pool.pmap("impl.lintproj", "impl_keyed", [[i["items"], i["query"]]], timeout=10.0)[0]
    return {"input": i, "got": r.get("r"), "oracle": None}


def run_all(ctx, out):
    run_multi(ctx, out)
    run_projects(ctx, out)
    run_cliout(ctx, out)
    run_getchecker(ctx, out)
    run_keyed(ctx, out)
